#!/usr/bin/env python3
"""Negative controls: a change to /repo that keeps all 20 properties true (a refactoring, another error text, another
choice where the statements leave one open) must leave every check silent.

usage: control.py validate <dir with patch.diff + README.md> <control id> [--tier quick]
       control.py rerun [<control id> ...] [--props C06,C10]   (only these checks; the other verdicts are kept)

Validation, in a scratch copy of /repo outside /repo and /verif (removed afterwards): the patch applies, builds (also
with -tags verif), the repository's suite still passes; then ALL checks are run against the copy with VERIF_REPO. Any
exit status 1 is an alarm that has to be explained: either the control is not property-preserving after all (then it is
not kept as a control), or the check demands more than the property states (then the check is corrected). Kept controls
live in /verif/controls/<id>/ (patch.diff, README.md, meta.json with the verdict per check).
"""
import json
import os
import shutil
import sys
import tempfile

sys.path.insert(0, os.path.dirname(os.path.abspath(__file__)))
import seeded  # noqa: E402

ROOT = seeded.ROOT
CONTROLS = os.path.join(ROOT, "controls")


PROPS = None  # rerun --props: only these checks are run again


def run(src, cid, tier):
    d = tempfile.mkdtemp(prefix="control-", dir="/tmp")
    repo = os.path.join(d, "repo")
    meta = {"id": cid, "source": "independent sub-agent asked for property-preserving maintenance changes", "ran": []}
    try:
        seeded.copy_repo(repo)
        rc, out = seeded.sh("patch -p1 --no-backup-if-mismatch < %s" % os.path.join(src, "patch.diff"), repo)
        meta["ran"].append("patch -p1 < patch.diff : %s" % ("ok" if rc == 0 else "FAILED"))
        if rc != 0:
            print(out)
            return None
        rc, out = seeded.sh("go build ./... && go build -tags verif ./...", repo)
        meta["ran"].append("go build ./... (also -tags verif): %s" % ("ok" if rc == 0 else "FAILED"))
        if rc != 0:
            print(out)
            return None
        ok, missing, failed = seeded.suite(repo)
        meta["ran"].append("go test -vet=off -count=1 ./... with the change: %s" % ("all 235 baseline tests pass" if ok else "baseline tests failing: %s" % missing))
        if not ok:
            print("existing suite fails:", missing)
            return None
        res = seeded.run_checks(repo, PROPS or seeded.ALL, tier)
        if PROPS:
            old = json.load(open(os.path.join(CONTROLS, cid, "meta.json")))["checks"]
            res = dict(old, **res)
        meta["checks"] = res
        meta["tier"] = tier
        meta["alarms"] = sorted(k for k, v in res.items() if v["verdict"] != "missed")
        return meta
    finally:
        shutil.rmtree(d, ignore_errors=True)


def main():
    args = [a for a in sys.argv[1:] if not a.startswith("--")]
    tier = "quick"
    if "--tier" in sys.argv:
        tier = sys.argv[sys.argv.index("--tier") + 1]
        args = [a for a in args if a != tier]
    if "--props" in sys.argv:
        global PROPS
        v = sys.argv[sys.argv.index("--props") + 1]
        PROPS = v.split(",")
        args = [a for a in args if a != v]
    if args[0] == "validate":
        src, cid = args[1], args[2]
        meta = run(src, cid, tier)
        if meta is None:
            print(cid, "not usable")
            return 2
        dst = os.path.join(CONTROLS, cid)
        os.makedirs(dst, exist_ok=True)
        for f in ("patch.diff", "README.md"):
            if os.path.isfile(os.path.join(src, f)):
                shutil.copy(os.path.join(src, f), os.path.join(dst, f))
        json.dump(meta, open(os.path.join(dst, "meta.json"), "w"), indent=1)
        print(cid, "silent" if not meta["alarms"] else "ALARMS: %s" % {k: meta["checks"][k]["first_violation"][:200] for k in meta["alarms"]})
        return 0
    if args[0] == "rerun":
        ids = args[1:] or sorted(os.listdir(CONTROLS))
        for cid in ids:
            dst = os.path.join(CONTROLS, cid)
            if not os.path.isfile(os.path.join(dst, "patch.diff")):
                continue
            meta = run(dst, cid, tier)
            if meta is None:
                print(cid, "no longer usable")
                continue
            old = json.load(open(os.path.join(dst, "meta.json")))
            for k in ("history", "note"):
                if k in old:
                    meta[k] = old[k]
            json.dump(meta, open(os.path.join(dst, "meta.json"), "w"), indent=1)
            print(cid, "silent" if not meta["alarms"] else "ALARMS: %s" % {k: meta["checks"][k]["first_violation"][:200] for k in meta["alarms"]})
        return 0
    print(__doc__)
    return 2


if __name__ == "__main__":
    sys.exit(main())
