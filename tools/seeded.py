#!/usr/bin/env python3
"""Validate a seeded change produced by an independent sub-agent and, if it holds up, keep it under /verif/seeded/<id>/.

usage: seeded.py validate <PROP> <dir with patch.diff + demo_test.go|demo/main.go + README.md> <seeded id> [--props C01,C05] [--tier quick]
       seeded.py rerun [<seeded id> ...]      re-run the checks against the kept changes and refresh meta.json / the table

Validation (all in a scratch copy of /repo outside /repo and /verif, removed afterwards):
  1. the patch applies to the current /repo tree and `go build ./...` passes;
  2. the repository's own suite still passes (same 235 tests as BASELINE.json, TestAsyncClient aside);
  3. the demonstration fails with the change and passes without it;
  4. the property's check (and any extra ones named with --props) is run against the changed copy with VERIF_REPO.
"""
import json
import os
import re
import shutil
import subprocess
import sys
import tempfile

ROOT = os.path.dirname(os.path.dirname(os.path.abspath(__file__)))
SEEDED = os.path.join(ROOT, "seeded")
ENV = dict(os.environ, GOFLAGS="-mod=mod", GOPROXY="off", GOSUMDB="off", GOTOOLCHAIN="local")
PKG_DIRS = {"lorawan": ".", "lorawan_test": ".", "band": "band", "band_test": "band", "backend": "backend", "backend_test": "backend",
            "joinserver": "backend/joinserver", "joinserver_test": "backend/joinserver", "gps": "gps", "gps_test": "gps",
            "airtime": "airtime", "airtime_test": "airtime", "clocksync": "applayer/clocksync", "clocksync_test": "applayer/clocksync",
            "multicastsetup": "applayer/multicastsetup", "multicastsetup_test": "applayer/multicastsetup",
            "fragmentation": "applayer/fragmentation", "fragmentation_test": "applayer/fragmentation",
            "firmwaremanagement": "applayer/firmwaremanagement", "firmwaremanagement_test": "applayer/firmwaremanagement",
            "sensitivity": "sensitivity"}


def sh(cmd, cwd, timeout=900):
    p = subprocess.run(cmd, shell=True, executable="/bin/bash", cwd=cwd, env=ENV, stdout=subprocess.PIPE, stderr=subprocess.STDOUT, text=True, errors="replace", timeout=timeout)
    return p.returncode, p.stdout


def copy_repo(dst):
    shutil.copytree("/repo", dst, ignore=shutil.ignore_patterns(".git"))


def suite(repo):
    rc, out = sh("go test -vet=off -count=1 -json ./... 2>/dev/null", repo)
    passed, failed = set(), set()
    for l in out.splitlines():
        try:
            e = json.loads(l)
        except ValueError:
            continue
        if e.get("Test") and e.get("Action") in ("pass", "fail"):
            (passed if e["Action"] == "pass" else failed).add(e["Package"] + "::" + e["Test"])
    base = set(json.load(open("/root/.vp/BASELINE.json"))["stable_pass"])
    missing = sorted(base - passed)
    return not missing, missing, sorted(failed)


def place_demo(src_dir, repo):
    """returns (run command, cleanup paths)"""
    t = os.path.join(src_dir, "demo_test.go")
    if os.path.isfile(t):
        txt = open(t).read()
        m = re.search(r"^package\s+(\w+)", txt, re.M)
        pkg = m.group(1) if m else "lorawan"
        d = PKG_DIRS.get(pkg)
        hint = re.search(r"(?:place|put|copy)[^\n]*?((?:applayer|backend|band|gps|airtime)[\w/]*)", open(os.path.join(src_dir, "README.md"), errors="replace").read(), re.I) if os.path.isfile(os.path.join(src_dir, "README.md")) else None
        if d is None and hint:
            d = hint.group(1).rstrip("/")
        if d is None:
            d = "."
        dst = os.path.join(repo, d, "zz_seeded_demo_test.go")
        shutil.copy(t, dst)
        names = re.findall(r"^func (Test\w+|Example\w*)\(", txt, re.M)
        pat = "^(%s)$" % "|".join(names) if names else "."
        readme = open(os.path.join(src_dir, "README.md"), errors="replace").read() if os.path.isfile(os.path.join(src_dir, "README.md")) else ""
        race = "-race " if re.search(r"go test[^\n]*-race", readme) else ""  # a demonstration of a data race needs the detector
        return "go test %s-vet=off -count=1 -run '%s' %s 2>&1 | tail -30" % (race, pat, "./" + d if d != "." else "."), [dst], "go test %s-run '%s' in %s" % (race, pat, d)
    m = os.path.join(src_dir, "demo", "main.go")
    if os.path.isfile(m):
        dd = os.path.join(repo, "zz_seeded_demo")
        os.makedirs(dd, exist_ok=True)
        shutil.copy(m, os.path.join(dd, "main.go"))
        return "go run ./zz_seeded_demo 2>&1 | tail -30", [dd], "go run demo/main.go"
    return None, [], ""


def demo_outcome(cmd, repo):
    rc, out = sh(cmd + "; exit ${PIPESTATUS[0]}", repo)
    # `go test ... | tail` loses the status: look at the text as well
    failed = rc != 0 or "--- FAIL" in out or "FAIL\t" in out or "panic:" in out or "exit status" in out
    return failed, out


def run_checks(repo, props, tier):
    res = {}
    for pid in props:
        e = dict(ENV, VERIF_REPO=repo)
        p = subprocess.run([os.path.join(ROOT, "check"), "run", pid, tier], cwd=ROOT, env=e, stdout=subprocess.PIPE, stderr=subprocess.STDOUT, text=True, errors="replace")
        lines = [l for l in p.stdout.splitlines() if l.strip()]
        first = next((l.strip() for l in lines if l.startswith("  [")), "")
        res[pid] = {"exit": p.returncode, "verdict": {0: "missed", 1: "caught", 2: "inconclusive"}.get(p.returncode, "inconclusive"), "first_violation": first[:400]}
    tag = "".join(c if c.isalnum() else "_" for c in repo)[-60:]
    shutil.rmtree(os.path.join(ROOT, ".work", "alt", tag), ignore_errors=True)
    return res


def validate(prop, src, sid, props, tier):
    d = tempfile.mkdtemp(prefix="seeded-", dir="/tmp")
    repo = os.path.join(d, "repo")
    meta = {"id": sid, "property": prop, "source": "independent sub-agent (given only the property text and a scratch worktree)", "ran": []}
    try:
        copy_repo(repo)
        patch = os.path.join(src, "patch.diff")
        rc, out = sh("patch -p1 --no-backup-if-mismatch < %s" % patch, repo)
        meta["ran"].append("patch -p1 < patch.diff : %s" % ("ok" if rc == 0 else "FAILED"))
        if rc != 0:
            print(out)
            return None
        rc, out = sh("go build ./... && go build -tags verif ./...", repo)
        meta["ran"].append("go build ./... (also -tags verif): %s" % ("ok" if rc == 0 else "FAILED"))
        if rc != 0:
            print(out)
            return None
        ok, missing, failed = suite(repo)
        meta["ran"].append("go test -vet=off -count=1 ./... with the change: %s" % ("all 235 baseline tests pass" if ok else "baseline tests failing: %s" % missing))
        if not ok:
            print("existing suite catches it:", missing)
            return None
        cmd, cleanup, how = place_demo(src, repo)
        if cmd is None:
            print("no demonstration found in", src)
            return None
        failed_with, out_with = demo_outcome(cmd, repo)
        # the same demonstration on the unchanged tree
        clean = os.path.join(d, "clean")
        copy_repo(clean)
        cmd2, _, _ = place_demo(src, clean)
        failed_without, out_without = demo_outcome(cmd2, clean)
        meta["ran"].append("demonstration (%s) with the change: %s; without: %s" % (how, "fails" if failed_with else "PASSES", "FAILS" if failed_without else "passes"))
        if not failed_with or failed_without:
            print("demonstration does not discriminate\n--- with:\n%s\n--- without:\n%s" % (out_with[-1500:], out_without[-1500:]))
            return None
        for c in cleanup:
            if os.path.isdir(c):
                shutil.rmtree(c)
            else:
                os.remove(c)
        meta["checks"] = run_checks(repo, props, tier)
        meta["tier"] = tier
        readme = os.path.join(src, "README.md")
        meta["needs"] = ""
        if os.path.isfile(readme):
            txt = open(readme, errors="replace").read()
            meta["needs"] = txt[:1800]
        dst = os.path.join(SEEDED, sid)
        shutil.rmtree(dst, ignore_errors=True)
        os.makedirs(dst)
        shutil.copy(patch, os.path.join(dst, "patch.diff"))
        for f in ("demo_test.go", "README.md"):
            if os.path.isfile(os.path.join(src, f)):
                shutil.copy(os.path.join(src, f), os.path.join(dst, f))
        if os.path.isdir(os.path.join(src, "demo")):
            shutil.copytree(os.path.join(src, "demo"), os.path.join(dst, "demo"))
        with open(os.path.join(dst, "meta.json"), "w") as f:
            json.dump(meta, f, indent=1)
        print("%s kept: %s" % (sid, {k: v["verdict"] for k, v in meta["checks"].items()}))
        return meta
    finally:
        shutil.rmtree(d, ignore_errors=True)


def rerun(ids, tier="quick"):
    ids = ids or sorted(os.listdir(SEEDED))
    for sid in ids:
        dst = os.path.join(SEEDED, sid)
        mp = os.path.join(dst, "meta.json")
        if not os.path.isfile(mp):
            continue
        meta = json.load(open(mp))
        d = tempfile.mkdtemp(prefix="seeded-", dir="/tmp")
        repo = os.path.join(d, "repo")
        try:
            copy_repo(repo)
            rc, out = sh("patch -p1 --no-backup-if-mismatch < %s" % os.path.join(dst, "patch.diff"), repo)
            if rc != 0:
                print(sid, "patch no longer applies")
                continue
            meta["checks"] = run_checks(repo, sorted(meta.get("checks", {meta["property"]: 0})), tier)
            with open(mp, "w") as f:
                json.dump(meta, f, indent=1)
            print(sid, {k: v["verdict"] for k, v in meta["checks"].items()})
        finally:
            shutil.rmtree(d, ignore_errors=True)


ALL = ["C%02d" % i for i in range(1, 21)]


def cross(ids, tier="quick"):
    """run every property's check against each kept change: which other checks notice it?"""
    ids = ids or sorted(os.listdir(SEEDED))
    for sid in ids:
        dst = os.path.join(SEEDED, sid)
        mp = os.path.join(dst, "meta.json")
        if not os.path.isfile(mp):
            continue
        meta = json.load(open(mp))
        d = tempfile.mkdtemp(prefix="seeded-", dir="/tmp")
        repo = os.path.join(d, "repo")
        try:
            copy_repo(repo)
            rc, out = sh("patch -p1 --no-backup-if-mismatch < %s" % os.path.join(dst, "patch.diff"), repo)
            if rc != 0:
                print(sid, "patch no longer applies")
                continue
            res = run_checks(repo, ALL, tier)
            meta["cross"] = {k: v["verdict"] for k, v in res.items()}
            meta["checks"][meta["property"]] = res[meta["property"]]
            with open(mp, "w") as f:
                json.dump(meta, f, indent=1)
            print(sid, "caught by:", [k for k, v in res.items() if v["verdict"] == "caught"], "inconclusive:", [k for k, v in res.items() if v["verdict"] == "inconclusive"])
        finally:
            shutil.rmtree(d, ignore_errors=True)


def one_line(sid):
    rp = os.path.join(SEEDED, sid, "README.md")
    if not os.path.isfile(rp):
        return ""
    lines = [l.strip() for l in open(rp, errors="replace").read().splitlines()]
    # prefer the change description: first bullet / sentence that is not a heading
    for l in lines:
        if l and not l.startswith("#") and not l.startswith("```") and len(l) > 25:
            l = re.sub(r"[*`_]", "", l)
            return (l[:230] + "…") if len(l) > 230 else l
    return ""


def table():
    """writes seeded/INDEX.md"""
    out = ["# Seeded changes kept under /verif/seeded", "",
           "Each directory: patch.diff (applies to /repo with `patch -p1` / `git apply`), the demonstration written by the independent",
           "sub-agent (fails with the change, passes without), its README, and meta.json (what was run, verdict of the checks).",
           "`python3 tools/seeded.py rerun` re-runs the property's check against every kept change; `... cross` runs all 20 checks.", "",
           "| id | property | what the change does / needs (from the author's README) | own check | other checks that also catch it |", "|---|---|---|---|---|"]
    for sid in sorted(os.listdir(SEEDED)):
        mp = os.path.join(SEEDED, sid, "meta.json")
        if os.path.isfile(mp):
            m = json.load(open(mp))
            own = m["checks"].get(m["property"], {}).get("verdict", "?")
            others = sorted(k for k, v in (m.get("cross") or {}).items() if v == "caught" and k != m["property"])
            hist = m.get("history", "") or m.get("note", "")
            out.append("| %s | %s | %s | %s%s | %s |" % (sid, m["property"], one_line(sid).replace("|", "/"), own, (" (" + hist + ")") if hist else "", ", ".join(others)))
    with open(os.path.join(SEEDED, "INDEX.md"), "w") as f:
        f.write("\n".join(out) + "\n")
    print("\n".join(out[-12:]))


if __name__ == "__main__":
    a = [x for x in sys.argv[1:] if not x.startswith("--")]
    opts = {x.split("=")[0]: (x.split("=") + [""])[1] for x in sys.argv[1:] if x.startswith("--")}
    if a and a[0] == "validate":
        props = [a[1]] + [p for p in opts.get("--props", "").split(",") if p and p != a[1]]
        sys.exit(0 if validate(a[1], a[2], a[3], props, opts.get("--tier", "quick")) else 1)
    elif a and a[0] == "rerun":
        rerun(a[1:], opts.get("--tier", "quick"))
    elif a and a[0] == "cross":
        cross(a[1:], opts.get("--tier", "quick"))
    elif a and a[0] == "table":
        table()
    else:
        print(__doc__)
