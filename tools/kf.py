#!/usr/bin/env python3
"""Add or replace one entry of /verif/known_findings.json (read-modify-write; one line per entry).

usage: kf.py '<json object with kind, property, id, sub, case, what[, commit]>'
"""
import json
import os
import sys

ROOT = os.path.dirname(os.path.dirname(os.path.abspath(__file__)))
P = os.path.join(ROOT, "known_findings.json")


def main():
    e = json.loads(sys.argv[1])
    for k in ("kind", "property", "id", "sub", "what"):
        assert k in e, k
    cur = json.load(open(P))
    cur = [x for x in cur if not (x["property"] == e["property"] and x["id"] == e["id"] and x.get("sub") == e.get("sub"))]
    cur.append(e)
    cur.sort(key=lambda x: (x["kind"] != "known", x["property"], x["id"]))
    with open(P + ".tmp", "w") as f:
        f.write("[\n" + ",\n".join(" " + json.dumps(x) for x in cur) + "\n]\n")
    os.replace(P + ".tmp", P)
    print("%d entries" % len(cur))


if __name__ == "__main__":
    main()
