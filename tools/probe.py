#!/usr/bin/env python3
"""Sensitivity probe: apply one textual change to a scratch copy of /repo, confirm the repository's own tests still
pass, run property checks against the copy, report, clean up.

usage: probe.py <PROPS comma separated> <file relative to repo> <old text> <new text> [<old2> <new2> ...] [--keep] [--notests]
"""
import os
import shutil
import subprocess
import sys
import tempfile

ROOT = os.path.dirname(os.path.dirname(os.path.abspath(__file__)))


def main():
    args = [a for a in sys.argv[1:] if not a.startswith("--")]
    flags = [a for a in sys.argv[1:] if a.startswith("--")]
    props, rel = args[0].split(","), args[1]
    pairs = [(args[i], args[i + 1]) for i in range(2, len(args) - 1, 2)]
    d = tempfile.mkdtemp(prefix="probe-", dir="/tmp")
    repo = os.path.join(d, "repo")
    shutil.copytree("/repo", repo, ignore=shutil.ignore_patterns(".git"))
    p = os.path.join(repo, rel)
    s = open(p).read()
    for old, new in pairs:
        if s.count(old) != 1:
            print("old text %r occurs %d times in %s (must be exactly 1)" % (old[:40], s.count(old), rel))
            shutil.rmtree(d)
            return 2
        s = s.replace(old, new)
    open(p, "w").write(s)
    env = dict(os.environ, GOFLAGS="-mod=mod", GOPROXY="off", GOSUMDB="off", GOTOOLCHAIN="local")
    rc = 0
    try:
        if "--notests" not in flags:
            t = subprocess.run("go build ./... && go test -vet=off -count=1 ./... 2>&1 | grep -v '^ok' | grep -v 'no test files' | head -20",
                               shell=True, cwd=repo, env=env, stdout=subprocess.PIPE, stderr=subprocess.STDOUT, text=True)
            out = t.stdout
            bad = [l for l in out.splitlines() if l.startswith("--- FAIL") and "TestAsyncClient" not in l]
            print("repo suite with the change: %s" % ("FAILS: " + "; ".join(bad) if bad else "passes (TestAsyncClient aside)"))
            if "cannot" in out or "undefined" in out or "syntax error" in out:
                print(out)
        e2 = dict(env, VERIF_REPO=repo)
        for pid in props:
            r = subprocess.run([os.path.join(ROOT, "check"), "run", pid, "quick"], cwd=ROOT, env=e2, stdout=subprocess.PIPE, stderr=subprocess.STDOUT, text=True)
            lines = r.stdout.strip().splitlines()
            print("%s: exit %d  %s" % (pid, r.returncode, "CAUGHT" if r.returncode == 1 else "MISSED" if r.returncode == 0 else "INCONCLUSIVE"))
            for l in lines[:6]:
                print("   " + l[:260])
            rc = max(rc, 0 if r.returncode == 1 else 1)
    finally:
        if "--keep" not in flags:
            shutil.rmtree(d, ignore_errors=True)
            tag = "".join(c if c.isalnum() else "_" for c in repo)[-60:]
            shutil.rmtree(os.path.join(ROOT, ".work", "alt", tag), ignore_errors=True)
    return rc


if __name__ == "__main__":
    sys.exit(main())
