#!/usr/bin/env python3
"""Regenerates /verif/MANIFEST.json from the table below (python3 tools/mkmanifest.py)."""
import json
import os
import subprocess

ROOT = os.path.dirname(os.path.dirname(os.path.abspath(__file__)))

# id -> (technique, level text, level note, design ref)
CHECKS = {
    "C01": ("rapid-generated frames + exhaustive length grid; round trip and byte comparison with an independent table-driven wire model; histories: reused and kept-by-value decode targets, held encoder outputs, edited decoded frames",
            "Exploration: generated spec-valid frames of all 8 MTypes are encoded (binary, base64), compared byte-for-byte with the wire model, decoded again (join-accepts through encrypt/decrypt) and compared; the complete FOptsLen x FPort x FRMPayload-length grid of the four data MTypes is enumerated in both tiers. Field contents are sampled.",
            "Trusted: harness/internal/ref wire model (frames, MAC-command table) written from LoRaWAN 1.0.3/1.1; structural conversions in harness/internal/gen.",
            "DESIGN.md §4 C01"),
    "C02": ("rapid-generated data frames x keys x versions x counters; differential against an independent B0/B1 + AES-CMAC model; metamorphic single-input perturbations",
            "Exploration: for generated data frames (both directions, <= 255 bytes) the MIC set by the library is compared with a reference built from crypto/aes (CMAC self-checked on RFC 4493 vectors) and the wire model; validation must accept exactly that value; for 4-10 perturbations per case (every authenticated input and every input the specification excludes) validation of the original MIC must answer exactly whether the reference MIC changed.",
            "Trusted: ref.DataMIC (B0/B1 per LoRaWAN 1.0.3 §4.4 / 1.1 §4.4), ref.CMAC, the wire model serialisation.",
            "DESIGN.md §4 C02"),
    "C03": ("exhaustive lengths 0..255 + rapid-generated parameters and frames; differential against an independent keystream model; involution; outcome contract on untransformable inputs",
            "Exploration: every payload length 0..255 (FOpts 0..40) x deterministic parameter sets enumerated, plus generated parameters and valid frames through the PHYPayload methods, compared with S_i = AES(K, A_i) computed with crypto/aes; second application must restore the input; frames on which no transform is defined must yield an error.",
            "Trusted: ref.Keystream / ref.FOptsStream (A_i blocks per LoRaWAN 1.0.3 §4.3.3, 1.1 errata FOpts block as the library documents), crypto/aes.",
            "DESIGN.md §4 C03"),
    "C19": ("exhaustive comparison of all 300x100 parity-matrix lines with an independent TS004 matrix_line/prbs23 model; rapid-generated blocks for systematic prefix, parity rows, XOR linearity, GF(2) decoding of random erasure patterns; grids of invalid sizes",
            "Exploration, complete for the parity matrix (M 1..300 x N 1..100); blocks, erasure patterns and invalid-size grids are sampled/enumerated: the encoder output must be systematic, each parity fragment the XOR of the rows selected by the model line, linear, decodable by an independent Gaussian-elimination decoder whenever the received selection vectors have full rank, and invalid sizes must give errors, never panics.",
            "Trusted: the re-implementation of the TS004 appendix pseudo code and the GF(2) decoder in harness/c19.",
            "DESIGN.md §4 C19"),
    "C20": ("enumerated leap-second grids + rapid-generated instants/durations against a date-based leap-second model; exhaustive airtime grid against an exact-integer Semtech formula; EIRP table checks over all index bytes, table values +-1 ulp and float32 strides",
            "Exploration, exhaustive over the +-3 s / 1 ms / +-1 ns grids around all 18 leap seconds, the airtime helper domains, all 256 EIRP indices and (thorough) the complete 10.6 M point airtime grid; instants/durations 1980..2100 and float32 powers are sampled. Oracles: leap seconds as calendar dates anchored to published GPS second counts, AN1200.13 in scaled integer arithmetic with a derived truncation tolerance, the TXParamSetupReq table written out.",
            "Trusted: the 18 leap-second dates (IERS), the Semtech formula as transcribed, the EIRP table of LoRaWAN 1.0.3/1.1.",
            "DESIGN.md §4 C20"),
    "C04": ("rapid-generated join/rejoin/join-accept frames x keys x JoinReqType/JoinEUI/DevNonce; differential against own CMAC and AES-ECB models; metamorphic single-input perturbations",
            "Exploration: the MIC set for join-requests, rejoin-requests 0/1/2 and join-accepts (1.0 form and OptNeg form) is compared with a reference CMAC over the wire model; validation must accept exactly that value and answer single-input perturbations exactly as the reference does; the join-accept ciphertext must be byte-identical to AES-decrypt-ECB over payload|MIC for both sizes, be recoverable by a device-side AES-encrypt, and decrypt back through the library to payload and MIC.",
            "Trusted: ref.JoinMIC / ref.JoinAcceptMIC / ref.JoinAcceptEncrypt (LoRaWAN 1.0.3 §6.2, 1.1 §6.2), crypto/aes, the wire model.",
            "DESIGN.md §4 C04"),
    "C05": ("rapid-generated sender/receiver histories; round trip + differential against an independent sender; single-bit and single-parameter tampering (metamorphic) judged by the reference MIC",
            "Exploration: generated frames x versions x key sets run through the full library pipeline on both sides; the receiver must recover the content; the bytes on the air must equal a sender built only from reference models; for sampled (quick) or all (second sub-check) single-bit corruptions and for single-parameter mismatches, validation must fail whenever the reference MIC of what the receiver sees differs from the received MIC. Known finding K6 (MHDR RFU bits) is excluded by position and counted.",
            "Trusted: wire model, keystream / FOpts / MIC models, crypto/aes.",
            "DESIGN.md §4 C05"),
    "C06": ("exhaustive enumeration of all MHDR/FCtrl/DLSettings bytes, all byte strings of every <= 2-byte MAC payload and every CID x direction; rapid-generated values of the 3-5 byte payloads and arbitrary bytes of join/CFList/FHDR structures; differential against a table-driven wire model in both directions",
            "Exploration, exhaustive for the one-byte headers, the 22 payload types of <= 2 bytes (2^8 / 2^16 byte strings each) and the registry; the larger payloads and the join / CFList / FHDR structures are sampled with boundary bias. Both directions: value -> bytes must equal the model encoding, bytes (with noise in reserved bits) -> value must equal the model decoding with RFU bits ignored.",
            "Trusted: the field tables in harness/internal/ref/wire.go written from LoRaWAN 1.0.3/1.1 §4-§6 (DutyCycleReq accepted in both the 4-bit and the 1.0.0/1.0.1 whole-byte reading; RXParamSetupReq DLSettings bit 7 and FCtrl bits modelled raw as the library documents; NewChannelReq 2.4 GHz 200 Hz extension as the library documents).",
            "DESIGN.md §4 C06"),
    "C07": ("rapid-generated payload values over the full Go-type domains (lossless-or-error), generated command streams up to the FOpts / port-0 limits, and generated proprietary-registration histories against a model map (registry reset through the verif hook)",
            "Exploration: for every payload type, full-domain values must either be refused or decode back to themselves (1/256 s resolution for DeviceTimeAns), and in-range values must be accepted; streams of commands (incl. payload-less and unknown CIDs) must encode to the model framing and decode to exactly the sequence in FOpts and on port 0; histories of register/lookup/stream operations must agree with a model of the registry. Known finding K2 is excluded by class and counted.",
            "Trusted: field ranges and framing rule of harness/internal/ref/wire.go; the verif hook VerifResetMACPayloadRegistry.",
            "DESIGN.md §4 C07"),
    "C12": ("exhaustive enumeration of 56 band configurations x every uplink channel index x the complete (DR -2..16, offset -2..9) grid against an independent regional-rule model; rapid-generated DevAddr x beacon-time cases for the ping-slot rule",
            "Exploration, complete for the RX1 channel, RX1 data-rate, invalid-argument and RX2 dimensions (every configuration, channel index and (DR, offset) pair of the stated grid in both tiers): in-domain pairs must equal the region's formula, invalid pairs must give an error (never a panic), every accepted pair must map to a data-rate with the downlink flag (snapshot hook), rows must be monotonic with at most one defined downlink DR per offset step. The DevAddr x beacon-time dimension of the ping-slot rule is sampled.",
            "Trusted: regional rules in harness/internal/ref/bandrules.go (written from the Regional Parameters from memory, cross-checked against the tree; two cells where published sources disagree - IN865 DR5/offset 7, CN470 DR6/7 rows - accept both readings); the verif snapshot hook.",
            "DESIGN.md §4 C12"),
    "C13": ("exhaustive enumeration over 56 configurations of every data-rate index source, DR x direction lookups (32-fold because the implementation iterates a map), the 7 x 8 x 16 version/revision/DR grid and every internal table cell (snapshot hook), against table-wide relations and regional constants",
            "Exploration, complete: the stated domain is finite and fully enumerated in both tiers: closure of data-rate references, parameter lookup round trip, latest/unknown resolution, M = N+8 and N <= 242 (or the (0,0) not-available marker at its three legitimate places), repeater <= non-repeater, per-direction SF monotonicity, default channels / DR definitions / TX power / RX2 against the rule model. Payload-size values are judged only through the relations the property lists (no golden copy).",
            "Trusted: bandrules constants (US915 TX-power range accepts both published ranges), the verif snapshot hook being a faithful copy of the internal tables.",
            "DESIGN.md §4 C13"),
    "C17": ("exhaustive Frequency / Percentage sweeps, rapid-generated HEXBytes, ISO8601Time, reflectively filled payload structs, the same payloads through the backend client calls over an in-process transport (bodies up to 300 kB, short reads) and key envelopes; round trip under stated equivalences; differential against an RFC 3394 model incl. all single-bit corruptions",
            "Exploration with exhaustive parts: every integer percent -10..200, every Hz up to 2 MHz (20 MHz thorough), the 100 Hz raster of the LoRa bands (up to 2^32 thorough) and the 2^32 boundary must survive json.Marshal/Unmarshal; generated values of the 20 payload structs and their building blocks must round-trip field by field (nil == empty, RawMessage JSON-semantic, instants to one second); NewKeyEnvelope must equal the reference wrap and Unwrap must succeed exactly when the reference integrity check does (all 192 bit flips, other KEKs).",
            "Trusted: ref.KeyWrap/KeyUnwrap (RFC 3394 vectors self-checked), own civil-date arithmetic for timestamps.",
            "DESIGN.md §4 C17"),
    "C14": ("rapid-generated channel histories and device channel sets, the full 2^16 device-subset sweep on <= 16-channel plans (thorough) and a complete sub-band grid for the 72/96-channel plans, judged by an independent executable model of how a device applies LinkADRReq channel masks",
            "Exploration, complete for the 2^16 device subsets of three fixed histories per dynamic band (thorough tier) and for a structured sub-band grid on US915/AU915/CN470 (both tiers); histories and the device sets of the large plans are sampled. Applying the generated payloads with the harness's own apply model must give exactly network-enabled intersected with (standard or device-active custom); the library's apply function must agree; every payload must encode; the count bound and the nothing-when-equal rule must hold.",
            "Trusted: the ChMaskCntl semantics transcribed in harness/c14 (0-5 blocks, 6/7 for the 72-channel plans); device indices are kept inside the plan (DESIGN.md §6).",
            "DESIGN.md §4 C14"),
    "C15": ("model-based state-machine testing with rapid (generated AddChannel/Disable/Enable op lists with arbitrary and with valid-only arguments replayed against a channel-record model), complete enumeration of invalid indices, CFList rules for all protocol versions, cross-layer round trip of every band output through the MAC encoders",
            "Exploration, complete for the invalid-index grid (14 bands x 6 accessors x 10 indices); histories of up to 30 operations are sampled. After every step the index sets, lookups and the snapshot must agree with the model; CFList content follows the custom-channel / enabled-mask rule; every frequency, data-rate, CFList and LinkADRReq the band hands out must encode and decode through RXParamSetupReq, NewChannelReq, DLChannelReq, PingSlotChannelReq, BeaconFreqReq, CFList and JoinAcceptPayload. Known finding K3 (ISM2400 frequencies vs. the five 100-Hz encoders) is excluded by class while its witness fails.",
            "Trusted: the transition model and valid-frequency definition in harness/c15; standard channels are read from the fresh band (their regional values are C13's subject).",
            "DESIGN.md §4 C15"),
    "C16": ("rapid-generated worlds and requests through http.Handler.ServeHTTP judged by an independent end-device + network-server model, with repeat and re-provisioning histories; generated concurrent batches under the race detector compared with sequential answers",
            "Exploration: generated devices, KEK tables and join / rejoin 0-1-2 / HomeNS requests (plus bit-flip, wrong-key, unknown-device and 16 kinds of malformed requests) are served by the handler; the device model decrypts the join-accept, verifies the MIC, checks the echoed fields, unwraps the envelopes (RFC 3394 model) and compares the session keys with its own 1.0 / 1.1 derivation. The -race binary serves batches of 2..16 requests concurrently and requires answers byte-identical to sequential service. Known finding K4 (rejoin keys derived 1.0-style) is accepted as exactly one alternative key set and reported.",
            "Trusted: ref crypto models (CMAC, key wrap, join blocks), wire model; observed handler conventions listed in the package comment (NS KEK label = SenderID, JoinEUI = ReceiverID).",
            "DESIGN.md §4 C16"),
    "C18": ("value-first generation from per-field bit-width tables (TS003-TS006), exhaustive for payloads of <= 1 byte and for all sub-byte field combinations, rapid-generated commands and 1-6 command sequences per package and direction with held-result histories, multicast keys against single-block AES models",
            "Exploration, exhaustive for all in-range values of the single-byte payloads and the sub-byte bit-fields of every multi-byte payload; wide fields, sequences, keys and addresses are sampled. Oracle: no panic, encoded length == Size() == specification length, decode gives the same command / sequence; McRootKey/McKEKey/McAppSKey/McNetSKey equal the TS005 AES derivations. Known finding K5 (DevVersionReq rejects a following command) is excluded by class with a witness.",
            "Trusted: the width tables in harness/c18/specs_test.go, ref multicast derivations over crypto/aes, the library decoder for the one unexported field nextFirmwareVersion.",
            "DESIGN.md §4 C18"),
    "C08": ("rapid-generated byte strings (uniform, type-sized, structure-aware mutations of valid frames) + committed corpus replay + native go fuzzing (thorough); base64 text door differential; decode -> re-encode -> log -> re-encode -> decode canonicality oracle",
            "Exploration: for every generated input with the reserved MHDR bits zero that the frame decoder accepts, MarshalBinary must succeed and return exactly the input and decoding that again must give a deeply equal frame; nothing is asserted about rejected inputs. The thorough tier adds a bounded coverage-guided campaign on the same oracle (not seed-reproducible; a crasher is saved as the replay file). Known finding K1 is excluded by a predicate on the input bytes and counted.",
            "Trusted: nothing beyond the Go runtime (the oracle is a round trip through the library itself); the wire model is only used to build the valid frames that are mutated.",
            "DESIGN.md §4 C08"),
    "C09": ("rapid-generated and hand-written hostile inputs per decoder entry point + native go fuzzing of four targets (thorough); totality oracle: no panic, 30 s loop watchdog plus a heap ceiling for loops that allocate, input buffer and its spare capacity byte-identical afterwards",
            "Exploration: the frame decode / command decode / decrypt chain (binary and base64), every exported type with UnmarshalBinary in the five packages (both directions, lengths drawn from each type's accepted lengths), json.Unmarshal into the backend payloads from structure-aware hostile JSON, and the text / Scan decoders are executed on generated inputs; a panic, a watchdog hit, or a write to the input buffer or behind it is a violation. Linear time is approximated by the loop watchdog, the bound (decoded items <= input bytes) and an allocation-growth check (8-fold input may allocate at most 24-fold) on the stream decoders.",
            "Trusted: the watchdog bound (30 s for inputs <= 600 bytes, six orders of magnitude above the observed cost); a driver time-out is reported as inconclusive, never as a violation.",
            "DESIGN.md §4 C09"),
    "C10": ("rapid-generated aliasing / guard-byte / read-only / reuse-differential (binary, text, JSON and database doors) / band-instance checks over every decoder type, plus a first-use phase and generated multi-goroutine op lists under the race detector",
            "Exploration: (1) overwrite the input buffer (and encoder output) after decoding and re-observe the value; (2) guard bytes in front of and spare capacity behind every slice handed to the crypto functions and frame methods; (3) deep comparison with an untouched twin after every Validate*/Marshal*; (4) decode b1 then b2 into one value vs. b2 into a fresh one for each decoder type, and two GetConfig instances under a mutation history of one; (5) -race build: 2..8 goroutines run generated op lists (decode, MIC, crypto, registry lookups and registrations, band objects) whose results must equal a solo run, and any race-detector report is a violation. Schedules are sampled, not controlled: the race detector generalises over timing only for accesses that execute.",
            "Trusted: the Go race detector; observation of values through re-encoding, JSON and a deep printer (an unexported field that none of these shows would be invisible).",
            "DESIGN.md §4 C10"),
    "C11": (
        "exhaustive enumeration of all 2^24 NetIDs + rapid-generated (DevAddr, NetID) near-miss pairs and identifier representations against an arithmetic reference model",
        "Exploration, complete for the NetID dimension: every one of the 2^24 NetIDs is pushed through SetAddrPrefix/IsNetID/NwkID/Type/ID with four DevAddr patterns and compared with an arithmetic model of the addressing rule in both tiers; membership near misses and text/binary/SQL round trips (incl. wrong lengths 0..20) are generated with rapid. The DevAddr dimension and the representation values are sampled, not exhausted.",
        "Trusted: the arithmetic model in harness/c11 (type = top 3 bits, ID widths 6/6/9/21, NwkID widths 6/6/9/11/12/13/15/17 as the property states).",
        "DESIGN.md §4 C11"),
}

NOT_YET = "check not built yet in this round (planned, see DESIGN.md §8); no technique limitation"


def hook_commits():
    try:
        out = subprocess.run(["git", "-C", "/repo", "log", "--format=%H %s"], stdout=subprocess.PIPE, text=True).stdout
    except Exception:
        return []
    return [l.split()[0] for l in out.splitlines() if " hook:" in l or l.split(" ", 1)[1].startswith("verif hook")]


def main():
    props = [json.loads(l) for l in open(os.path.join(ROOT, "properties.jsonl"))]
    checks, na = [], []
    for p in props:
        pid = p["id"]
        if pid in CHECKS and os.path.isdir(os.path.join(ROOT, "harness", pid.lower())):
            tech, text, note, ref = CHECKS[pid]
            checks.append({
                "property_id": pid,
                "quick_cmd": "./check run %s quick" % pid,
                "thorough_cmd": "./check run %s thorough" % pid,
                "evidence_file": "/verif/evidence/%s.json" % pid,
                "replay_cmd_template": "./check replay %s {path}" % pid,
                "engine": "harness",
                "level_claimed": {"category": "exploration", "text": text, "design_ref": ref},
                "level_note": note,
                "technique": tech,
            })
        else:
            na.append({"property_id": pid, "reason": NOT_YET})
    m = {
        "version": 1,
        "setup_cmd": "./check setup",
        "hooks": {
            "guard": "verif",
            "enable": "go test -tags verif (the harness module replaces github.com/brocaar/lorawan with /repo, so every check compiles /repo's current working tree with the tag on)",
            "baseline_off_cmd": "cd /repo && GOFLAGS=-mod=mod go test -vet=off -count=1 ./...",
            "source_commits": hook_commits(),
            "add_only": True,
        },
        "engines": [{
            "name": "harness", "path": "/verif/harness",
            "serves_properties": [c["property_id"] for c in checks],
            "kind_free_text": "Go test packages (one per property) using pgregory.net/rapid v1.3.0 generators with shrinking, exhaustive enumeration of small finite domains, native go fuzzing (thorough tier of C08/C09) and the race detector (C10/C16); oracles are independent reference models under harness/internal/ref; driven and merged by the python3 driver ./check",
        }],
        "checks": checks,
        "notes": "exit 0 = held on everything explored (KNOWN-FINDING lines allowed), 1 = VIOLATION line printed, 2 = inconclusive (build failure, time-out, dead worker). VERIF_SEED selects the rapid seeds (0 is remapped to a fixed constant). Known findings: /verif/known_findings.json.",
        "not_applicable": na,
    }
    with open(os.path.join(ROOT, "MANIFEST.json"), "w") as f:
        json.dump(m, f, indent=1)
        f.write("\n")
    print("MANIFEST: %d checks, %d not claimed" % (len(checks), len(na)))


if __name__ == "__main__":
    main()
