#!/usr/bin/env python3
"""Regenerates /verif/MANIFEST.json from the table below (python3 tools/mkmanifest.py)."""
import json
import os
import subprocess

ROOT = os.path.dirname(os.path.dirname(os.path.abspath(__file__)))

# id -> (technique, level text, level note, design ref)
CHECKS = {
    "C01": ("rapid-generated frames + exhaustive length grid; round trip and byte comparison with an independent table-driven wire model",
            "Exploration: generated spec-valid frames of all 8 MTypes are encoded (binary, base64), compared byte-for-byte with the wire model, decoded again (join-accepts through encrypt/decrypt) and compared; the complete FOptsLen x FPort x FRMPayload-length grid of the four data MTypes is enumerated in both tiers. Field contents are sampled.",
            "Trusted: harness/internal/ref wire model (frames, MAC-command table) written from LoRaWAN 1.0.3/1.1; structural conversions in harness/internal/gen.",
            "DESIGN.md §4 C01"),
    "C11": (
        "exhaustive enumeration of all 2^24 NetIDs + rapid-generated (DevAddr, NetID) near-miss pairs and identifier representations against an arithmetic reference model",
        "Exploration, complete for the NetID dimension: every one of the 2^24 NetIDs is pushed through SetAddrPrefix/IsNetID/NwkID/Type/ID with four DevAddr patterns and compared with an arithmetic model of the addressing rule in both tiers; membership near misses and text/binary/SQL round trips (incl. wrong lengths 0..20) are generated with rapid. The DevAddr dimension and the representation values are sampled, not exhausted.",
        "Trusted: the arithmetic model in harness/c11 (type = top 3 bits, ID widths 6/6/9/21, NwkID widths 6/6/9/11/12/13/15/17 as the property states).",
        "DESIGN.md §4 C11"),
}

NOT_YET = "check not built yet in this round (planned, see DESIGN.md §8); no technique limitation"


def hook_commits():
    try:
        out = subprocess.run(["git", "-C", "/repo", "log", "--format=%H %s"], stdout=subprocess.PIPE, text=True).stdout
    except Exception:
        return []
    return [l.split()[0] for l in out.splitlines() if " hook:" in l or l.split(" ", 1)[1].startswith("verif hook")]


def main():
    props = [json.loads(l) for l in open(os.path.join(ROOT, "properties.jsonl"))]
    checks, na = [], []
    for p in props:
        pid = p["id"]
        if pid in CHECKS and os.path.isdir(os.path.join(ROOT, "harness", pid.lower())):
            tech, text, note, ref = CHECKS[pid]
            checks.append({
                "property_id": pid,
                "quick_cmd": "./check run %s quick" % pid,
                "thorough_cmd": "./check run %s thorough" % pid,
                "evidence_file": "/verif/evidence/%s.json" % pid,
                "replay_cmd_template": "./check replay %s {path}" % pid,
                "engine": "harness",
                "level_claimed": {"category": "exploration", "text": text, "design_ref": ref},
                "level_note": note,
                "technique": tech,
            })
        else:
            na.append({"property_id": pid, "reason": NOT_YET})
    m = {
        "version": 1,
        "setup_cmd": "./check setup",
        "hooks": {
            "guard": "verif",
            "enable": "go test -tags verif (the harness module replaces github.com/brocaar/lorawan with /repo, so every check compiles /repo's current working tree with the tag on)",
            "baseline_off_cmd": "cd /repo && GOFLAGS=-mod=mod go test -vet=off -count=1 ./...",
            "source_commits": hook_commits(),
            "add_only": True,
        },
        "engines": [{
            "name": "harness", "path": "/verif/harness",
            "serves_properties": [c["property_id"] for c in checks],
            "kind_free_text": "Go test packages (one per property) using pgregory.net/rapid v1.3.0 generators with shrinking, exhaustive enumeration of small finite domains, native go fuzzing (thorough tier of C08/C09) and the race detector (C10/C16); oracles are independent reference models under harness/internal/ref; driven and merged by the python3 driver ./check",
        }],
        "checks": checks,
        "notes": "exit 0 = held on everything explored (KNOWN-FINDING lines allowed), 1 = VIOLATION line printed, 2 = inconclusive (build failure, time-out, dead worker). VERIF_SEED selects the rapid seeds (0 is remapped to a fixed constant). Known findings: /verif/known_findings.json.",
        "not_applicable": na,
    }
    with open(os.path.join(ROOT, "MANIFEST.json"), "w") as f:
        json.dump(m, f, indent=1)
        f.write("\n")
    print("MANIFEST: %d checks, %d not claimed" % (len(checks), len(na)))


if __name__ == "__main__":
    main()
