//go:build verif

// C16: join-server answers are usable by a spec-conformant device and NS.
//
// The oracle is an end-device + network-server model that is built only from
// package ref (AES-CMAC, RFC 3394, the LoRaWAN 1.0.x / 1.1 join crypto blocks
// and the wire model) and from encoding/json on plain string structs: the
// device builds the (re)join-request bytes, the NS model wraps them into the
// backend-interfaces JSON, the answer of the library's handler is then read
// back by the NS model (mirroring, result code, key envelopes) and by the
// device model (decrypt, MIC, echoed fields, derived session keys).
package c16

import (
	"bytes"
	"encoding/hex"
	"encoding/json"
	"fmt"
	"io"
	"net/http"
	"net/http/httptest"
	"strings"
	"testing"
	"testing/iotest"

	"github.com/brocaar/lorawan"
	"github.com/brocaar/lorawan/backend/joinserver"
	"pgregory.net/rapid"

	"verif/harness/internal/evid"
	"verif/harness/internal/gen"
	"verif/harness/internal/ref"
)

// ---------------------------------------------------------------------------
// cases
// ---------------------------------------------------------------------------

const (
	flowJoin    = "join"
	flowRejoin0 = "rejoin0"
	flowRejoin1 = "rejoin1"
	flowRejoin2 = "rejoin2"
	flowHomeNS  = "homens"

	negNone     = ""
	negFlip     = "flip"     // one bit of MHDR.Major | JoinEUI | DevEUI | DevNonce | MIC of a join-request flipped
	negWrongKey = "wrongkey" // MIC of a join-request computed under another key
	// an unknown device is expressed by device.Known == false
)

// eui is a 64 bit identifier written as 16 hex digits in the case JSON.
type eui uint64

func (e eui) MarshalJSON() ([]byte, error) { return json.Marshal(fmt.Sprintf("%016x", uint64(e))) }
func (e *eui) UnmarshalJSON(b []byte) error {
	var s string
	if err := json.Unmarshal(b, &s); err != nil {
		return err
	}
	var v uint64
	if _, err := fmt.Sscanf(s, "%x", &v); err != nil {
		return err
	}
	*e = eui(v)
	return nil
}

// device is one end-device as provisioned on the join-server plus the part of
// its state that the device itself needs to build a rejoin-request.
type device struct {
	DevEUI      eui      `json:"deveui"`
	Known       bool     `json:"known"`                 // false: the device-keys callback answers ErrDevEUINotFound
	NwkKey      evid.Hex `json:"nwkkey,omitempty"`      // 1.0 devices: their only root key (the library's DeviceKeys documents the 1.1 naming)
	AppKey      evid.Hex `json:"appkey,omitempty"`      // 1.1 only
	JoinNonce   uint32   `json:"joinnonce,omitempty"`   // what the callback hands out for the next join-accept
	ASLabel     string   `json:"aslabel,omitempty"`     // KEK label of the device's application server ("" = none)
	HomeNetID   uint32   `json:"homenetid,omitempty"`   // HomeNSReq
	SNwkSIntKey evid.Hex `json:"snwksintkey,omitempty"` // key of the running session: MIC of rejoin type 0/2
}

// request is one backend-interfaces request as the NS model sends it.
type request struct {
	Flow        string   `json:"flow"`
	Dev         int      `json:"dev,omitempty"` // index into the world's devices
	JoinEUI     eui      `json:"joineui"`       // ReceiverID
	Nonce       uint16   `json:"nonce,omitempty"`
	NetID       uint32   `json:"netid,omitempty"` // SenderID
	DevAddr     uint32   `json:"devaddr,omitempty"`
	OptNeg      bool     `json:"optneg,omitempty"`
	RX1DROffset byte     `json:"rx1droffset,omitempty"`
	RX2DR       byte     `json:"rx2dr,omitempty"`
	RxDelay     byte     `json:"rxdelay,omitempty"`
	CFList      evid.Hex `json:"cflist,omitempty"` // absent or 16 bytes
	TxID        uint32   `json:"txid,omitempty"`
	MACVersion  string   `json:"macversion,omitempty"`
	Neg         string   `json:"neg,omitempty"`
	FlipByte    int      `json:"flipbyte,omitempty"`
	FlipBit     int      `json:"flipbit,omitempty"`
	WrongKey    evid.Hex `json:"wrongkey,omitempty"`
	UpperHex    bool     `json:"upperhex,omitempty"` // the hexadecimal strings of the request are written in upper case
}

// world is the configuration of one handler.
type world struct {
	noHome  bool                // derived per case: the handler has no home-NetID lookup (documented default: unknown)
	Devices []device            `json:"devices"`
	KEKs    map[string]evid.Hex `json:"keks,omitempty"` // label -> KEK (NS label = SenderID)
}

type oneCase struct {
	world
	Req request `json:"req"`
	// Rekey (16 bytes, optional): after the request was answered, the device is provisioned again under the same
	// DevEUI with other root keys (NwkKey = Rekey, AppKey = AppKey xor Rekey) on a second handler, sends the same
	// request built with its new keys, and is judged like the first.
	Rekey evid.Hex `json:"rekey,omitempty"`
}

func keyOf(h evid.Hex) ref.Key {
	var k ref.Key
	copy(k[:], h)
	return k
}

func (w *world) dev(rq *request) *device {
	if rq.Dev < 0 || rq.Dev >= len(w.Devices) {
		return &device{}
	}
	return &w.Devices[rq.Dev]
}

// ---------------------------------------------------------------------------
// handler under test
// ---------------------------------------------------------------------------

func euiOf(v uint64) lorawan.EUI64 {
	var e lorawan.EUI64
	for i := 0; i < 8; i++ {
		e[i] = byte(v >> (8 * uint(7-i)))
	}
	return e
}

func newHandler(w *world) http.Handler { return newHandlerOpt(w, handlerOpt{}) }

// handlerOpt varies what the documentation of HandlerConfig leaves open.
type handlerOpt struct {
	// omitOptional: the optional callbacks are left nil wherever the documented default (no KEK, no label, unknown
	// home NetID) answers exactly like the configured one would
	omitOptional bool
	homeUnused   bool // no HomeNSReq will be served by this handler
	// strictLabel: the AS-KEK-label lookup fails for a DevEUI it has no record of (a database-backed lookup), instead
	// of answering "no label"
	strictLabel bool
	// emptyNotNil: "no KEK for this label" is answered with an empty non-nil slice instead of nil
	emptyNotNil bool
	// bareKeys: the device-keys callback returns keys and join-nonce and leaves DeviceKeys.DevEUI zero
	bareKeys bool
}

func newHandlerOpt(w *world, opt handlerOpt) http.Handler {
	devs := map[lorawan.EUI64]*device{}
	for i := range w.Devices {
		if w.Devices[i].Known {
			devs[euiOf(uint64(w.Devices[i].DevEUI))] = &w.Devices[i]
		}
	}
	keks := map[string][]byte{}
	for l, k := range w.KEKs {
		keks[l] = append([]byte{}, k...)
	}
	// the KEK of a network server is configured under the SenderID in that server's spelling (see senderID); the lower-case
	// label stays only where an application server uses the same string as its own label
	for l, k := range w.KEKs {
		var id uint32
		if n, err := fmt.Sscanf(l, "%06x", &id); len(l) != 6 || n != 1 || err != nil || fmt.Sprintf("%06x", id) != l || netLabel(id) == l {
			continue
		}
		keks[netLabel(id)] = append([]byte{}, k...)
		asToo := false
		for i := range w.Devices {
			asToo = asToo || w.Devices[i].ASLabel == l
		}
		if !asToo {
			delete(keks, l)
		}
	}
	anyLabel := false
	for i := range w.Devices {
		anyLabel = anyLabel || w.Devices[i].Known && w.Devices[i].ASLabel != ""
	}
	cfg := joinserver.HandlerConfig{
		GetDeviceKeysByDevEUIFunc: func(e lorawan.EUI64) (joinserver.DeviceKeys, error) {
			d, ok := devs[e]
			if !ok {
				return joinserver.DeviceKeys{}, joinserver.ErrDevEUINotFound
			}
			// the callback is asked for keys and nonce; whether it also copies the DevEUI into the struct is up to it
			dk := joinserver.DeviceKeys{JoinNonce: int(d.JoinNonce)}
			if !opt.bareKeys {
				dk.DevEUI = e
			}
			copy(dk.NwkKey[:], d.NwkKey)
			copy(dk.AppKey[:], d.AppKey)
			return dk, nil
		},
		GetKEKByLabelFunc: func(label string) ([]byte, error) {
			// the configuration hands out its stored KEK, as a map-backed configuration (and the repository's own test) does;
			// for a label without a KEK: nil (the map's answer) or - as the field's documentation words it - an empty slice
			if k, ok := keks[label]; ok || !opt.emptyNotNil {
				return k, nil
			}
			return []byte{}, nil
		},
		GetASKEKLabelByDevEUIFunc: func(e lorawan.EUI64) (string, error) {
			if d, ok := devs[e]; ok {
				return d.ASLabel, nil
			}
			if opt.strictLabel {
				return "", fmt.Errorf("application-server lookup: no device %s", e)
			}
			return "", nil
		},
		GetHomeNetIDByDevEUIFunc: func(e lorawan.EUI64) (lorawan.NetID, error) {
			d, ok := devs[e]
			if !ok {
				return lorawan.NetID{}, joinserver.ErrDevEUINotFound
			}
			return lorawan.NetID{byte(d.HomeNetID >> 16), byte(d.HomeNetID >> 8), byte(d.HomeNetID)}, nil
		},
	}
	if opt.omitOptional {
		if len(keks) == 0 {
			cfg.GetKEKByLabelFunc = nil
		}
		if !anyLabel && !opt.strictLabel {
			cfg.GetASKEKLabelByDevEUIFunc = nil
		}
		if opt.homeUnused {
			cfg.GetHomeNetIDByDevEUIFunc = nil
		}
	}
	h, err := joinserver.NewHandler(cfg)
	if err != nil {
		panic(err)
	}
	return h
}

// serve hands the request to the handler. The body of an HTTP request arrives as the network delivers it: every other
// body (by its length) comes in pieces - a Read returns half of what was asked for - with the Content-Length announced.
func serve(h http.Handler, body []byte) (int, []byte) {
	rec := httptest.NewRecorder()
	req := httptest.NewRequest(http.MethodPost, "/", bytes.NewReader(body))
	if len(body)%2 == 1 {
		req.Body = io.NopCloser(iotest.HalfReader(bytes.NewReader(body)))
		req.ContentLength = int64(len(body))
	}
	h.ServeHTTP(rec, req)
	return rec.Code, rec.Body.Bytes()
}

// ---------------------------------------------------------------------------
// device model: request side
// ---------------------------------------------------------------------------

func rejoinType(flow string) byte {
	switch flow {
	case flowRejoin1:
		return 1
	case flowRejoin2:
		return 2
	}
	return 0
}

// phyOf gives the PHYPayload the device transmits (LoRaWAN 1.1 §6.2.2, §6.2.4).
func phyOf(d *device, rq *request) []byte {
	nwkKey := keyOf(d.NwkKey)
	var f ref.Frame
	var micKey ref.Key
	switch rq.Flow {
	case flowJoin:
		f = ref.Frame{MType: ref.MTJoinRequest, FPort: -1, JoinEUI: uint64(rq.JoinEUI), DevEUI: uint64(d.DevEUI), DevNonce: rq.Nonce}
		micKey = nwkKey
		if rq.Neg == negWrongKey {
			micKey = keyOf(rq.WrongKey)
		}
	case flowRejoin1:
		f = ref.Frame{MType: ref.MTRejoin, FPort: -1, RejoinType: 1, JoinEUI: uint64(rq.JoinEUI), DevEUI: uint64(d.DevEUI), RJCount: rq.Nonce}
		_, micKey = ref.JSKeys(nwkKey, uint64(d.DevEUI))
	default:
		f = ref.Frame{MType: ref.MTRejoin, FPort: -1, RejoinType: rejoinType(rq.Flow), NetID: rq.NetID & 0xffffff, DevEUI: uint64(d.DevEUI), RJCount: rq.Nonce}
		micKey = keyOf(d.SNwkSIntKey)
	}
	f.MIC = ref.JoinMIC(micKey, f.Msg())
	b := f.Encode()
	if rq.Neg == negFlip && rq.FlipByte >= 0 && rq.FlipByte < len(b) {
		b[rq.FlipByte] ^= 1 << uint(rq.FlipBit&7)
	}
	return b
}

// ---------------------------------------------------------------------------
// NS model: JSON in and out (own structs, strings only)
// ---------------------------------------------------------------------------

type jsonReq struct {
	ProtocolVersion string `json:"ProtocolVersion"`
	SenderID        string `json:"SenderID"`
	ReceiverID      string `json:"ReceiverID"`
	TransactionID   uint32 `json:"TransactionID"`
	MessageType     string `json:"MessageType"`
	MACVersion      string `json:"MACVersion,omitempty"`
	PHYPayload      string `json:"PHYPayload,omitempty"`
	DevEUI          string `json:"DevEUI"`
	DevAddr         string `json:"DevAddr,omitempty"`
	DLSettings      string `json:"DLSettings,omitempty"`
	RxDelay         *int   `json:"RxDelay,omitempty"`
	CFList          string `json:"CFList,omitempty"`
}

type envelope struct {
	KEKLabel string `json:"KEKLabel"`
	AESKey   string `json:"AESKey"`
}

type jsonAns struct {
	ProtocolVersion string `json:"ProtocolVersion"`
	SenderID        string `json:"SenderID"`
	ReceiverID      string `json:"ReceiverID"`
	TransactionID   uint32 `json:"TransactionID"`
	MessageType     string `json:"MessageType"`
	Result          struct {
		ResultCode string `json:"ResultCode"`
	} `json:"Result"`
	ResultCode  string    `json:"ResultCode"` // bare Result object (answer to a request whose JSON could not be read)
	PHYPayload  string    `json:"PHYPayload"`
	SNwkSIntKey *envelope `json:"SNwkSIntKey"`
	FNwkSIntKey *envelope `json:"FNwkSIntKey"`
	NwkSEncKey  *envelope `json:"NwkSEncKey"`
	NwkSKey     *envelope `json:"NwkSKey"`
	AppSKey     *envelope `json:"AppSKey"`
	HNetID      string    `json:"HNetID"`
}

// senderID is the SenderID as that network server writes it: the backend interfaces prescribe no case for hexadecimal
// strings, and here the networks with an odd NetID use capital digits - in their requests and, consistently, as the label
// under which their KEK is configured (newHandlerOpt)
func senderID(rq *request) string { return netLabel(rq.NetID) }

func netLabel(netID uint32) string {
	if netID&1 == 1 {
		return fmt.Sprintf("%06X", netID&0xffffff)
	}
	return fmt.Sprintf("%06x", netID&0xffffff)
}

// nsKEK is the KEK configured for the network server of the request (the world writes all labels in lower case)
func nsKEK(w *world, rq *request) []byte { return w.KEKs[fmt.Sprintf("%06x", rq.NetID&0xffffff)] }
func receiverID(rq *request) string      { return fmt.Sprintf("%016x", uint64(rq.JoinEUI)) }

func dlSettingsByte(rq *request) byte {
	b := rq.RX1DROffset&7<<4 | rq.RX2DR&0x0f
	if rq.OptNeg {
		b |= 0x80
	}
	return b
}

func reqMessageType(flow string) string {
	switch flow {
	case flowJoin:
		return "JoinReq"
	case flowHomeNS:
		return "HomeNSReq"
	}
	return "RejoinReq"
}

func ansMessageType(flow string) string {
	switch flow {
	case flowJoin:
		return "JoinAns"
	case flowHomeNS:
		return "HomeNSAns"
	}
	return "RejoinAns"
}

func jsonReqOf(d *device, rq *request) jsonReq {
	j := jsonReq{
		ProtocolVersion: "1.0",
		SenderID:        senderID(rq),
		ReceiverID:      receiverID(rq),
		TransactionID:   rq.TxID,
		MessageType:     reqMessageType(rq.Flow),
		DevEUI:          fmt.Sprintf("%016x", uint64(d.DevEUI)),
	}
	if rq.Flow == flowHomeNS {
		return j
	}
	rxd := int(rq.RxDelay)
	j.MACVersion = rq.MACVersion
	j.PHYPayload = hex.EncodeToString(phyOf(d, rq))
	j.DevAddr = fmt.Sprintf("%08x", rq.DevAddr)
	j.DLSettings = fmt.Sprintf("%02x", dlSettingsByte(rq))
	j.RxDelay = &rxd
	j.CFList = hex.EncodeToString(rq.CFList)
	if rq.UpperHex {
		// the backend interfaces define these members as hexadecimal strings without prescribing a case
		j.PHYPayload, j.CFList, j.DevEUI = strings.ToUpper(j.PHYPayload), strings.ToUpper(j.CFList), strings.ToUpper(j.DevEUI)
		j.DevAddr, j.DLSettings = strings.ToUpper(j.DevAddr), strings.ToUpper(j.DLSettings)
	}
	return j
}

func bodyOf(d *device, rq *request) []byte {
	b, err := json.Marshal(jsonReqOf(d, rq))
	if err != nil {
		panic(err)
	}
	return b
}

// ---------------------------------------------------------------------------
// oracle
// ---------------------------------------------------------------------------

// block10 is the LoRaWAN 1.0.x session-key block: typ | JoinNonce | NetID | DevNonce | pad.
func block10(nwkKey ref.Key, typ byte, joinNonce, netID uint32, devNonce uint16) ref.Key {
	b := make([]byte, 16)
	b[0] = typ
	b[1], b[2], b[3] = byte(joinNonce), byte(joinNonce>>8), byte(joinNonce>>16)
	b[4], b[5], b[6] = byte(netID), byte(netID>>8), byte(netID>>16)
	b[7], b[8] = byte(devNonce), byte(devNonce>>8)
	var k ref.Key
	copy(k[:], ref.AESEncryptBlock(nwkKey, b))
	return k
}

type keySet struct{ fNwkSInt, appS, sNwkSInt, nwkSEnc ref.Key }

func (k keySet) String() string {
	return fmt.Sprintf("FNwkSIntKey=%x AppSKey=%x SNwkSIntKey=%x NwkSEncKey=%x", k.fNwkSInt, k.appS, k.sNwkSInt, k.nwkSEnc)
}

func kekClass(w *world, d *device, rq *request) (ns, as bool, class string) {
	ns = len(nsKEK(w, rq)) > 0
	as = d.ASLabel != "" && len(w.KEKs[d.ASLabel]) > 0
	switch {
	case ns && as:
		class = "ns+as"
	case ns:
		class = "ns"
	case as:
		class = "as"
	default:
		class = "nokek"
	}
	return
}

// openEnvelope is the receiving NS / AS: a clear key when no KEK is configured
// for the label the join-server must use, else RFC 3394 unwrap under that KEK.
func openEnvelope(name string, e *envelope, wrapped bool, label string, kek []byte) (ref.Key, string) {
	var k ref.Key
	if e == nil {
		return k, name + " envelope is absent"
	}
	raw, err := hex.DecodeString(e.AESKey)
	if err != nil {
		return k, fmt.Sprintf("%s.AESKey %q is not hex", name, e.AESKey)
	}
	if !wrapped {
		if e.KEKLabel != "" {
			return k, fmt.Sprintf("%s.KEKLabel=%q although no KEK is configured for label %q", name, e.KEKLabel, label)
		}
		if len(raw) != 16 {
			return k, fmt.Sprintf("%s.AESKey has %d bytes, a clear key has 16", name, len(raw))
		}
		copy(k[:], raw)
		return k, ""
	}
	if e.KEKLabel != label {
		return k, fmt.Sprintf("%s.KEKLabel=%q, configured label is %q", name, e.KEKLabel, label)
	}
	pt, err := ref.KeyUnwrap(kek, raw)
	if err != nil {
		return k, fmt.Sprintf("%s.AESKey %x does not unwrap (RFC 3394) under the KEK %x configured for label %q: %v", name, raw, kek, label, err)
	}
	if len(pt) != 16 {
		return k, fmt.Sprintf("%s unwraps to %d bytes, want 16", name, len(pt))
	}
	copy(k[:], pt)
	return k, ""
}

// verdict of the oracle on one answer.
type verdict struct {
	result string // result code seen
	viol   string
	known  string
}

// judge checks the answer to one well-formed request. acceptK4: the defective
// rejoin key derivation is accepted silently (used by the concurrency check,
// where the witness of the sequential sub-check accounts for the finding).
func judge(w *world, rq *request, status int, ansBody []byte, acceptK4 bool) verdict {
	d := w.dev(rq)
	in := fmt.Sprintf("request %s", bodyOf(d, rq))
	var a jsonAns
	if err := json.Unmarshal(ansBody, &a); err != nil {
		return verdict{viol: fmt.Sprintf("%s: answer %q is not JSON: %v", in, ansBody, err)}
	}
	v := verdict{result: a.Result.ResultCode}
	fail := func(format string, args ...any) verdict {
		v.viol = in + ": " + fmt.Sprintf(format, args...) + fmt.Sprintf(" (answer %s)", ansBody)
		return v
	}
	// every answer mirrors sender, receiver and the transaction id: the members are there (a transaction id of 0 is
	// an id like any other, not an absent one)
	var members map[string]json.RawMessage
	if err := json.Unmarshal(ansBody, &members); err != nil {
		return fail("the answer is not a JSON object: %v", err)
	}
	for _, name := range []string{"SenderID", "ReceiverID", "TransactionID"} {
		if _, ok := members[name]; !ok {
			return fail("the answer has no %s member (request: SenderID %q ReceiverID %q TransactionID %d)", name, senderID(rq), receiverID(rq), rq.TxID)
		}
	}
	if a.SenderID != receiverID(rq) || a.ReceiverID != senderID(rq) || a.TransactionID != rq.TxID || a.MessageType != ansMessageType(rq.Flow) {
		return fail("answer carries SenderID=%q ReceiverID=%q TransactionID=%d MessageType=%q, want %q %q %d %q",
			a.SenderID, a.ReceiverID, a.TransactionID, a.MessageType, receiverID(rq), senderID(rq), rq.TxID, ansMessageType(rq.Flow))
	}
	// negative cases
	want := "Success"
	switch {
	case !d.Known || w.noHome && rq.Flow == flowHomeNS:
		want = "UnknownDevEUI"
	case rq.Flow == flowJoin && rq.Neg != negNone:
		want = "MICFailed"
	}
	if a.Result.ResultCode != want {
		return fail("ResultCode=%q, want %q", a.Result.ResultCode, want)
	}
	if want != "Success" {
		if a.PHYPayload != "" || a.AppSKey != nil || a.NwkSKey != nil || a.FNwkSIntKey != nil || a.SNwkSIntKey != nil || a.NwkSEncKey != nil {
			return fail("a %s answer carries a join-accept or session keys", want)
		}
		return v
	}
	if status != http.StatusOK {
		return fail("Success answered with HTTP status %d", status)
	}
	if rq.Flow == flowHomeNS {
		if wantID := fmt.Sprintf("%06x", d.HomeNetID&0xffffff); !strings.EqualFold(a.HNetID, wantID) {
			return fail("HNetID=%q, configured home NetID is %s", a.HNetID, wantID)
		}
		return v
	}

	// ---- the device receives the join-accept ----
	nwkKey, appKey := keyOf(d.NwkKey), keyOf(d.AppKey)
	jsEnc, jsInt := ref.JSKeys(nwkKey, uint64(d.DevEUI))
	rejoin := rq.Flow != flowJoin
	phy, err := hex.DecodeString(a.PHYPayload)
	if err != nil {
		return fail("PHYPayload is not hex: %v", err)
	}
	wantLen := 1 + 12 + len(rq.CFList) + 4
	if len(phy) != wantLen {
		return fail("join-accept has %d bytes, want %d", len(phy), wantLen)
	}
	if phy[0] != ref.MTJoinAccept<<5 {
		return fail("join-accept MHDR=%02x, want 20", phy[0])
	}
	encKey := nwkKey
	if rejoin {
		encKey = jsEnc
	}
	clear := append([]byte{phy[0]}, ref.JoinAcceptDecrypt(encKey, phy[1:])...)
	f, err := ref.DecodeFrame(clear, true)
	if err != nil {
		return fail("decrypted join-accept %x does not parse: %v", clear, err)
	}
	micKey, jrType := nwkKey, byte(0xff)
	if rq.OptNeg {
		micKey = jsInt
	}
	if rejoin {
		jrType = rejoinType(rq.Flow)
	}
	if wantMIC := ref.JoinAcceptMIC(micKey, rq.OptNeg, jrType, uint64(rq.JoinEUI), rq.Nonce, clear[:len(clear)-4]); f.MIC != wantMIC {
		return fail("device decrypts the join-accept to %x: MIC %x, device computes %x (OptNeg=%v, JoinReqType=%02x)", clear, f.MIC, wantMIC, rq.OptNeg, jrType)
	}
	if f.JoinNonce != d.JoinNonce&0xffffff {
		return fail("join-accept JoinNonce=%06x, configured %06x", f.JoinNonce, d.JoinNonce)
	}
	if f.NetID != rq.NetID&0xffffff {
		return fail("join-accept NetID=%06x, SenderID is %06x", f.NetID, rq.NetID)
	}
	if f.DevAddr != rq.DevAddr {
		return fail("join-accept DevAddr=%08x, requested %08x", f.DevAddr, rq.DevAddr)
	}
	if got := clear[11]; got != dlSettingsByte(rq) {
		return fail("join-accept DLSettings=%02x, requested %02x", got, dlSettingsByte(rq))
	}
	if got := clear[12]; got != rq.RxDelay {
		return fail("join-accept RxDelay=%02x, requested %02x", got, rq.RxDelay)
	}
	if got := clear[13 : len(clear)-4]; !bytes.Equal(got, rq.CFList) {
		return fail("join-accept CFList=%x, requested %x", got, []byte(rq.CFList))
	}

	// ---- the NS and the AS open the envelopes ----
	nsW, asW, _ := kekClass(w, d, rq)
	nsLabel, nsKEK := senderID(rq), []byte(nsKEK(w, rq))
	asKEK := []byte(w.KEKs[d.ASLabel])
	var got keySet
	var msg string
	if got.appS, msg = openEnvelope("AppSKey", a.AppSKey, asW, d.ASLabel, asKEK); msg != "" {
		return fail("%s", msg)
	}
	if !rq.OptNeg && !rejoin {
		if got.fNwkSInt, msg = openEnvelope("NwkSKey", a.NwkSKey, nsW, nsLabel, nsKEK); msg != "" {
			return fail("%s", msg)
		}
		wantN, wantA := ref.SessionKeys10(nwkKey, d.JoinNonce, rq.NetID&0xffffff, rq.Nonce)
		if got.fNwkSInt != wantN || got.appS != wantA {
			return fail("1.0 device derives NwkSKey=%x AppSKey=%x, answer carries NwkSKey=%x AppSKey=%x", wantN, wantA, got.fNwkSInt, got.appS)
		}
		return v
	}
	if got.fNwkSInt, msg = openEnvelope("FNwkSIntKey", a.FNwkSIntKey, nsW, nsLabel, nsKEK); msg != "" {
		return fail("%s", msg)
	}
	if got.sNwkSInt, msg = openEnvelope("SNwkSIntKey", a.SNwkSIntKey, nsW, nsLabel, nsKEK); msg != "" {
		return fail("%s", msg)
	}
	if got.nwkSEnc, msg = openEnvelope("NwkSEncKey", a.NwkSEncKey, nsW, nsLabel, nsKEK); msg != "" {
		return fail("%s", msg)
	}
	var wantKeys keySet
	wantKeys.fNwkSInt, wantKeys.appS, wantKeys.sNwkSInt, wantKeys.nwkSEnc = ref.SessionKeys11(nwkKey, appKey, d.JoinNonce, uint64(rq.JoinEUI), rq.Nonce)
	if got == wantKeys {
		return v
	}
	if rejoin {
		// K4: the documented defective derivation - all four keys from the 1.0.x
		// block (JoinNonce | NetID | RJCount) under NwkKey, AppSKey included.
		bad := keySet{
			fNwkSInt: block10(nwkKey, 0x01, d.JoinNonce, rq.NetID&0xffffff, rq.Nonce),
			appS:     block10(nwkKey, 0x02, d.JoinNonce, rq.NetID&0xffffff, rq.Nonce),
			sNwkSInt: block10(nwkKey, 0x03, d.JoinNonce, rq.NetID&0xffffff, rq.Nonce),
			nwkSEnc:  block10(nwkKey, 0x04, d.JoinNonce, rq.NetID&0xffffff, rq.Nonce),
		}
		if got == bad {
			if acceptK4 {
				return v
			}
			fail("rejoin-request: 1.1 device derives %v, answer carries the 1.0-style keys %v (aes128(NwkKey, type|JoinNonce|NetID|RJCount|pad) for types 01..04)", wantKeys, got)
			v.known = "K4"
			return v
		}
	}
	return fail("1.1 device derives %v, answer carries %v", wantKeys, got)
}

func flowClass(w *world, rq *request) (string, bool) {
	d := w.dev(rq)
	_, _, kc := kekClass(w, d, rq)
	ver := "1.0"
	if rq.OptNeg {
		ver = "1.1"
	}
	neg := rq.Neg
	if !d.Known {
		neg = "unknown"
	}
	if rq.Flow == flowHomeNS {
		kc, ver = "-", "-"
	}
	nt := rq.OptNeg || (kc != "nokek" && kc != "-") || (rq.Flow != flowJoin && rq.Flow != flowHomeNS) || neg != ""
	if neg == "" {
		neg = "ok"
	}
	return fmt.Sprintf("%s/%s/%s/%s", rq.Flow, ver, kc, neg), nt
}

func checkOne(c oneCase) evid.Outcome {
	if len(c.Devices) == 0 {
		return evid.Outcome{Skip: true}
	}
	// the handler configuration varies with the transaction id: optional callbacks omitted where their documented
	// default answers the same; a label lookup that fails for devices it does not know
	// a HomeNSReq to a handler without the (optional) home-NetID lookup: the documented default answers "unknown"
	c.world.noHome = c.Req.Flow == flowHomeNS && c.Req.TxID&1 == 1 && c.Req.TxID&16 == 16
	opt := handlerOpt{omitOptional: c.Req.TxID&1 == 1, homeUnused: c.Req.Flow != flowHomeNS || c.world.noHome, strictLabel: c.Req.TxID&2 == 2, emptyNotNil: c.Req.TxID&4 == 4, bareKeys: c.Req.TxID&8 == 8}
	h := newHandlerOpt(&c.world, opt)
	d := c.dev(&c.Req)
	var status int
	var ans []byte
	if p := catchPanic(func() { status, ans = serve(h, bodyOf(d, &c.Req)) }); p != "" {
		return evid.Fail("the handler (optional callbacks omitted: %v, label lookup failing for unknown devices: %v) panics on request %s: %s", opt.omitOptional, opt.strictLabel, bodyOf(d, &c.Req), p)
	}
	v := judge(&c.world, &c.Req, status, ans, false)
	class, nt := flowClass(&c.world, &c.Req)
	if v.viol != "" && v.known == "" {
		return evid.Outcome{Violation: v.viol, Class: class + "/" + v.result + "/violation"}
	}
	if len(c.Rekey) == 16 && c.Req.Dev >= 0 && c.Req.Dev < len(c.Devices) && !(c.Req.Neg == negWrongKey && bytes.Equal(c.Req.WrongKey, c.Rekey)) {
		w2 := world{Devices: append([]device{}, c.Devices...), KEKs: c.KEKs, noHome: c.world.noHome}
		d2 := &w2.Devices[c.Req.Dev]
		d2.NwkKey = append(evid.Hex{}, c.Rekey...)
		app := make(evid.Hex, 16)
		for i := range app {
			app[i] = c.Rekey[i]
			if i < len(d.AppKey) {
				app[i] ^= d.AppKey[i]
			}
		}
		d2.AppKey = app
		st2, ans2 := serve(newHandlerOpt(&w2, opt), bodyOf(d2, &c.Req))
		if v2 := judge(&w2, &c.Req, st2, ans2, true); v2.viol != "" {
			return evid.Fail("history: the request was first answered for DevEUI %016x with NwkKey %x, then the device was provisioned again with NwkKey %x AppKey %x (second handler) and sent the same request under its new keys: %s", uint64(d.DevEUI), []byte(d.NwkKey), []byte(d2.NwkKey), []byte(d2.AppKey), v2.viol)
		}
		class += "/reprovisioned"
	}
	// requests do not influence one another: the same request served again by the same handler gets the same answer
	if status2, ans2 := serve(h, bodyOf(d, &c.Req)); status2 != status || !bytes.Equal(ans2, ans) {
		return evid.Fail("the same %s request served a second time by the same handler is answered differently (an earlier request influenced a later one):\n first:  %d %s\n second: %d %s", c.Req.Flow, status, ans, status2, ans2)
	}
	if v.viol != "" {
		return evid.Outcome{Violation: v.viol, Known: v.known, Class: class + "/" + v.result + "/violation" + v.known}
	}
	return evid.Outcome{NonTrivial: nt, Class: class + "/" + v.result}
}

// ---------------------------------------------------------------------------
// generators
// ---------------------------------------------------------------------------

func pick[T any](t *rapid.T, label string, xs ...T) T {
	return xs[rapid.IntRange(0, len(xs)-1).Draw(t, label)]
}

func genNonce16(t *rapid.T, label string) uint16 {
	if rapid.IntRange(0, 3).Draw(t, label+"?") == 0 {
		return pick[uint16](t, label+"!", 0, 1, 0xff, 0x100, 0x102, 0x7fff, 0x8000, 0xfffe, 0xffff)
	}
	return uint16(gen.U64(t, label))
}

func genNonce24(t *rapid.T, label string) uint32 {
	if rapid.IntRange(0, 3).Draw(t, label+"?") == 0 {
		return pick[uint32](t, label+"!", 0, 1, 0xff, 0x100, 0x10000, 0x010203, 0x7fffff, 0x800000, 0xfffffe, 0xffffff)
	}
	return uint32(gen.U64(t, label)) & 0xffffff
}

func genCFList(t *rapid.T) evid.Hex {
	switch rapid.IntRange(0, 3).Draw(t, "cflist") {
	case 0, 1:
		return nil
	case 2: // five channel frequencies, any 24 bit values
		return append(gen.Bytes(t, "cfchannels", 15), 0)
	default: // 1..6 channel masks, RFU zero
		n := rapid.IntRange(1, 6).Draw(t, "nmasks")
		b := make([]byte, 16)
		copy(b, gen.Bytes(t, "cfmasks", 2*n))
		b[15] = 1
		return b
	}
}

// genWorld draws nDev devices with distinct DevEUIs and a pool of NetIDs; the
// KEK table is filled for a drawn subset of the NS labels (= NetIDs in hex) and AS labels.
func genWorld(t *rapid.T, nDev, nNet int) (world, []uint32) {
	w := world{KEKs: map[string]evid.Hex{}}
	nets := make([]uint32, nNet)
	for i := range nets {
		nets[i] = uint32(gen.U64(t, "netid")) & 0xffffff
		if rapid.Bool().Draw(t, "nskek") {
			w.KEKs[fmt.Sprintf("%06x", nets[i])] = gen.Bytes(t, "kek", pick(t, "keklen", 16, 24, 32))
		}
	}
	seen := map[uint64]bool{}
	for i := 0; i < nDev; i++ {
		e := gen.U64(t, "deveui")
		for seen[e] {
			e++
		}
		seen[e] = true
		d := device{DevEUI: eui(e), Known: rapid.IntRange(0, 7).Draw(t, "known") != 0,
			NwkKey: gen.Bytes(t, "nwkkey", 16), AppKey: gen.Bytes(t, "appkey", 16), SNwkSIntKey: gen.Bytes(t, "snwksintkey", 16),
			JoinNonce: genNonce24(t, "joinnonce"), HomeNetID: uint32(gen.U64(t, "homenetid")) & 0xffffff}
		switch rapid.IntRange(0, 5).Draw(t, "as") {
		case 0, 1: // no AS label
		case 2: // label without a KEK: the key travels in the clear
			d.ASLabel = "as-without-kek"
		default:
			d.ASLabel = pick(t, "aslabel", "as-kek", "lora-app-server", "010203", fmt.Sprintf("%06x", nets[0]))
			if _, ok := w.KEKs[d.ASLabel]; !ok {
				w.KEKs[d.ASLabel] = gen.Bytes(t, "askek", pick(t, "askeklen", 16, 24, 32))
			}
		}
		w.Devices = append(w.Devices, d)
	}
	if len(w.KEKs) == 0 {
		w.KEKs = nil
	}
	return w, nets
}

func genRequest(t *rapid.T, w *world, nets []uint32) request {
	rq := request{
		Flow:  pick(t, "flow", flowJoin, flowJoin, flowJoin, flowJoin, flowRejoin0, flowRejoin1, flowRejoin2, flowHomeNS),
		Dev:   rapid.IntRange(0, len(w.Devices)-1).Draw(t, "dev"),
		NetID: nets[rapid.IntRange(0, len(nets)-1).Draw(t, "net")],
		TxID:  gen.U32(t, "txid"),
	}
	rq.JoinEUI = eui(gen.U64(t, "joineui"))
	if rq.Flow == flowHomeNS {
		return rq
	}
	rq.UpperHex = rapid.IntRange(0, 3).Draw(t, "upperhex") == 0
	rq.Nonce = genNonce16(t, "nonce")
	rq.DevAddr = uint32(gen.U64(t, "devaddr"))
	rq.RX1DROffset = byte(rapid.IntRange(0, 7).Draw(t, "rx1droffset"))
	rq.RX2DR = byte(rapid.IntRange(0, 15).Draw(t, "rx2dr"))
	rq.RxDelay = byte(rapid.IntRange(0, 15).Draw(t, "rxdelay"))
	rq.CFList = genCFList(t)
	if rq.Flow == flowJoin {
		rq.OptNeg = rapid.Bool().Draw(t, "optneg")
		rq.MACVersion = pick(t, "macversion", "1.0.0", "1.0.1", "1.0.2", "1.0.3", "1.1.0")
		if rq.OptNeg {
			rq.MACVersion = "1.1.0"
		}
		switch rapid.IntRange(0, 5).Draw(t, "neg") {
		case 0:
			// one bit of the 23 transmitted bytes; of the MHDR only the Major bits (the MType bits make it another
			// message: sub-check "malformed"; the RFU bits 2..4 are dropped by the decoder: property C08, finding K6)
			rq.Neg = negFlip
			rq.FlipByte = rapid.IntRange(0, 22).Draw(t, "flipbyte")
			rq.FlipBit = rapid.IntRange(0, 7).Draw(t, "flipbit")
			if rq.FlipByte == 0 {
				rq.FlipBit &= 1
			}
		case 1:
			rq.Neg = negWrongKey
			rq.WrongKey = gen.Bytes(t, "wrongkey", 16)
			if bytes.Equal(rq.WrongKey, w.Devices[rq.Dev].NwkKey) {
				rq.WrongKey[0] ^= 1
			}
		}
	} else {
		// rejoin-requests exist in LoRaWAN 1.1 only: the NS of a 1.1 session asks for OptNeg
		rq.OptNeg = true
		rq.MACVersion = "1.1.0"
	}
	return rq
}

func genOne(t *rapid.T) oneCase {
	w, nets := genWorld(t, 1, 1)
	c := oneCase{world: w, Req: genRequest(t, &w, nets)}
	if rapid.Bool().Draw(t, "reprovision") {
		c.Rekey = gen.Bytes(t, "rekey", 16)
	}
	return c
}

// ---------------------------------------------------------------------------
// malformed requests
// ---------------------------------------------------------------------------

type malCase struct {
	oneCase
	Kind string   `json:"kind"`
	Pos  int      `json:"pos,omitempty"`
	Junk evid.Hex `json:"junk,omitempty"`
}

var malKinds = []string{"garbage", "truncated-json", "phy-hex-odd", "phy-hex-char", "phy-truncated", "phy-extended", "phy-mtype",
	"sender", "receiver", "deveui", "devaddr", "dlsettings", "cflist-len", "msgtype", "msgtype-swap", "txid"}

func badHex(pos int, junk []byte, goodLen int) string {
	switch pos % 3 {
	case 0: // too short
		return strings.Repeat("a5", goodLen-1)
	case 1: // too long
		return strings.Repeat("5a", goodLen+1+len(junk)%3)
	default: // not hex
		return strings.Repeat("0", 2*goodLen-1) + "x"
	}
}

// malBody builds the malformed request; ok=false when the kind does not apply to the flow.
func malBody(c *malCase) ([]byte, bool) {
	d := c.dev(&c.Req)
	good := bodyOf(d, &c.Req)
	var m map[string]any
	if err := json.Unmarshal(good, &m); err != nil {
		panic(err)
	}
	pos := c.Pos
	if pos < 0 {
		pos = -pos
	}
	phy := phyOf(d, &c.Req)
	isHome := c.Req.Flow == flowHomeNS
	needPHY := strings.HasPrefix(c.Kind, "phy-") || c.Kind == "devaddr" || c.Kind == "dlsettings" || c.Kind == "cflist-len" || c.Kind == "sender" || c.Kind == "receiver" || c.Kind == "msgtype-swap"
	if isHome && needPHY {
		return nil, false // the HomeNSReq handler reads neither of these
	}
	switch c.Kind {
	case "garbage":
		return c.Junk, true
	case "truncated-json":
		return good[:pos%len(good)], true
	case "phy-hex-odd":
		s := hex.EncodeToString(phy)
		m["PHYPayload"] = s[:len(s)-1]
	case "phy-hex-char":
		s := []byte(hex.EncodeToString(phy))
		s[pos%len(s)] = "ghxz -"[pos%6]
		m["PHYPayload"] = string(s)
	case "phy-truncated":
		m["PHYPayload"] = hex.EncodeToString(phy[:pos%len(phy)])
	case "phy-extended":
		if len(c.Junk) == 0 {
			return nil, false
		}
		ext := c.Junk
		if len(ext) > 8 {
			ext = ext[:8]
		}
		m["PHYPayload"] = hex.EncodeToString(append(append([]byte{}, phy...), ext...))
	case "phy-mtype":
		mt := byte(pos % 8)
		if mt == phy[0]>>5 {
			mt = (mt + 1) % 8
		}
		p := append([]byte{}, phy...)
		p[0] = p[0]&0x1f | mt<<5
		m["PHYPayload"] = hex.EncodeToString(p)
	case "sender":
		m["SenderID"] = badHex(pos, c.Junk, 3)
	case "receiver":
		m["ReceiverID"] = badHex(pos, c.Junk, 8)
	case "deveui":
		m["DevEUI"] = badHex(pos, c.Junk, 8)
	case "devaddr":
		m["DevAddr"] = badHex(pos, c.Junk, 4)
	case "dlsettings":
		if pos%3 == 0 {
			m["DLSettings"] = "" // zero bytes
		} else {
			m["DLSettings"] = badHex(pos, c.Junk, 1)
		}
	case "cflist-len":
		n := 1 + pos%20
		if n == 16 {
			n = 17
		}
		m["CFList"] = strings.Repeat("00", n)
	case "msgtype":
		m["MessageType"] = []any{"JoinAns", "RejoinAns", "HomeNSAns", "XmitDataReq", "PRStartReq", "", "joinreq", "Foo", 7.0, nil}[pos%10]
	case "msgtype-swap":
		if c.Req.Flow == flowJoin {
			m["MessageType"] = "RejoinReq"
		} else {
			m["MessageType"] = "JoinReq"
		}
	case "txid":
		m["TransactionID"] = []any{"abc", -1.0, 4294967296.0, 1.5, []any{}, true}[pos%6]
	default:
		return nil, false
	}
	b, err := json.Marshal(m)
	if err != nil {
		panic(err)
	}
	return b, true
}

func checkMal(c malCase) evid.Outcome {
	if len(c.Devices) == 0 {
		return evid.Outcome{Skip: true}
	}
	c.Req.Neg = negNone
	body, ok := malBody(&c)
	if !ok {
		return evid.Outcome{Skip: true}
	}
	h := newHandler(&c.world)
	_, ans := serve(h, body) // a panic of the handler is caught by the framework and reported with the stack
	var a jsonAns
	if err := json.Unmarshal(ans, &a); err != nil {
		return evid.Fail("malformed request (%s) %q: answer %q is not JSON: %v", c.Kind, body, ans, err)
	}
	code := a.Result.ResultCode
	if code == "" {
		code = a.ResultCode
	}
	if code == "" || code == "Success" {
		return evid.Fail("malformed request (%s) %q: ResultCode=%q, want a failure code (answer %s)", c.Kind, body, code, ans)
	}
	if a.PHYPayload != "" || a.AppSKey != nil || a.NwkSKey != nil || a.FNwkSIntKey != nil {
		return evid.Fail("malformed request (%s) %q: a %s answer carries a join-accept or session keys (answer %s)", c.Kind, body, code, ans)
	}
	return evid.Outcome{NonTrivial: true, Class: c.Kind + "/" + c.Req.Flow + "/" + code}
}

func genMal(t *rapid.T) malCase {
	c := malCase{oneCase: genOne(t)}
	c.Devices[0].Known = true
	c.Req.Neg = negNone
	kinds := malKinds
	if c.Req.Flow == flowHomeNS {
		kinds = []string{"garbage", "truncated-json", "deveui", "msgtype", "txid"}
	}
	c.Kind = kinds[rapid.IntRange(0, len(kinds)-1).Draw(t, "kind")]
	c.Pos = rapid.IntRange(0, 1<<16).Draw(t, "pos")
	if c.Kind == "garbage" {
		if rapid.Bool().Draw(t, "jsonish") {
			c.Junk = []byte(pick(t, "junk", "", "{", "}", "[]", "null", "1", `""`, `{}`, `{"MessageType":"JoinReq"}`, `{"MessageType":"RejoinReq"}`, `{"MessageType":"HomeNSReq"}`,
				`{"MessageType":"JoinReq","PHYPayload":"00"}`, `{"MessageType":"RejoinReq","PHYPayload":"c0"}`, `{"MessageType":"JoinReq","SenderID":"010203","ReceiverID":"0102030405060708","PHYPayload":"0000000000"}`,
				`[{"MessageType":"JoinReq"}]`, "\xff\xfe"))
		} else {
			c.Junk = gen.Bytes(t, "junk", rapid.IntRange(0, 64).Draw(t, "junklen"))
		}
	} else if c.Kind == "phy-extended" {
		c.Junk = gen.Bytes(t, "junk", rapid.IntRange(1, 8).Draw(t, "junklen"))
	}
	return c
}

// ---------------------------------------------------------------------------

const ruleRequests = "rapid: one provisioned device (uniform 16-byte NwkKey/AppKey/session key, uniform 8-byte DevEUI and JoinEUI, boundary-biased 24-bit JoinNonce, " +
	"known or unknown to the device-keys callback), SenderID = uniform 24-bit NetID with or without a 16/24/32-byte NS KEK, AS KEK label absent / configured / " +
	"label without KEK, flow join-request (OptNeg both; negative variants: one bit of MHDR.Major|JoinEUI|DevEUI|DevNonce|MIC flipped, MIC under another key), " +
	"rejoin-request type 0/1/2 (OptNeg set, MIC under SNwkSIntKey / JSIntKey), HomeNSReq; boundary-biased 16-bit DevNonce/RJCount, uniform DevAddr, RX1DROffset 0..7, " +
	"RX2DR 0..15, RxDelay 0..15, CFList absent / 5 channels / 1..6 masks, boundary-biased TransactionID (0 included); request JSON built from plain strings (hexadecimal members in upper case in 1/4 of the requests), served through ServeHTTP " +
	"(httptest). Oracle: device + NS model from package ref only: mirrored SenderID/ReceiverID/TransactionID (present as members of the raw JSON answer) and Ans message type; Success; join-accept decrypts " +
	"under NwkKey (join) / JSEncKey (rejoin), MIC = reference join-accept MIC under NwkKey (OptNeg clear) / JSIntKey (OptNeg set, JoinReqType ff/00/01/02, JoinEUI, " +
	"DevNonce/RJCount), echoes JoinNonce, NetID = SenderID, DevAddr, DLSettings, RxDelay, CFList bytes; envelopes: clear 16-byte key when no KEK is configured for " +
	"the label (NS label = SenderID, AS label per device), else KEKLabel = label and reference RFC 3394 unwrap; keys = reference SessionKeys10 (OptNeg clear) / " +
	"SessionKeys11 (OptNeg set); for rejoin exactly two key sets are accepted: the 1.1 derivation, or the documented 1.0-style one (known finding K4); flipped bit / " +
	"wrong key => MICFailed, unknown DevEUI => UnknownDevEUI, both without join-accept or keys; HomeNSReq => configured home NetID. Handler configuration varied with the transaction id: optional callbacks left nil where the documented default answers the same, an AS-KEK-label lookup that answers an error instead of no label for a DevEUI it has no record of, a KEK lookup that answers nil or an empty slice for a label without KEK, a device-keys lookup that fills in or leaves out the DevEUI member of its answer. Histories: the same request " +
	"served a second time gets the same answer; in half of the cases the device is then provisioned again under the same DevEUI with other root keys on a second " +
	"handler, sends the request under its new keys and is judged by the same oracle. Non-trivial: OptNeg set, or a KEK " +
	"configured, or a rejoin, or a negative case."

const ruleMalformed = "rapid: a valid join / rejoin / HomeNS request of the generator above, damaged in one way: random or JSON-looking garbage body, body cut at a " +
	"random position, PHYPayload hex of odd length / with a non-hex character, PHYPayload cut to 0..len-1 bytes, extended by 1..8 bytes, MType replaced, SenderID / " +
	"ReceiverID / DevEUI / DevAddr / DLSettings of a wrong length or not hex, CFList of 1..20 (not 16) bytes, MessageType of an answer / another interface / wrong " +
	"JSON type / join<->rejoin swapped, TransactionID of a wrong JSON type or out of range. Oracle: the handler returns (no panic), the body is JSON, carries a " +
	"result code (Result.ResultCode or a bare Result object) that is not Success and no join-accept / keys. Every case is non-trivial (negative)."

func TestProp(t *testing.T) {
	r := evid.Begin(t, "C16")
	defer r.Finish()
	if err := ref.SelfTest(); err != nil {
		t.Fatal(err)
	}
	evid.Rapid(r, t, "requests", ruleRequests, 24000, 900000, genOne, checkOne)
	evid.Rapid(r, t, "malformed", ruleMalformed, 6000, 100000, genMal, checkMal)
}

func catchPanic(f func()) (p string) {
	defer func() {
		if r := recover(); r != nil {
			p = fmt.Sprint(r)
		}
	}()
	f()
	return ""
}
