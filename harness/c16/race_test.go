//go:build verif

package c16

import (
	"bytes"
	"fmt"
	"sync"
	"testing"

	"pgregory.net/rapid"

	"verif/harness/internal/evid"
	"verif/harness/internal/ref"
)

// batchCase is N requests for one handler.
type batchCase struct {
	world
	Reqs []request `json:"reqs"`
}

const raceRounds = 3

// checkBatch serves every request alone (sequentially, fresh recorder each),
// then all of them at once from N goroutines through the same handler, and
// compares the answers byte by byte; the concurrent answers are also judged by
// the device / NS model.
func checkBatch(c batchCase) evid.Outcome {
	if len(c.Devices) == 0 || len(c.Reqs) == 0 {
		return evid.Outcome{Skip: true}
	}
	h := newHandler(&c.world)
	n := len(c.Reqs)
	bodies := make([][]byte, n)
	seqStatus := make([]int, n)
	seqAns := make([][]byte, n)
	for i := range c.Reqs {
		bodies[i] = bodyOf(c.dev(&c.Reqs[i]), &c.Reqs[i])
		seqStatus[i], seqAns[i] = serve(h, bodies[i])
	}
	rejoin, neg := 0, 0
	for round := 0; round < raceRounds; round++ {
		conStatus := make([]int, n)
		conAns := make([][]byte, n)
		panics := make([]any, n)
		var start, done sync.WaitGroup
		start.Add(1)
		done.Add(n)
		for i := 0; i < n; i++ {
			go func(i int) {
				defer done.Done()
				defer func() { panics[i] = recover() }()
				start.Wait()
				conStatus[i], conAns[i] = serve(h, bodies[i])
			}(i)
		}
		start.Done()
		done.Wait()
		for i := 0; i < n; i++ {
			if panics[i] != nil {
				return evid.Fail("request %d of %d (%s) panics when served concurrently: %v", i, n, bodies[i], panics[i])
			}
			if conStatus[i] != seqStatus[i] || !bytes.Equal(conAns[i], seqAns[i]) {
				return evid.Fail("request %d of %d (%s): served concurrently with the others the answer is (%d) %s, served alone it is (%d) %s",
					i, n, bodies[i], conStatus[i], conAns[i], seqStatus[i], seqAns[i])
			}
		}
		if round > 0 {
			continue
		}
		for i := range c.Reqs {
			rq := &c.Reqs[i]
			if v := judge(&c.world, rq, conStatus[i], conAns[i], true); v.viol != "" {
				return evid.Fail("concurrent batch of %d, request %d: %s", n, i, v.viol)
			}
			if rq.Flow != flowJoin && rq.Flow != flowHomeNS {
				rejoin++
			}
			if rq.Neg != negNone || !c.dev(rq).Known {
				neg++
			}
		}
	}
	nb := "n2-4"
	if n > 8 {
		nb = "n9-16"
	} else if n > 4 {
		nb = "n5-8"
	}
	return evid.Outcome{NonTrivial: true, Class: fmt.Sprintf("%s/rejoin=%v/negative=%v", nb, rejoin > 0, neg > 0)}
}

func genBatch(t *rapid.T) batchCase {
	nDev := rapid.IntRange(1, 4).Draw(t, "ndev")
	nNet := rapid.IntRange(1, 3).Draw(t, "nnet")
	w, nets := genWorld(t, nDev, nNet)
	n := rapid.IntRange(2, 16).Draw(t, "n")
	c := batchCase{world: w}
	for i := 0; i < n; i++ {
		c.Reqs = append(c.Reqs, genRequest(t, &w, nets))
	}
	return c
}

const ruleRace = "rapid, binary built with -race: a handler configured with 1..4 devices, 1..3 NetIDs and a KEK table, and a batch of N = 2..16 requests drawn " +
	"by the generator of sub-check 'requests' (join 1.0/1.1, rejoin 0/1/2, HomeNSReq, flipped bit, wrong key, unknown device; several requests may address the same " +
	"device). Every request is first served alone, then all N are released at once from N goroutines through the same handler (3 rounds). Oracle: status and body " +
	"of every concurrent answer are byte-identical to the answer of the same request served alone, and the concurrent answers satisfy the device / NS model " +
	"(both rejoin key sets accepted here; K4 is accounted for by sub-check 'requests'); a data-race report of the detector makes the process exit with status 66. " +
	"Every batch is non-trivial."

func TestRace(t *testing.T) {
	r := evid.Begin(t, "C16")
	defer r.Finish()
	if err := ref.SelfTest(); err != nil {
		t.Fatal(err)
	}
	evid.Rapid(r, t, "race-batches", ruleRace, 300, 5000, genBatch, checkBatch)
}
