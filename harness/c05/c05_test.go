//go:build verif

// C05: end-to-end secure frame exchange recovers the content and rejects tampering.
package c05

import (
	"bytes"
	"fmt"
	"testing"

	"github.com/brocaar/lorawan"
	"pgregory.net/rapid"

	"verif/harness/internal/evid"
	"verif/harness/internal/gen"
	"verif/harness/internal/ref"
)

type e2eCase struct {
	F        ref.Frame `json:"frame"` // plaintext content
	V11      bool      `json:"v11"`
	ConfFCnt uint32    `json:"conffcnt"`
	TxDR     uint8     `json:"txdr"`
	TxCh     uint8     `json:"txch"`
	FNwk     evid.Hex  `json:"fnwksintkey"`
	SNwk     evid.Hex  `json:"snwksintkey"`
	NwkEnc   evid.Hex  `json:"nwksenckey"`
	AppS     evid.Hex  `json:"appskey"`
	Flips    []int     `json:"flips"` // bit positions (taken modulo the frame length in bits); -1: all positions
	Params   []pert    `json:"params"`
}

type pert struct {
	Kind string `json:"kind"`
	A    int    `json:"a"`
}

func toKey(h evid.Hex) (k ref.Key) { copy(k[:], h); return }

func ver(v11 bool) lorawan.MACVersion {
	if v11 {
		return lorawan.LoRaWAN1_1
	}
	return lorawan.LoRaWAN1_0
}

// frmKey: port 0 payloads are encrypted with the network key (NwkSEncKey, 1.0: NwkSKey), others with AppSKey.
func (c *e2eCase) frmKey() ref.Key {
	if c.F.FPort == 0 {
		return toKey(c.NwkEnc)
	}
	return toKey(c.AppS)
}

func (c *e2eCase) micParams() ref.MICParams {
	return ref.MICParams{V11: c.V11, Uplink: ref.IsUplinkMType(c.F.MType), ACK: c.F.ACK, DevAddr: c.F.DevAddr, FCnt: c.F.FCnt,
		ConfFCnt: c.ConfFCnt, TxDR: c.TxDR, TxCh: c.TxCh, FNwkSInt: toKey(c.FNwk), SNwkSInt: toKey(c.SNwk)}
}

// refSender builds the frame on the air with the reference models only.
func refSender(c *e2eCase) []byte {
	up := ref.IsUplinkMType(c.F.MType)
	w := c.F
	if c.V11 && len(w.FOpts) > 0 {
		w.FOpts = ref.FOptsStream(toKey(c.NwkEnc), !up && w.FPort > 0, up, w.DevAddr, w.FCnt, w.FOpts)
	}
	if len(w.FRM) > 0 {
		w.FRM = ref.Keystream(c.frmKey(), up, w.DevAddr, w.FCnt, w.FRM)
	}
	w.MIC = ref.DataMIC(c.micParams(), w.Msg())
	return w.Encode()
}

func libSender(c *e2eCase) ([]byte, error) { return libSenderOpt(c, false, nil) }

// libSenderOpt: emptyNonNil gives absent FOpts / FRMPayload as empty non-nil slices; share (application payload
// frames only) makes the frame reference the application's own payload object instead of a private copy.
func libSenderOpt(c *e2eCase, emptyNonNil bool, share *lorawan.DataPayload) ([]byte, error) {
	up := ref.IsUplinkMType(c.F.MType)
	p, err := gen.ToLibOpt(&c.F, true, emptyNonNil)
	if err != nil {
		return nil, err
	}
	if share != nil {
		p.MACPayload.(*lorawan.MACPayload).FRMPayload = []lorawan.Payload{share}
	}
	if err := p.EncryptFRMPayload(gen.LibKey(c.frmKey())); err != nil {
		return nil, fmt.Errorf("EncryptFRMPayload: %v", err)
	}
	if c.V11 {
		if err := p.EncryptFOpts(gen.LibKey(toKey(c.NwkEnc))); err != nil {
			return nil, fmt.Errorf("EncryptFOpts: %v", err)
		}
	}
	if up {
		err = p.SetUplinkDataMIC(ver(c.V11), c.ConfFCnt, c.TxDR, c.TxCh, gen.LibKey(toKey(c.FNwk)), gen.LibKey(toKey(c.SNwk)))
	} else {
		err = p.SetDownlinkDataMIC(ver(c.V11), c.ConfFCnt, gen.LibKey(toKey(c.SNwk)))
	}
	if err != nil {
		return nil, fmt.Errorf("Set*DataMIC: %v", err)
	}
	return p.MarshalBinary()
}

// libValidate: receiver side up to the MIC verdict. ok=false with err!=nil means "rejected by decoding/validation error".
func libValidate(c *e2eCase, air []byte) (*lorawan.PHYPayload, bool, error) {
	return libValidateDir(c, air, ref.IsUplinkMType(c.F.MType))
}

// libValidateDir: the receiver validates with the function for the direction it expects (asUplink).
func libValidateDir(c *e2eCase, air []byte, asUplink bool) (*lorawan.PHYPayload, bool, error) {
	// half of the frames are received in a loop: one variable, the decoded value kept by value, the variable decodes the next frame
	q, err := gen.Receive(air, len(air) > 0 && air[len(air)-1]&1 == 1)
	if err != nil {
		return nil, false, err
	}
	m, ok := q.MACPayload.(*lorawan.MACPayload)
	if !ok {
		return nil, false, fmt.Errorf("not a data frame")
	}
	// the receiver knows the upper 16 bits of the counter
	m.FHDR.FCnt = c.F.FCnt&0xffff0000 | m.FHDR.FCnt&0xffff
	var valid bool
	if asUplink {
		valid, err = q.ValidateUplinkDataMIC(ver(c.V11), c.ConfFCnt, c.TxDR, c.TxCh, gen.LibKey(toKey(c.FNwk)), gen.LibKey(toKey(c.SNwk)))
	} else {
		valid, err = q.ValidateDownlinkDataMIC(ver(c.V11), c.ConfFCnt, gen.LibKey(toKey(c.SNwk)))
	}
	return &q, valid, err
}

// specMICMatches: does the specification MIC of what the receiver sees equal the received MIC bytes?
func specMICMatches(c *e2eCase, air []byte) bool {
	g, err := ref.DecodeFrame(air, false)
	if err != nil || !ref.IsData(g.MType) {
		return false
	}
	p := c.micParams() // receiver's role (direction), keys, counters
	p.DevAddr, p.ACK = g.DevAddr, g.ACK
	p.FCnt = c.F.FCnt&0xffff0000 | g.FCnt&0xffff
	return ref.DataMIC(p, air[:len(air)-4]) == g.MIC
}

func genCase(t *rapid.T) e2eCase {
	c := e2eCase{F: *gen.DataFrame(t, gen.DataMType(t), gen.DataOpts{MaxTotal: 255, PropCIDs: true})}
	c.F.MIC = [4]byte{}
	c.V11 = rapid.Bool().Draw(t, "v11")
	c.ConfFCnt = gen.U32(t, "conffcnt")
	c.TxDR, c.TxCh = rapid.Byte().Draw(t, "txdr"), rapid.Byte().Draw(t, "txch")
	for _, dst := range []*evid.Hex{&c.FNwk, &c.SNwk, &c.NwkEnc, &c.AppS} {
		k := gen.Key(t, "key")
		*dst = k[:]
	}
	n := rapid.IntRange(24, 64).Draw(t, "nflips")
	for i := 0; i < n; i++ {
		c.Flips = append(c.Flips, rapid.IntRange(0, 8*300-1).Draw(t, "flip"))
	}
	np := rapid.IntRange(2, 6).Draw(t, "nparams")
	for i := 0; i < np; i++ {
		c.Params = append(c.Params, pert{Kind: rapid.SampledFrom([]string{"fnwk", "snwk", "fcnt+64k", "fcnt-64k", "conf", "txdr", "txch", "version"}).Draw(t, "kind"), A: rapid.IntRange(0, 127).Draw(t, "a")})
	}
	return c
}

// run is set by TestProp; the check asks it whether known finding K6 is active.
var run *evid.Run

func checkCase(c e2eCase) evid.Outcome { return checkE2E(c, false) }

func checkE2E(c e2eCase, allBits bool) evid.Outcome {
	excluded := map[string]int{}
	up := ref.IsUplinkMType(c.F.MType)
	air, err := libSender(&c)
	if err != nil {
		return evid.Fail("sender pipeline fails on a valid frame: %v", err)
	}
	if want := refSender(&c); !bytes.Equal(air, want) {
		return evid.Fail("bytes on the air %x differ from an independent sender %x (uplink=%v v1.1=%v FPort=%d FOpts=%d bytes)", air, want, up, c.V11, c.F.FPort, len(c.F.FOpts))
	}
	// the same frame value with its empty lists written as empty non-nil slices
	if air2, err := libSenderOpt(&c, true, nil); err != nil || !bytes.Equal(air2, air) {
		return evid.Fail("sender pipeline with absent FOpts/FRMPayload given as empty non-nil slices: %x (err %v), expected %x", air2, err, air)
	}
	// one application payload object sent in two frames (two devices / a retransmission with the next counter)
	if c.F.FPort > 0 && len(c.F.FRM) > 0 {
		app := &lorawan.DataPayload{Bytes: append([]byte{}, c.F.FRM...)}
		d := c
		d.F.FCnt++
		first, err1 := libSenderOpt(&c, false, app)
		second, err2 := libSenderOpt(&d, false, app)
		if err1 != nil || err2 != nil || !bytes.Equal(first, air) || !bytes.Equal(second, refSender(&d)) {
			return evid.Fail("the same application payload object %x sent in two frames (FCnt %#x and %#x): first %x (err %v), second %x (err %v); an independent sender gives %x and %x", c.F.FRM, c.F.FCnt, d.F.FCnt, first, err1, second, err2, air, refSender(&d))
		}
	}
	// receiver
	q, valid, err := libValidate(&c, air)
	if err != nil || !valid {
		return evid.Fail("receiver with the same keys and counters rejects the frame (valid=%v err=%v)", valid, err)
	}
	if c.V11 {
		err = q.DecryptFOpts(gen.LibKey(toKey(c.NwkEnc)))
	} else {
		err = q.DecodeFOptsToMACCommands()
	}
	if err != nil {
		return evid.Fail("receiver FOpts step: %v", err)
	}
	if err := q.DecryptFRMPayload(gen.LibKey(c.frmKey())); err != nil {
		return evid.Fail("receiver DecryptFRMPayload: %v", err)
	}
	g, err := gen.FromLib(q)
	if err != nil {
		return evid.Fail("receiver content: %v", err)
	}
	if g.FPort != c.F.FPort || !bytes.Equal(g.FOpts, c.F.FOpts) || !bytes.Equal(g.FRM, c.F.FRM) || g.DevAddr != c.F.DevAddr || g.FCnt != c.F.FCnt || g.FCtrl() != c.F.FCtrl() || g.MType != c.F.MType {
		return evid.Fail("receiver obtains FOpts=%x FPort=%d FRMPayload=%x, sender sent FOpts=%x FPort=%d FRMPayload=%x", g.FOpts, g.FPort, g.FRM, c.F.FOpts, c.F.FPort, c.F.FRM)
	}
	// ... as the commands the sender put in, one by one (not only as bytes that re-encode to the same)
	if rm, ok := q.MACPayload.(*lorawan.MACPayload); ok {
		if err := gen.CmdsMatch(up, rm.FHDR.FOpts, c.F.FOpts, "the receiver's FOpts"); err != nil {
			return evid.Fail("%v", err)
		}
		if c.F.FPort == 0 && len(c.F.FRM) > 0 {
			if err := gen.CmdsMatch(up, rm.FRMPayload, c.F.FRM, "the receiver's port-0 FRMPayload"); err != nil {
				return evid.Fail("%v", err)
			}
		}
	}
	m := q.MACPayload.(*lorawan.MACPayload)
	if len(c.F.FOpts) > 0 {
		if _, ok := m.FHDR.FOpts[0].(*lorawan.MACCommand); !ok {
			return evid.Fail("receiver FOpts not decoded into MAC commands: %T", m.FHDR.FOpts[0])
		}
	}
	if c.F.FPort == 0 && len(c.F.FRM) > 0 {
		if _, ok := m.FRMPayload[0].(*lorawan.MACCommand); !ok {
			return evid.Fail("receiver port-0 payload not decoded into MAC commands: %T", m.FRMPayload[0])
		}
	}
	// tampering: single-bit corruptions of the serialised frame
	nbits := 8 * len(air)
	var positions []int
	if allBits {
		for i := 0; i < nbits; i++ {
			positions = append(positions, i)
		}
	} else {
		positions = append(positions, 0, 1, 2, 3, 4, 5, 6, 7) // MHDR
		for _, f := range c.Flips {
			positions = append(positions, f%nbits)
		}
	}
	for _, pos := range positions {
		bad := append([]byte{}, air...)
		bad[pos/8] ^= 1 << uint(pos%8)
		if specMICMatches(&c, bad) {
			continue // (2^-32 event) the corrupted frame happens to carry its own specification MIC
		}
		_, valid, err := libValidate(&c, bad)
		if err == nil && valid {
			o := evid.Fail("flipping bit %d of byte %d of the frame on the air (%x) is not detected: MIC validation still succeeds", pos%8, pos/8, air)
			if pos/8 == 0 && pos%8 >= 2 && pos%8 <= 4 {
				if run != nil && run.KnownActive("K6") {
					excluded["K6"]++ // known finding: counted, the remaining positions are still checked
					continue
				}
				o.Known = "K6"
			}
			return o
		}
	}
	// direction mismatch: a receiver that expects the other direction (same keys and counters; with one network key as in
	// 1.0) must reject the frame whenever the specification MIC for that direction differs from the received one
	{
		d := c
		d.FNwk = c.SNwk // one key for both directions: the hardest case
		air2, err := libSender(&d)
		if err == nil {
			g, _ := ref.DecodeFrame(air2, false)
			p := d.micParams()
			p.Uplink = !up
			p.DevAddr, p.ACK, p.FCnt = g.DevAddr, g.ACK, d.F.FCnt
			exp := ref.DataMIC(p, air2[:len(air2)-4]) == g.MIC
			_, valid, verr := libValidateDir(&d, air2, !up)
			if verr == nil && valid != exp {
				return evid.Fail("a receiver that validates the %s frame %x as a %s (same key %x, same counters) answers valid=%v, but the specification MIC for that direction %s", map[bool]string{true: "uplink", false: "downlink"}[up], air2, map[bool]string{true: "downlink", false: "uplink"}[up], []byte(d.SNwk), valid,
					map[bool]string{true: "equals the received MIC", false: "differs from the received MIC"}[exp])
			}
		}
	}
	// single-parameter mismatches on the receiver side
	for _, p := range c.Params {
		d := c
		switch p.Kind {
		case "fnwk":
			d.FNwk = append(evid.Hex{}, c.FNwk...)
			d.FNwk[p.A/8%16] ^= 1 << uint(p.A%8)
		case "snwk":
			d.SNwk = append(evid.Hex{}, c.SNwk...)
			d.SNwk[p.A/8%16] ^= 1 << uint(p.A%8)
		case "fcnt+64k":
			d.F.FCnt += 1 << 16
		case "fcnt-64k":
			d.F.FCnt -= 1 << 16
		case "conf":
			d.ConfFCnt ^= 1 << uint(p.A%32)
		case "txdr":
			d.TxDR ^= 1 << uint(p.A%8)
		case "txch":
			d.TxCh ^= 1 << uint(p.A%8)
		case "version":
			d.V11 = !d.V11
		}
		exp := specMICMatches(&d, air)
		_, valid, err := libValidate(&d, air)
		if err != nil {
			return evid.Fail("receiver errors with mismatching %s: %v", p.Kind, err)
		}
		if valid != exp {
			return evid.Fail("receiver whose %s differs (%+v) answers valid=%v, but the specification MIC for its parameters %s (uplink=%v v1.1=%v ACK=%v)", p.Kind, p, valid,
				map[bool]string{true: "equals the received MIC", false: "differs from the received MIC"}[exp], up, c.V11, c.F.ACK)
		}
	}
	nt := c.V11 && len(c.F.FOpts) > 0 && len(c.F.FRM) > 0
	cls := fmt.Sprintf("up=%v/v11=%v/fopts=%v/port=%s", up, c.V11, len(c.F.FOpts) > 0, map[bool]string{true: "0"}[c.F.FPort == 0]+map[bool]string{true: "absent"}[c.F.FPort < 0]+map[bool]string{true: "app"}[c.F.FPort > 0])
	return evid.Outcome{NonTrivial: nt, Class: cls, Excluded: excluded}
}

func TestProp(t *testing.T) {
	if err := ref.SelfTest(); err != nil {
		t.Fatal(err)
	}
	r := evid.Begin(t, "C05")
	defer r.Finish()
	run = r
	rule := "rapid: valid data frames (commands in FOpts, commands on port 0, or application bytes; both directions; <= 255 bytes) x MAC version x four distinct random keys x counters. History: sender EncryptFRMPayload -> [1.1] EncryptFOpts -> Set*DataMIC -> MarshalBinary | receiver UnmarshalBinary -> set 32-bit FCnt -> Validate*DataMIC -> [1.1] DecryptFOpts / [1.0] DecodeFOptsToMACCommands -> DecryptFRMPayload. Oracles: (a) receiver obtains exactly the original commands and payload; (b) bytes on the air == an independent sender built from the wire model, keystream and CMAC models; (c) single-bit flips of the serialised frame and single-parameter mismatches (keys, FCnt +-2^16, ConfFCnt, txDR, txCh, version, and the receiver validating for the opposite direction with one shared key): validation must fail whenever the specification MIC of what the receiver sees differs from the received MIC. Known finding K6 (flips of MHDR bits 2..4) is excluded by position and counted. Non-trivial: 1.1 frame with FOpts and FRMPayload."
	evid.Rapid(r, t, "exchange-sampled-flips", rule+" Flip positions: the 8 MHDR bits + 24..64 drawn positions per frame.", 40000, 1200000, genCase, checkCase)
	evid.Rapid(r, t, "exchange-all-flips", rule+" Flip positions: every bit of the frame.", 2400, 100000, genCase, func(c e2eCase) evid.Outcome { return checkE2E(c, true) })
}
