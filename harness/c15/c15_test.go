//go:build verif

// C15: channel-plan state machine (AddChannel / Disable / Enable against a model),
// CFList contents, and encodability of everything a band hands out by the MAC layer.
package c15

import (
	"bytes"
	"fmt"
	"math"
	"reflect"
	"strings"
	"testing"
	"time"
	"verif/harness/internal/ref"

	"github.com/brocaar/lorawan"
	"github.com/brocaar/lorawan/band"
	"pgregory.net/rapid"

	"verif/harness/internal/evid"
)

// ---------------------------------------------------------------- the case

// Op: add = AddChannel(F, A, B); disable = DisableUplinkChannelIndex(A); enable = EnableUplinkChannelIndex(A).
// After every op its integer arguments are also used as probe indices for the index-taking getters.
type Op struct {
	Op string `json:"op"`
	F  uint32 `json:"f,omitempty"`
	A  int    `json:"a"`
	B  int    `json:"b,omitempty"`
}

type Case struct {
	Band     string `json:"band"`
	Repeater bool   `json:"repeater"`
	Dwell    int    `json:"dwell"`
	Ops      []Op   `json:"ops"`
	DevAddr  uint32 `json:"devaddr"`  // for GetPingSlotFrequency
	BeaconS  uint32 `json:"beacon_s"` // beacon time in seconds (non-negative)
}

var allBands = []string{"EU868", "US915", "CN779", "EU433", "AU915", "CN470", "AS923", "AS923-2", "AS923-3", "AS923-4", "KR920", "IN865", "RU864", "ISM2400"}

// default number of uplink / downlink channels and the first default frequency (Regional Parameters; DESIGN appendix C)
type bandFacts struct {
	up, down int
	f0       uint32
	dynamic  bool // NewChannelReq / CFList channel plans: AddChannel is supported
}

var facts = map[string]bandFacts{
	"EU868": {3, 3, 868100000, true}, "US915": {72, 8, 902300000, false}, "CN779": {3, 3, 779500000, true},
	"EU433": {3, 3, 433175000, true}, "AU915": {72, 8, 915200000, false}, "CN470": {96, 48, 470300000, false},
	"AS923": {2, 2, 923200000, true}, "AS923-2": {2, 2, 921400000, true}, "AS923-3": {2, 2, 916600000, true},
	"AS923-4": {2, 2, 917300000, true}, "KR920": {3, 3, 922100000, true}, "IN865": {3, 3, 865062500, true},
	"RU864": {2, 2, 868900000, true}, "ISM2400": {3, 3, 2403000000, true},
}

var versions = []string{band.LoRaWAN_1_0_0, band.LoRaWAN_1_0_1, band.LoRaWAN_1_0_2, band.LoRaWAN_1_0_3, band.LoRaWAN_1_0_4, band.LoRaWAN_1_1_0}

// ---------------------------------------------------------------- model

type chRec struct {
	freq         uint32
	minDR, maxDR int
	enabled      bool
	custom       bool
	validInput   bool // standard channel, or added with a frequency the MAC layer is specified to carry
}

type model struct {
	name string
	dyn  bool
	up   []chRec
	down []chRec
}

// validFreq: frequencies a caller may legitimately configure. Sub-GHz plans: a multiple of 100 Hz between 100 MHz
// and 1 GHz; ISM2400: a multiple of 200 Hz in 2.4-2.5 GHz; 0 (= "channel not used") everywhere.
func validFreq(name string, f uint32) bool {
	if f == 0 {
		return true
	}
	if name == "ISM2400" {
		return f >= 2400000000 && f <= 2500000000 && f%200 == 0
	}
	return f >= 100000000 && f <= 1000000000 && f%100 == 0
}

func try(f func()) (p any) {
	defer func() {
		if r := recover(); r != nil {
			p = r
		}
	}()
	f()
	return nil
}

type checker struct {
	c    Case
	b    band.Band
	m    *model
	tx   []int // TX power offsets of the fresh band
	cfLo int
	cfHi int
	step int // -1: fresh band
	k3   string
	// statistics
	addOK, disables, invalid int
	shadowed, zeroCF         int
	invalidInput             int
	blocks, ranges           int
}

func (k *checker) where() string {
	if k.step < 0 {
		return fmt.Sprintf("%s (fresh)", k.c.Band)
	}
	return fmt.Sprintf("%s after ops %v", k.c.Band, k.c.Ops[:k.step+1])
}

func sameInts(a, b []int) bool {
	if len(a) != len(b) {
		return false
	}
	for i := range a {
		if a[i] != b[i] {
			return false
		}
	}
	return true
}

// ---------------------------------------------------------------- invariants of one state

// checkState: all invariants of the current state. Lookups are checked for every channel when the channel table
// changed (full) or the plan is small, otherwise for the channels the step touched.
func (k *checker) checkState(full, tableChanged bool, touched ...int) string {
	b, m := k.b, k.m
	n := len(m.up)
	var all, std, cus, en, dis []int
	for i, c := range m.up {
		all = append(all, i)
		if c.custom {
			cus = append(cus, i)
		} else {
			std = append(std, i)
		}
		if c.enabled {
			en = append(en, i)
		} else {
			dis = append(dis, i)
		}
	}
	gAll, gStd, gCus, gEn, gDis := b.GetUplinkChannelIndices(), b.GetStandardUplinkChannelIndices(), b.GetCustomUplinkChannelIndices(), b.GetEnabledUplinkChannelIndices(), b.GetDisabledUplinkChannelIndices()
	// partitions, stated on the getters alone
	if msg := partition(gAll, gEn, gDis); msg != "" {
		return fmt.Sprintf("%s: enabled %v and disabled %v do not partition all channels %v: %s", k.where(), gEn, gDis, gAll, msg)
	}
	if msg := partition(gAll, gStd, gCus); msg != "" {
		return fmt.Sprintf("%s: standard %v and custom %v do not partition all channels %v: %s", k.where(), gStd, gCus, gAll, msg)
	}
	for _, p := range []struct {
		what      string
		got, want []int
	}{{"GetUplinkChannelIndices", gAll, all}, {"GetStandardUplinkChannelIndices", gStd, std}, {"GetCustomUplinkChannelIndices", gCus, cus},
		{"GetEnabledUplinkChannelIndices", gEn, en}, {"GetDisabledUplinkChannelIndices", gDis, dis}} {
		if !sameInts(p.got, p.want) {
			return fmt.Sprintf("%s: %s = %v, the history implies %v", k.where(), p.what, p.got, p.want)
		}
	}
	// every channel record, through the getters and the snapshot hook
	// (the hook deep-copies every table of the band: taken when the channel table changed and on full steps; the
	// enabled / custom flags are compared through the index-set getters above on every step)
	useSnap := full || tableChanged
	var snap band.VerifBandSnapshot
	if useSnap {
		var ok bool
		if snap, ok = band.VerifSnapshot(b); !ok {
			return "no snapshot for " + k.c.Band
		}
	}
	if useSnap && (len(snap.UplinkChannels) != n || len(snap.DownlinkChannels) != len(m.down)) {
		return fmt.Sprintf("%s: %d uplink / %d downlink channels, the history implies %d / %d", k.where(), len(snap.UplinkChannels), len(snap.DownlinkChannels), n, len(m.down))
	}
	for i, c := range m.up {
		g, err := b.GetUplinkChannel(i)
		if err != nil {
			return fmt.Sprintf("%s: GetUplinkChannel(%d) of %d channels: %v", k.where(), i, n, err)
		}
		s := band.VerifChannel{Channel: g, Enabled: c.enabled, Custom: c.custom}
		if useSnap {
			s = snap.UplinkChannels[i]
		}
		if g.Frequency != c.freq || g.MinDR != c.minDR || g.MaxDR != c.maxDR || s.Frequency != c.freq || s.MinDR != c.minDR || s.MaxDR != c.maxDR || s.Enabled != c.enabled || s.Custom != c.custom {
			kind := "custom"
			if !c.custom {
				kind = "standard"
			}
			return fmt.Sprintf("%s: %s uplink channel %d is {f %d DR %d..%d enabled %v custom %v}, the history implies {f %d DR %d..%d enabled %v custom %v}", k.where(), kind, i,
				g.Frequency, g.MinDR, g.MaxDR, s.Enabled, s.Custom, c.freq, c.minDR, c.maxDR, c.enabled, c.custom)
		}
	}
	for j, c := range m.down {
		g, err := b.GetDownlinkChannel(j)
		if err != nil {
			return fmt.Sprintf("%s: GetDownlinkChannel(%d) of %d channels: %v", k.where(), j, len(m.down), err)
		}
		s := band.VerifChannel{Channel: g, Enabled: c.enabled, Custom: c.custom}
		if useSnap {
			s = snap.DownlinkChannels[j]
		}
		if g.Frequency != c.freq || g.MinDR != c.minDR || g.MaxDR != c.maxDR || s.Custom != c.custom || s.Enabled != c.enabled {
			return fmt.Sprintf("%s: downlink channel %d is {f %d DR %d..%d enabled %v custom %v}, the history implies {f %d DR %d..%d enabled %v custom %v}", k.where(), j,
				g.Frequency, g.MinDR, g.MaxDR, s.Enabled, s.Custom, c.freq, c.minDR, c.maxDR, c.enabled, c.custom)
		}
	}
	// invalid indices just outside the tables
	if v := k.probe(n); v != "" {
		return v
	}
	if full {
		if v := k.probe(n + 1); v != "" {
			return v
		}
	}
	if v := k.checkLookups(full, touched); v != "" {
		return v
	}
	// GetEnabledUplinkDataRates loops MinDR..MaxDR: only callable while every range is small (DESIGN §C15 soundness)
	small := true
	for _, c := range m.up {
		if c.minDR < -1000 || c.maxDR > 1000 || c.minDR > 1000 || c.maxDR < -1000 || c.maxDR-c.minDR > 64 {
			small = false
		}
	}
	if small {
		// judged for data-rate indices that can exist (0..15) only: what the list does with the negative or huge bounds a
		// caller may have passed to AddChannel, and the order of the list, are nobody's promise
		drs := b.GetEnabledUplinkDataRates()
		have := map[int]bool{}
		for _, d := range drs {
			have[d] = true
		}
		anyCh := map[int]bool{}
		for _, c := range m.up {
			for d := max(c.minDR, 0); d <= min(c.maxDR, 15); d++ {
				anyCh[d] = true
				if c.enabled && !have[d] {
					return fmt.Sprintf("%s: GetEnabledUplinkDataRates = %v lacks DR %d of an enabled channel", k.where(), drs, d)
				}
			}
		}
		for _, d := range drs {
			if d >= 0 && d <= 15 && !anyCh[d] {
				return fmt.Sprintf("%s: GetEnabledUplinkDataRates = %v contains DR %d which no channel has", k.where(), drs, d)
			}
		}
	}
	if v := k.checkCFList(); v != "" {
		return v
	}
	if v := k.checkPlannerEncodable(full); v != "" {
		return v
	}
	return k.checkCommandBlock()
}

func partition(all, a, b []int) string {
	if len(all) == 0 {
		if len(a)+len(b) > 0 {
			return "members without any channel"
		}
		return ""
	}
	lo, hi := all[0], all[0]
	for _, x := range all {
		lo, hi = min(lo, x), max(hi, x)
	}
	if hi-lo >= 1<<16 {
		return "index range too wide"
	}
	cnt := make([]int, hi-lo+1)
	for _, l := range [][]int{a, b} {
		for _, x := range l {
			if x < lo || x > hi {
				return fmt.Sprintf("channel %d is not among all channels", x)
			}
			cnt[x-lo]++
		}
	}
	isAll := make([]bool, hi-lo+1)
	for _, x := range all {
		isAll[x-lo] = true
		if cnt[x-lo] != 1 {
			return fmt.Sprintf("channel %d occurs %d times", x, cnt[x-lo])
		}
	}
	for i, c := range cnt {
		if c > 0 && !isAll[i] {
			return fmt.Sprintf("channel %d is not among all channels", lo+i)
		}
	}
	return ""
}

// probe: the index-taking getters with an arbitrary int; a valid index gives the model's value, an invalid one an
// error; neither may panic.
func (k *checker) probe(x int) string {
	b, m := k.b, k.m
	type res struct {
		ch  band.Channel
		err error
	}
	call := func(name string, n int, f func() res, want func() (uint32, int, int)) string {
		var r res
		if p := try(func() { r = f() }); p != nil {
			return fmt.Sprintf("%s: %s(%d) panics (%v); the table has %d entries and an invalid index must be reported as an error", k.where(), name, x, p, n)
		}
		valid := x >= 0 && x < n
		if !valid {
			if r.err == nil {
				return fmt.Sprintf("%s: %s(%d) returns no error although the table has %d entries", k.where(), name, x, n)
			}
			return ""
		}
		if r.err != nil {
			return fmt.Sprintf("%s: %s(%d) of %d entries: %v", k.where(), name, x, n, r.err)
		}
		f0, a, c := want()
		if r.ch.Frequency != f0 || r.ch.MinDR != a || r.ch.MaxDR != c {
			return fmt.Sprintf("%s: %s(%d) = %+v, the history implies f %d DR %d..%d", k.where(), name, x, r.ch, f0, a, c)
		}
		return ""
	}
	if v := call("GetUplinkChannel", len(m.up), func() res { c, e := b.GetUplinkChannel(x); return res{ch: c, err: e} },
		func() (uint32, int, int) { return m.up[x].freq, m.up[x].minDR, m.up[x].maxDR }); v != "" {
		return v
	}
	if v := call("GetDownlinkChannel", len(m.down), func() res { c, e := b.GetDownlinkChannel(x); return res{ch: c, err: e} },
		func() (uint32, int, int) { return m.down[x].freq, m.down[x].minDR, m.down[x].maxDR }); v != "" {
		return v
	}
	// TX power offsets and RX1 offsets: value tables that no channel operation may touch
	var off int
	var err error
	if p := try(func() { off, err = b.GetTXPowerOffset(x) }); p != nil {
		return fmt.Sprintf("%s: GetTXPowerOffset(%d) panics (%v); the table has %d entries and an invalid index must be reported as an error", k.where(), x, p, len(k.tx))
	}
	if x >= 0 && x < len(k.tx) {
		if err != nil || off != k.tx[x] {
			return fmt.Sprintf("%s: GetTXPowerOffset(%d) = %d, %v; the fresh band has %d", k.where(), x, off, err, k.tx[x])
		}
	} else if err == nil {
		return fmt.Sprintf("%s: GetTXPowerOffset(%d) returns no error although the table has %d entries", k.where(), x, len(k.tx))
	}
	// RX1 data-rate offsets are a 3-bit field: a negative or > 7 offset is invalid for every band (the values for
	// valid offsets are C12's subject)
	if p := try(func() { _, err = b.GetRX1DataRateIndex(0, x) }); p != nil {
		return fmt.Sprintf("%s: GetRX1DataRateIndex(0, %d) panics (%v); an invalid offset must be reported as an error", k.where(), x, p)
	}
	if (x < 0 || x > 7) && err == nil {
		return fmt.Sprintf("%s: GetRX1DataRateIndex(0, %d) returns no error for an offset outside 0..7", k.where(), x)
	}
	return ""
}

// lookups by frequency and by frequency + data-rate
func (k *checker) checkLookups(full bool, touched []int) string {
	b, m := k.b, k.m
	n := len(m.up)
	sel := m.up
	if !full {
		sel = nil
		for _, i := range touched {
			if i >= 0 && i < n {
				sel = append(sel, m.up[i])
			}
		}
	}
	freqs := map[uint32]bool{}
	for _, c := range m.up {
		freqs[c.freq] = true
	}
	var order []uint32
	inOrder := map[uint32]bool{}
	for _, c := range sel {
		if !inOrder[c.freq] {
			inOrder[c.freq] = true
			order = append(order, c.freq)
		}
	}
	for _, f := range order {
		for _, def := range []bool{true, false} {
			exists := false
			for _, c := range m.up {
				if c.freq == f && c.custom != def {
					exists = true
				}
			}
			i, err := b.GetUplinkChannelIndex(f, def)
			if exists {
				if err != nil {
					return fmt.Sprintf("%s: GetUplinkChannelIndex(%d, default=%v): %v, although such a channel exists", k.where(), f, def, err)
				}
				if i < 0 || i >= n || m.up[i].freq != f || m.up[i].custom == def {
					return fmt.Sprintf("%s: GetUplinkChannelIndex(%d, default=%v) = %d, which is not a channel with that frequency and kind", k.where(), f, def, i)
				}
			} else if err == nil {
				return fmt.Sprintf("%s: GetUplinkChannelIndex(%d, default=%v) = %d without error, no such channel exists", k.where(), f, def, i)
			}
		}
		// a frequency no channel has
		g := f + 1
		if !freqs[g] {
			if i, err := b.GetUplinkChannelIndex(g, true); err == nil {
				return fmt.Sprintf("%s: GetUplinkChannelIndex(%d, true) = %d without error, no channel has that frequency", k.where(), g, i)
			}
			if i, err := b.GetUplinkChannelIndexForFrequencyDR(g, 0); err == nil {
				return fmt.Sprintf("%s: GetUplinkChannelIndexForFrequencyDR(%d, 0) = %d without error, no channel has that frequency", k.where(), g, i)
			}
		}
	}
	for _, c := range sel {
		drs := []int{c.minDR, c.maxDR}
		if c.minDR > math.MinInt {
			drs = append(drs, c.minDR-1)
		}
		if c.maxDR < math.MaxInt {
			drs = append(drs, c.maxDR+1)
		}
		for _, dr := range drs {
			matches := func(r chRec) bool { return r.freq == c.freq && r.minDR <= dr && dr <= r.maxDR }
			exists, reachable := false, false
			firstDef, firstCus := -1, -1
			for i, r := range m.up {
				if r.freq != c.freq {
					continue
				}
				if matches(r) {
					exists = true
				}
				if !r.custom && firstDef < 0 {
					firstDef = i
				}
				if r.custom && firstCus < 0 {
					firstCus = i
				}
			}
			// the documented design: one default and one custom channel may share a frequency
			if firstDef >= 0 && matches(m.up[firstDef]) || firstCus >= 0 && matches(m.up[firstCus]) {
				reachable = true
			}
			i, err := b.GetUplinkChannelIndexForFrequencyDR(c.freq, dr)
			if err == nil {
				if i < 0 || i >= n || !matches(m.up[i]) {
					return fmt.Sprintf("%s: GetUplinkChannelIndexForFrequencyDR(%d, %d) = %d, which is not a channel with that frequency covering that data-rate", k.where(), c.freq, dr, i)
				}
				continue
			}
			if reachable {
				return fmt.Sprintf("%s: GetUplinkChannelIndexForFrequencyDR(%d, %d): %v, although a channel with that frequency covers that data-rate", k.where(), c.freq, dr, err)
			}
			if exists {
				k.shadowed++ // a second custom channel on the same frequency: not a documented contract, counted
			}
		}
	}
	return ""
}

// ---------------------------------------------------------------- CFList

func trimMasks(ms []lorawan.ChMask) []lorawan.ChMask {
	var zero lorawan.ChMask
	for len(ms) > 0 && ms[len(ms)-1] == zero {
		ms = ms[:len(ms)-1]
	}
	return ms
}

func (k *checker) checkCFList() string {
	b, m := k.b, k.m
	var judged *lorawan.CFList // an answer that already passed for another version in this state
	for _, ver := range versions {
		cf := b.GetCFList(ver)
		if cf != nil && judged != nil && reflect.DeepEqual(cf, judged) {
			continue
		}
		if !m.dyn {
			if ver == band.LoRaWAN_1_0_0 || ver == band.LoRaWAN_1_0_1 || ver == band.LoRaWAN_1_0_2 {
				if cf != nil {
					return fmt.Sprintf("%s: GetCFList(%s) of a fixed channel plan = %+v, want nil (channel masks exist since 1.0.3)", k.where(), ver, cf)
				}
				continue
			}
			if cf == nil {
				return fmt.Sprintf("%s: GetCFList(%s) of a fixed channel plan is nil, want the channel masks", k.where(), ver)
			}
			pl, ok := cf.Payload.(*lorawan.CFListChannelMaskPayload)
			if !ok || cf.CFListType != lorawan.CFListChannelMask {
				return fmt.Sprintf("%s: GetCFList(%s) has type %d payload %T, want channel masks", k.where(), ver, cf.CFListType, cf.Payload)
			}
			want := make([]lorawan.ChMask, (len(m.up)+15)/16)
			for i, c := range m.up {
				want[i/16][i%16] = c.enabled
			}
			if !reflect.DeepEqual(pl.ChannelMasks, want) {
				return fmt.Sprintf("%s: GetCFList(%s) masks %v, the enabled channels give %v", k.where(), ver, masksHex(pl.ChannelMasks), masksHex(want))
			}
			if v := k.cfListRoundTrip(ver, cf, nil); v != "" {
				return v
			}
			judged = cf
			continue
		}
		// dynamic plan: the eligible channels
		var elig []chRec
		zero := false
		for _, c := range m.up {
			if c.custom && c.minDR == k.cfLo && c.maxDR == k.cfHi {
				elig = append(elig, c)
				if c.freq == 0 {
					zero = true
				}
			}
		}
		if zero {
			// A zero-frequency (unused) custom channel among the candidates. CFList slot i configures channel index
			// nDefault+i on the device and 0 means "slot unused", so the list is positional: the first five candidates as
			// they are, zeros included. The library's early-out (nil when the first slot is 0) is tolerated.
			k.zeroCF++
			var want [5]uint32
			for i := 0; i < len(elig) && i < 5; i++ {
				want[i] = elig[i].freq
			}
			if cf == nil {
				if want[0] == 0 {
					continue
				}
				return fmt.Sprintf("%s: GetCFList(%s) is nil; the custom channels with DR %d..%d are, in order, %v: want the first five positionally", k.where(), ver, k.cfLo, k.cfHi, want)
			}
			pl, ok := cf.Payload.(*lorawan.CFListChannelPayload)
			if !ok || cf.CFListType != lorawan.CFListChannel {
				return fmt.Sprintf("%s: GetCFList(%s) has type %d payload %T, want a channel list", k.where(), ver, cf.CFListType, cf.Payload)
			}
			if pl.Channels != want {
				return fmt.Sprintf("%s: GetCFList(%s) = %v; the first five custom channels with DR %d..%d are, in order, %v (a zero frequency marks an unused slot and keeps its position: slot i configures channel index %d+i on the device)", k.where(), ver, pl.Channels, k.cfLo, k.cfHi, want, len(m.up)-len(elig))
			}
			continue
		}
		var list []uint32
		if cf != nil {
			pl, ok := cf.Payload.(*lorawan.CFListChannelPayload)
			if !ok || cf.CFListType != lorawan.CFListChannel {
				return fmt.Sprintf("%s: GetCFList(%s) has type %d payload %T, want a channel list", k.where(), ver, cf.CFListType, cf.Payload)
			}
			end := false
			for _, f := range pl.Channels {
				if f == 0 {
					end = true
					continue
				}
				if end {
					return fmt.Sprintf("%s: GetCFList(%s) = %v has a gap", k.where(), ver, pl.Channels)
				}
				list = append(list, f)
			}
		}
		if len(elig) == 0 {
			if cf != nil {
				return fmt.Sprintf("%s: GetCFList(%s) = %+v although there is no custom channel with DR %d..%d, want nil", k.where(), ver, cf.Payload, k.cfLo, k.cfHi)
			}
			continue
		}
		// list must be the first five of some S with {enabled eligible} ⊆ S ⊆ {eligible}, in channel order
		memo := map[[2]int]bool{}
		var ok func(i, p int) bool
		ok = func(i, p int) bool {
			if p == 5 {
				return true
			}
			if i == len(elig) {
				return p == len(list)
			}
			key := [2]int{i, p}
			if r, seen := memo[key]; seen {
				return r
			}
			r := p < len(list) && list[p] == elig[i].freq && ok(i+1, p+1) || !elig[i].enabled && ok(i+1, p)
			memo[key] = r
			return r
		}
		if len(list) > 5 || !ok(0, 0) {
			var want []uint32
			for _, c := range elig {
				tag := c.freq
				want = append(want, tag)
			}
			return fmt.Sprintf("%s: GetCFList(%s) = %v; the custom channels with DR %d..%d are, in order, %v (enabled: %v): want their first five (disabled ones optional)", k.where(), ver, list, k.cfLo, k.cfHi, want, enabledFlags(elig))
		}
		if cf == nil {
			continue
		}
		inputsOK := true
		for _, c := range elig {
			if !c.validInput {
				inputsOK = false
			}
		}
		if !inputsOK {
			k.invalidInput++
			continue
		}
		if v := k.cfListRoundTrip(ver, cf, list); v != "" {
			return v
		}
		judged = cf
	}
	return ""
}

func enabledFlags(cs []chRec) []bool {
	var o []bool
	for _, c := range cs {
		o = append(o, c.enabled)
	}
	return o
}

func masksHex(ms []lorawan.ChMask) []string {
	var o []string
	for _, m := range ms {
		var v uint16
		for i, on := range m {
			if on {
				v |= 1 << uint(i)
			}
		}
		o = append(o, fmt.Sprintf("%04x", v))
	}
	return o
}

// isK3: the agreed known-finding class - ISM2400, one of the five 100-Hz-only encoders, a frequency that does not
// fit 24 bits of 100 Hz, refused with an error.
func (k *checker) isK3(encoder string, f uint32, err error) bool {
	switch encoder {
	case "CFListChannelPayload", "RXParamSetupReqPayload", "DLChannelReqPayload", "PingSlotChannelReqPayload", "BeaconFreqReqPayload":
	default:
		return false
	}
	return k.c.Band == "ISM2400" && f >= 1677721600 && err != nil
}

func (k *checker) noteK3(msg string) {
	if k.k3 == "" {
		k.k3 = msg
	}
}

// cfListRoundTrip: CFList -> bytes -> CFList, bare and inside a join-accept payload.
func (k *checker) cfListRoundTrip(ver string, cf *lorawan.CFList, freqs []uint32) string {
	bin, err := cf.MarshalBinary()
	if err != nil {
		var maxF uint32
		for _, f := range freqs {
			if f > maxF {
				maxF = f
			}
		}
		// a list the CFList encoder refuses cannot travel in a join-accept either: the join-accept encoder has to refuse it
		// too, not answer with a join-accept from which the list has silently gone
		jd := k.b.GetDefaults()
		ja := lorawan.JoinAcceptPayload{JoinNonce: 0x010203, HomeNetID: lorawan.NetID{1, 2, 3}, DevAddr: lorawan.DevAddr{4, 5, 6, 7},
			DLSettings: lorawan.DLSettings{RX2DataRate: uint8(jd.RX2DataRate) & 15, RX1DROffset: 1}, RXDelay: 1, CFList: cf}
		if jb, jerr := ja.MarshalBinary(); jerr == nil {
			return fmt.Sprintf("%s: the CFList %+v offered for %s is refused by CFList.MarshalBinary (%v), but a join-accept carrying it encodes without error to %x (%d bytes): the channel list is lost without notice", k.where(), cf.Payload, ver, err, jb, len(jb))
		}
		msg := fmt.Sprintf("%s: the CFList %+v offered for %s cannot be encoded: %v", k.where(), cf.Payload, ver, err)
		if cf.CFListType == lorawan.CFListChannel && k.isK3("CFListChannelPayload", maxF, err) {
			k.noteK3(msg)
			return ""
		}
		return msg
	}
	same := func(got *lorawan.CFList) string {
		if got == nil || got.CFListType != cf.CFListType {
			return fmt.Sprintf("decoded CFList %+v has another type", got)
		}
		switch want := cf.Payload.(type) {
		case *lorawan.CFListChannelPayload:
			g, ok := got.Payload.(*lorawan.CFListChannelPayload)
			if !ok || g.Channels != want.Channels {
				return fmt.Sprintf("decoded %+v, encoded %+v", got.Payload, want)
			}
		case *lorawan.CFListChannelMaskPayload:
			g, ok := got.Payload.(*lorawan.CFListChannelMaskPayload)
			if !ok || !reflect.DeepEqual(append([]lorawan.ChMask{}, trimMasks(g.ChannelMasks)...), append([]lorawan.ChMask{}, trimMasks(want.ChannelMasks)...)) {
				return fmt.Sprintf("decoded %+v, encoded %+v", got.Payload, want)
			}
		}
		return ""
	}
	var back lorawan.CFList
	if err := back.UnmarshalBinary(bin); err != nil {
		return fmt.Sprintf("%s: CFList %+v encodes to %x which does not decode: %v", k.where(), cf.Payload, bin, err)
	}
	if d := same(&back); d != "" {
		return fmt.Sprintf("%s: CFList round trip through %x: %s", k.where(), bin, d)
	}
	// the decoded list is kept by value while its variable decodes the next list of the same type
	kept := back
	other := append([]byte{}, bin...)
	for i := 0; i < 15; i++ {
		other[i] ^= 0x5a
	}
	_ = back.UnmarshalBinary(other)
	if d := same(&kept); d != "" {
		return fmt.Sprintf("%s: the CFList decoded from %x was kept by value; after the same variable decoded %x the kept value reads differently: %s", k.where(), bin, other, d)
	}
	d := k.b.GetDefaults()
	ja := lorawan.JoinAcceptPayload{JoinNonce: 0x010203, HomeNetID: lorawan.NetID{1, 2, 3}, DevAddr: lorawan.DevAddr{4, 5, 6, 7},
		DLSettings: lorawan.DLSettings{RX2DataRate: uint8(d.RX2DataRate), RX1DROffset: 1}, RXDelay: 1, CFList: cf}
	jb, err := ja.MarshalBinary()
	if err != nil {
		return fmt.Sprintf("%s: join-accept with the band's CFList and RX2 data-rate %d cannot be encoded: %v", k.where(), d.RX2DataRate, err)
	}
	var jback lorawan.JoinAcceptPayload
	if err := jback.UnmarshalBinary(false, jb); err != nil {
		return fmt.Sprintf("%s: join-accept %x with the band's CFList does not decode: %v", k.where(), jb, err)
	}
	if jback.JoinNonce != ja.JoinNonce || jback.HomeNetID != ja.HomeNetID || jback.DevAddr != ja.DevAddr || jback.DLSettings != ja.DLSettings || jback.RXDelay != ja.RXDelay {
		return fmt.Sprintf("%s: join-accept round trip changes the fixed fields: %+v -> %+v", k.where(), ja, jback)
	}
	if dd := same(jback.CFList); dd != "" {
		return fmt.Sprintf("%s: join-accept round trip through %x: %s", k.where(), jb, dd)
	}
	// the join-accept as it goes on the air: MIC set, encrypted, serialised - and opened by a device written from the
	// specification (AES-encrypt per block, own CMAC, own frame layout)
	key := ref.Key{0x2b, 0x7e, 0x15, 0x16, 0x28, 0xae, 0xd2, 0xa6, 0xab, 0xf7, 0x15, 0x88, 0x09, 0xcf, 0x4f, 0x3c}
	jaAir := ja
	phy := lorawan.PHYPayload{MHDR: lorawan.MHDR{MType: lorawan.JoinAccept, Major: lorawan.LoRaWANR1}, MACPayload: &jaAir}
	if err := phy.SetDownlinkJoinMIC(lorawan.JoinRequestType, lorawan.EUI64{}, 0, lorawan.AES128Key(key)); err != nil {
		return fmt.Sprintf("%s: SetDownlinkJoinMIC on the join-accept with the band's CFList: %v", k.where(), err)
	}
	if err := phy.EncryptJoinAcceptPayload(lorawan.AES128Key(key)); err != nil {
		return fmt.Sprintf("%s: EncryptJoinAcceptPayload on the join-accept with the band's CFList: %v", k.where(), err)
	}
	air, err := phy.MarshalBinary()
	if err != nil || len(air) != 1+len(jb)+4 {
		return fmt.Sprintf("%s: the encrypted join-accept with the band's CFList serialises to %x (err %v), want %d bytes", k.where(), air, err, 1+len(jb)+4)
	}
	clear := append([]byte{air[0]}, ref.JoinAcceptDecrypt(key, air[1:])...)
	if !bytes.Equal(clear[1:1+len(jb)], jb) {
		return fmt.Sprintf("%s: a device decrypting the join-accept %x (AES-encrypt per 16-byte block) reads the payload %x; the network sent %x (CFList %+v)", k.where(), air, clear[1:1+len(jb)], jb, cf.Payload)
	}
	if mic := ref.JoinAcceptMIC(key, false, 0xff, 0, 0, clear[:len(clear)-4]); !bytes.Equal(mic[:], clear[len(clear)-4:]) {
		return fmt.Sprintf("%s: a device decrypting the join-accept %x finds the MIC %x, its own computation gives %x", k.where(), air, clear[len(clear)-4:], mic[:])
	}
	return ""
}

// ---------------------------------------------------------------- MAC-layer encodability

// encode one frequency-carrying command and compare the decoded value
func (k *checker) encodeFreq(encoder, origin string, f uint32, pl interface {
	MarshalBinary() ([]byte, error)
}, decode func([]byte) (any, error)) string {
	bin, err := pl.MarshalBinary()
	if err != nil {
		msg := fmt.Sprintf("%s: %s (%d Hz) cannot be encoded by %s %+v: %v", k.where(), origin, f, encoder, pl, err)
		if k.isK3(encoder, f, err) {
			k.noteK3(msg)
			return ""
		}
		return msg
	}
	got, err := decode(bin)
	if err != nil {
		return fmt.Sprintf("%s: %s: %s %+v encodes to %x which does not decode: %v", k.where(), origin, encoder, pl, bin, err)
	}
	if !reflect.DeepEqual(got, pl) {
		return fmt.Sprintf("%s: %s: %s %+v encodes to %x which decodes to %+v", k.where(), origin, encoder, pl, bin, got)
	}
	return ""
}

func (k *checker) checkChannelEncodable(i int, up bool) string {
	var c chRec
	if up {
		c = k.m.up[i]
	} else {
		c = k.m.down[i]
	}
	if i > 255 {
		return ""
	}
	if !c.validInput {
		// a frequency the caller should not have configured (off the 100 / 200 Hz raster, outside the bands): the MAC
		// layer may refuse it; if it encodes it, the command must carry that frequency and no other one. Not judged:
		// 1.2 - 1.6777 GHz on the 100 Hz raster, where NewChannelReq decodes doubled (known finding K2 of property C07).
		if c.minDR < 0 || c.minDR > 15 || c.maxDR < 0 || c.maxDR > 15 || c.freq >= 1200000000 && c.freq < 1677721600 {
			return ""
		}
		if up {
			pl := lorawan.NewChannelReqPayload{ChIndex: uint8(i), Freq: c.freq, MinDR: uint8(c.minDR), MaxDR: uint8(c.maxDR)}
			if bin, err := pl.MarshalBinary(); err == nil {
				var back lorawan.NewChannelReqPayload
				if err := back.UnmarshalBinary(bin); err != nil || back.Freq != c.freq {
					return fmt.Sprintf("%s: uplink channel %d has the frequency %d Hz (not one the MAC layer can carry); NewChannelReq encodes it without error to %x, which stands for %d Hz (decode error %v): refused would be right, another frequency is not", k.where(), i, c.freq, bin, back.Freq, err)
				}
			}
			return ""
		}
		pl := lorawan.DLChannelReqPayload{ChIndex: uint8(i), Freq: c.freq}
		if bin, err := pl.MarshalBinary(); err == nil {
			var back lorawan.DLChannelReqPayload
			if err := back.UnmarshalBinary(bin); err != nil || back.Freq != c.freq {
				return fmt.Sprintf("%s: downlink channel %d has the frequency %d Hz (not one the MAC layer can carry); DLChannelReq encodes it without error to %x, which stands for %d Hz (decode error %v)", k.where(), i, c.freq, bin, back.Freq, err)
			}
		}
		return ""
	}
	if up {
		if c.minDR < 0 || c.minDR > 15 || c.maxDR < 0 || c.maxDR > 15 {
			return ""
		}
		return k.encodeFreq("NewChannelReqPayload", fmt.Sprintf("uplink channel %d", i), c.freq,
			lorawan.NewChannelReqPayload{ChIndex: uint8(i), Freq: c.freq, MinDR: uint8(c.minDR), MaxDR: uint8(c.maxDR)},
			func(b []byte) (any, error) {
				var p lorawan.NewChannelReqPayload
				err := p.UnmarshalBinary(b)
				return p, err
			})
	}
	return k.encodeFreq("DLChannelReqPayload", fmt.Sprintf("downlink channel %d", i), c.freq,
		lorawan.DLChannelReqPayload{ChIndex: uint8(i), Freq: c.freq},
		func(b []byte) (any, error) {
			var p lorawan.DLChannelReqPayload
			err := p.UnmarshalBinary(b)
			return p, err
		})
}

// values that do not depend on the history: RX2 defaults, ping-slot frequency, default channels
func (k *checker) checkStaticEncodable() string {
	b := k.b
	d := b.GetDefaults()
	if d.RX2DataRate < 0 || d.RX2DataRate > 15 {
		return fmt.Sprintf("%s: default RX2 data-rate %d does not fit the 4-bit field", k.where(), d.RX2DataRate)
	}
	if v := k.encodeFreq("RXParamSetupReqPayload", "default RX2 frequency", d.RX2Frequency,
		lorawan.RXParamSetupReqPayload{Frequency: d.RX2Frequency, DLSettings: lorawan.DLSettings{RX2DataRate: uint8(d.RX2DataRate), RX1DROffset: 2}},
		func(b []byte) (any, error) {
			var p lorawan.RXParamSetupReqPayload
			err := p.UnmarshalBinary(b)
			return p, err
		}); v != "" {
		return v
	}
	var da lorawan.DevAddr
	da[0], da[1], da[2], da[3] = byte(k.c.DevAddr>>24), byte(k.c.DevAddr>>16), byte(k.c.DevAddr>>8), byte(k.c.DevAddr)
	pf, err := b.GetPingSlotFrequency(da, time.Duration(k.c.BeaconS)*time.Second)
	if err != nil {
		return fmt.Sprintf("%s: GetPingSlotFrequency(%s, %d s): %v", k.where(), da, k.c.BeaconS, err)
	}
	if v := k.encodeFreq("PingSlotChannelReqPayload", "ping-slot frequency", pf,
		lorawan.PingSlotChannelReqPayload{Frequency: pf, DR: uint8(d.RX2DataRate)},
		func(b []byte) (any, error) {
			var p lorawan.PingSlotChannelReqPayload
			err := p.UnmarshalBinary(b)
			return p, err
		}); v != "" {
		return v
	}
	for _, f := range []uint32{pf, d.RX2Frequency} {
		if v := k.encodeFreq("BeaconFreqReqPayload", "ping-slot / RX2 frequency as beacon frequency", f,
			lorawan.BeaconFreqReqPayload{Frequency: f},
			func(b []byte) (any, error) {
				var p lorawan.BeaconFreqReqPayload
				err := p.UnmarshalBinary(b)
				return p, err
			}); v != "" {
			return v
		}
	}
	// every default channel as NewChannelReq / DLChannelReq
	for i := range k.m.up {
		if v := k.checkChannelEncodable(i, true); v != "" {
			return v
		}
	}
	for j := range k.m.down {
		if v := k.checkChannelEncodable(j, false); v != "" {
			return v
		}
	}
	return ""
}

// the LinkADRReq payloads the planner produces in this state, for three device states
func (k *checker) checkPlannerEncodable(full bool) string {
	m := k.m
	var std, all []int
	for i, c := range m.up {
		all = append(all, i)
		if !c.custom {
			std = append(std, i)
		}
	}
	var cur []int
	for i, c := range m.up {
		if c.enabled {
			cur = append(cur, i)
		}
	}
	devs := [][]int{std, nil, all, cur}
	if !full {
		devs = devs[(k.step+4)%4:][:1] // one device state per intermediate step, all four on full steps
	}
	for _, dev := range devs {
		pls := k.b.GetLinkADRReqPayloadsForEnabledUplinkChannelIndices(dev)
		for j, pl := range pls {
			bin, err := pl.MarshalBinary()
			if err != nil {
				return fmt.Sprintf("%s: LinkADRReq payload %d %+v planned for device channels %v cannot be encoded: %v", k.where(), j, pl, dev, err)
			}
			var back lorawan.LinkADRReqPayload
			if err := back.UnmarshalBinary(bin); err != nil || back != pl {
				return fmt.Sprintf("%s: LinkADRReq payload %+v encodes to %x which decodes to %+v (err %v)", k.where(), pl, bin, back, err)
			}
		}
	}
	return ""
}

// checkCommandBlock: the commands that carry the band's values travel together in one downlink. The frequency
// commands whose encoder accepted the value (refusals are judged by the per-command checks), followed by the
// planner's LinkADRReq block, are placed (a) in the FRMPayload of a port-0 downlink and (b) - as many as fit 15
// octets - in its FOpts; the frame is encoded, decoded into a fresh PHYPayload, and the commands that come out
// must be the commands that went in, in order. The list is rotated by the device address so that every command
// type gets every successor.
func (k *checker) checkCommandBlock() string {
	b := k.b
	d := b.GetDefaults()
	var cmds []lorawan.MACCommand
	add := func(cid lorawan.CID, pl lorawan.MACCommandPayload) {
		if _, err := pl.MarshalBinary(); err == nil {
			cmds = append(cmds, lorawan.MACCommand{CID: cid, Payload: pl})
		}
	}
	if d.RX2DataRate >= 0 && d.RX2DataRate <= 15 {
		add(lorawan.RXParamSetupReq, &lorawan.RXParamSetupReqPayload{Frequency: d.RX2Frequency, DLSettings: lorawan.DLSettings{RX2DataRate: uint8(d.RX2DataRate), RX1DROffset: 1}})
	}
	var da lorawan.DevAddr
	da[0], da[1], da[2], da[3] = byte(k.c.DevAddr>>24), byte(k.c.DevAddr>>16), byte(k.c.DevAddr>>8), byte(k.c.DevAddr)
	if pf, err := b.GetPingSlotFrequency(da, time.Duration(k.c.BeaconS)*time.Second); err == nil {
		add(lorawan.PingSlotChannelReq, &lorawan.PingSlotChannelReqPayload{Frequency: pf, DR: uint8(d.RX2DataRate) & 15})
		add(lorawan.BeaconFreqReq, &lorawan.BeaconFreqReqPayload{Frequency: pf})
	}
	// the newest and the first channel of both tables
	for _, i := range []int{len(k.m.up) - 1, 0} {
		if c := k.m.up[i]; c.validInput && i <= 255 && c.minDR >= 0 && c.minDR <= 15 && c.maxDR >= 0 && c.maxDR <= 15 {
			add(lorawan.NewChannelReq, &lorawan.NewChannelReqPayload{ChIndex: uint8(i), Freq: c.freq, MinDR: uint8(c.minDR), MaxDR: uint8(c.maxDR)})
		}
	}
	for _, i := range []int{len(k.m.down) - 1, 0} {
		if c := k.m.down[i]; c.validInput && i <= 255 {
			add(lorawan.DLChannelReq, &lorawan.DLChannelReqPayload{ChIndex: uint8(i), Freq: c.freq})
		}
	}
	if len(cmds) > 1 {
		r := int(k.c.DevAddr % uint32(len(cmds)))
		cmds = append(append([]lorawan.MACCommand{}, cmds[r:]...), cmds[:r]...)
	}
	var std []int
	for i, c := range k.m.up {
		if !c.custom {
			std = append(std, i)
		}
	}
	for _, pl := range b.GetLinkADRReqPayloadsForEnabledUplinkChannelIndices(std) {
		pl := pl
		add(lorawan.LinkADRReq, &pl)
	}
	if len(cmds) == 0 {
		return ""
	}
	key := lorawan.AES128Key{1, 2, 3, 4, 5, 6, 7, 8, 9, 10, 11, 12, 13, 14, 15, 16}
	describe := func(cs []lorawan.MACCommand) string {
		var sb strings.Builder
		for _, c := range cs {
			fmt.Fprintf(&sb, " %v%+v", c.CID, c.Payload)
		}
		return sb.String()
	}
	compare := func(where string, sent []lorawan.MACCommand, got []lorawan.Payload) string {
		if len(got) != len(sent) {
			return fmt.Sprintf("%s: a downlink carrying%s in its %s decodes to %d commands instead of %d", k.where(), describe(sent), where, len(got), len(sent))
		}
		for i := range sent {
			g, ok := got[i].(*lorawan.MACCommand)
			if !ok || g.CID != sent[i].CID || !reflect.DeepEqual(g.Payload, sent[i].Payload) {
				return fmt.Sprintf("%s: a downlink carrying%s in its %s: command %d comes back as %+v", k.where(), describe(sent), where, i, got[i])
			}
		}
		return ""
	}
	frame := func(fopts, frm []lorawan.MACCommand) (*lorawan.PHYPayload, string) {
		mp := &lorawan.MACPayload{FHDR: lorawan.FHDR{DevAddr: da, FCnt: k.c.BeaconS & 0xffff}}
		for i := range fopts {
			c := fopts[i]
			mp.FHDR.FOpts = append(mp.FHDR.FOpts, &c)
		}
		if frm != nil {
			var zero uint8
			mp.FPort = &zero
			for i := range frm {
				c := frm[i]
				mp.FRMPayload = append(mp.FRMPayload, &c)
			}
		}
		phy := &lorawan.PHYPayload{MHDR: lorawan.MHDR{MType: lorawan.UnconfirmedDataDown, Major: lorawan.LoRaWANR1}, MACPayload: mp}
		if frm != nil {
			if err := phy.EncryptFRMPayload(key); err != nil {
				return nil, fmt.Sprintf("%s: EncryptFRMPayload of a downlink carrying%s: %v", k.where(), describe(frm), err)
			}
		}
		if err := phy.SetDownlinkDataMIC(lorawan.LoRaWAN1_0, 0, key); err != nil {
			return nil, fmt.Sprintf("%s: SetDownlinkDataMIC of a downlink carrying%s%s: %v", k.where(), describe(fopts), describe(frm), err)
		}
		bin, err := phy.MarshalBinary()
		if err != nil {
			return nil, fmt.Sprintf("%s: a downlink carrying%s%s cannot be encoded: %v", k.where(), describe(fopts), describe(frm), err)
		}
		back := &lorawan.PHYPayload{}
		if err := back.UnmarshalBinary(bin); err != nil {
			return nil, fmt.Sprintf("%s: the downlink %x carrying%s%s does not decode: %v", k.where(), bin, describe(fopts), describe(frm), err)
		}
		return back, ""
	}
	// (a) FRMPayload on port 0
	back, v := frame(nil, cmds)
	if v != "" {
		return v
	}
	if err := back.DecryptFRMPayload(key); err != nil {
		return fmt.Sprintf("%s: DecryptFRMPayload of a downlink carrying%s: %v", k.where(), describe(cmds), err)
	}
	if v := compare("FRMPayload", cmds, back.MACPayload.(*lorawan.MACPayload).FRMPayload); v != "" {
		return v
	}
	// (b) FOpts: windows of the list that fit 15 octets, starting at every position once over the steps
	start := (k.step + 1) % len(cmds)
	var win []lorawan.MACCommand
	size := 0
	for i := start; i < len(cmds); i++ {
		bin, _ := cmds[i].MarshalBinary()
		if size+len(bin) > 15 {
			break
		}
		size += len(bin)
		win = append(win, cmds[i])
	}
	if len(win) == 0 {
		return ""
	}
	back, v = frame(win, nil)
	if v != "" {
		return v
	}
	if err := back.DecodeFOptsToMACCommands(); err != nil {
		return fmt.Sprintf("%s: DecodeFOptsToMACCommands of a downlink carrying%s: %v", k.where(), describe(win), err)
	}
	k.blocks++
	return compare("FOpts", win, back.MACPayload.(*lorawan.MACPayload).FHDR.FOpts)
}

// ---------------------------------------------------------------- running a history

func newChecker(c Case) (*checker, *evid.Outcome) {
	fa, ok := facts[c.Band]
	if !ok || c.Dwell < 0 || c.Dwell > 1 || len(c.Ops) > 64 {
		return nil, &evid.Outcome{Skip: true}
	}
	b, err := band.GetConfig(band.Name(c.Band), c.Repeater, lorawan.DwellTime(c.Dwell))
	if err != nil {
		o := evid.Fail("GetConfig(%s): %v", c.Band, err)
		return nil, &o
	}
	snap, ok := band.VerifSnapshot(b)
	if !ok {
		o := evid.Fail("%s: no snapshot", c.Band)
		return nil, &o
	}
	if len(snap.UplinkChannels) != fa.up || len(snap.DownlinkChannels) != fa.down || snap.SupportsExtraChannels != fa.dynamic || snap.UplinkChannels[0].Frequency != fa.f0 {
		o := evid.Fail("%s: fresh band has %d uplink / %d downlink channels, first frequency %d, extra channels %v; the regional parameters say %d / %d, %d, %v",
			c.Band, len(snap.UplinkChannels), len(snap.DownlinkChannels), snap.UplinkChannels[0].Frequency, snap.SupportsExtraChannels, fa.up, fa.down, fa.f0, fa.dynamic)
		return nil, &o
	}
	m := &model{name: c.Band, dyn: fa.dynamic}
	for _, ch := range snap.UplinkChannels {
		if ch.Custom || !ch.Enabled {
			o := evid.Fail("%s: fresh band has a custom or disabled default channel %+v", c.Band, ch)
			return nil, &o
		}
		m.up = append(m.up, chRec{freq: ch.Frequency, minDR: ch.MinDR, maxDR: ch.MaxDR, enabled: true, validInput: true})
	}
	for _, ch := range snap.DownlinkChannels {
		m.down = append(m.down, chRec{freq: ch.Frequency, minDR: ch.MinDR, maxDR: ch.MaxDR, enabled: ch.Enabled, custom: ch.Custom, validInput: true})
	}
	// CFList channels are DR0..DR5 channels in every region with a CFList of frequencies (DR0..DR7 on 2.4 GHz), whatever
	// the dwell-time or repeater setting (Regional Parameters; the constant is the harness's own, not the band's field)
	cfHi := 5
	if c.Band == "ISM2400" {
		cfHi = 7
	}
	return &checker{c: c, b: b, m: m, tx: snap.TXPowerOffsets, cfLo: 0, cfHi: cfHi, step: -1}, nil
}

func checkHistory(c Case) evid.Outcome {
	k, o := newChecker(c)
	if o != nil {
		return *o
	}
	b, m := k.b, k.m
	if v := k.checkState(true, true); v != "" {
		return evid.Outcome{Violation: v}
	}
	if v := k.checkStaticEncodable(); v != "" {
		return evid.Outcome{Violation: v}
	}
	for i, op := range c.Ops {
		k.step = i
		var err error
		n := len(m.up)
		switch op.Op {
		case "add":
			if p := try(func() { err = b.AddChannel(op.F, op.A, op.B) }); p != nil {
				return evid.Fail("%s: AddChannel(%d, %d, %d) panics: %v", k.where(), op.F, op.A, op.B, p)
			}
			if m.dyn {
				if err != nil {
					return evid.Fail("%s: AddChannel(%d, %d, %d) on a plan that supports extra channels: %v", k.where(), op.F, op.A, op.B, err)
				}
				r := chRec{freq: op.F, minDR: op.A, maxDR: op.B, enabled: op.F != 0, custom: true, validInput: validFreq(c.Band, op.F)}
				m.up = append(m.up, r)
				m.down = append(m.down, r)
				k.addOK++
				if v := k.checkChannelEncodable(len(m.up)-1, true); v != "" {
					return evid.Outcome{Violation: v}
				}
				if v := k.checkChannelEncodable(len(m.down)-1, false); v != "" {
					return evid.Outcome{Violation: v}
				}
			} else if err == nil {
				return evid.Fail("%s: AddChannel(%d, %d, %d) succeeds on a fixed channel plan", k.where(), op.F, op.A, op.B)
			}
		case "disable", "enable":
			name := "DisableUplinkChannelIndex"
			f := b.DisableUplinkChannelIndex
			if op.Op == "enable" {
				name, f = "EnableUplinkChannelIndex", b.EnableUplinkChannelIndex
			}
			if p := try(func() { err = f(op.A) }); p != nil {
				return evid.Fail("%s: %s(%d) panics (%v); the plan has %d channels and an invalid index must be reported as an error", k.where(), name, op.A, p, n)
			}
			if op.A >= 0 && op.A < n {
				if err != nil {
					return evid.Fail("%s: %s(%d) with %d channels: %v", k.where(), name, op.A, n, err)
				}
				m.up[op.A].enabled = op.Op == "enable"
				if op.Op == "disable" {
					k.disables++
				}
			} else {
				k.invalid++
				if err == nil {
					return evid.Fail("%s: %s(%d) returns no error although the plan has %d channels", k.where(), name, op.A, n)
				}
			}
		case "disable-range", "enable-range":
			// A..B (valid indices), one API call per channel: the way a network server selects a sub-band
			if op.A < 0 || op.B >= n || op.A > op.B {
				return evid.Outcome{Skip: true}
			}
			f := b.DisableUplinkChannelIndex
			if op.Op == "enable-range" {
				f = b.EnableUplinkChannelIndex
			}
			for x := op.A; x <= op.B; x++ {
				if p := try(func() { err = f(x) }); p != nil || err != nil {
					return evid.Fail("%s: %s: index %d with %d channels: panic %v, error %v", k.where(), op.Op, x, n, p, err)
				}
				m.up[x].enabled = op.Op == "enable-range"
			}
			k.ranges++
			if op.Op == "disable-range" {
				k.disables++
			}
		default:
			return evid.Outcome{Skip: true}
		}
		// the op's integers as probe indices
		probes := []int{op.A}
		if op.Op == "add" {
			probes = append(probes, op.B)
		}
		for _, x := range probes {
			if v := k.probe(x); v != "" {
				return evid.Outcome{Violation: v}
			}
		}
		// full lookup sweep on the last step and after an AddChannel whose frequency an older channel already has
		full := i == len(c.Ops)-1
		if len(m.up) != n {
			for _, r := range m.up[:n] {
				if r.freq == op.F {
					full = true
				}
			}
		}
		if v := k.checkState(full, len(m.up) != n, op.A, len(m.up)-1); v != "" {
			return evid.Outcome{Violation: v}
		}
	}
	kind := "fixed"
	if m.dyn {
		kind = "dyn"
	}
	cls := kind
	if k.addOK > 0 {
		cls += "/add"
	}
	if k.disables > 0 {
		cls += "/dis"
	}
	if k.invalid > 0 {
		cls += "/invalid-index"
	}
	if k.shadowed > 0 {
		cls += "/shadowed-lookup"
	}
	if k.zeroCF > 0 {
		cls += "/cflist-with-zero-slot"
	}
	if k.invalidInput > 0 {
		cls += "/cflist-caller-freq"
	}
	if k.ranges > 0 {
		cls += "/sub-band-ops"
	}
	if k.k3 != "" {
		return evid.Outcome{Violation: k.k3, Known: "K3", Class: cls + "/K3"}
	}
	return evid.Outcome{NonTrivial: k.addOK > 0 && k.disables > 0 || k.invalid > 0, Class: cls}
}

// ---------------------------------------------------------------- invalid indices, enumerated

type idxCase struct {
	Band     string `json:"band"`
	Accessor string `json:"accessor"`
	Rel      string `json:"rel"` // how the index relates to the table length n
	Index    int    `json:"index"`
}

var accessors = []string{"GetTXPowerOffset", "GetUplinkChannel", "GetDownlinkChannel", "DisableUplinkChannelIndex", "EnableUplinkChannelIndex", "GetRX1DataRateIndex"}

func tableLen(snap band.VerifBandSnapshot, acc string) int {
	switch acc {
	case "GetTXPowerOffset":
		return len(snap.TXPowerOffsets)
	case "GetDownlinkChannel":
		return len(snap.DownlinkChannels)
	case "GetRX1DataRateIndex":
		return 8 // RX1DROffset is a 3-bit field; which of 0..7 a band defines is C12's subject
	}
	return len(snap.UplinkChannels)
}

func checkIndex(c idxCase) evid.Outcome {
	if _, ok := facts[c.Band]; !ok {
		return evid.Outcome{Skip: true}
	}
	b, err := band.GetConfig(band.Name(c.Band), false, lorawan.DwellTimeNoLimit)
	if err != nil {
		return evid.Fail("GetConfig(%s): %v", c.Band, err)
	}
	before, _ := band.VerifSnapshot(b)
	n := tableLen(before, c.Accessor)
	x := c.Index
	var p any
	switch c.Accessor {
	case "GetTXPowerOffset":
		p = try(func() { _, err = b.GetTXPowerOffset(x) })
	case "GetUplinkChannel":
		p = try(func() { _, err = b.GetUplinkChannel(x) })
	case "GetDownlinkChannel":
		p = try(func() { _, err = b.GetDownlinkChannel(x) })
	case "DisableUplinkChannelIndex":
		p = try(func() { err = b.DisableUplinkChannelIndex(x) })
	case "EnableUplinkChannelIndex":
		p = try(func() { err = b.EnableUplinkChannelIndex(x) })
	case "GetRX1DataRateIndex":
		p = try(func() { _, err = b.GetRX1DataRateIndex(0, x) })
	default:
		return evid.Outcome{Skip: true}
	}
	if p != nil {
		if c.Accessor == "GetRX1DataRateIndex" {
			return evid.Fail("%s: GetRX1DataRateIndex(0, %d) panics (%v); an invalid RX1 data-rate offset must be reported as an error", c.Band, x, p)
		}
		return evid.Fail("%s: %s(%d) panics (%v); the table has %d entries, an invalid index must be reported as an error", c.Band, c.Accessor, x, p, n)
	}
	valid := x >= 0 && x < n
	if valid && err != nil && c.Accessor != "GetRX1DataRateIndex" {
		return evid.Fail("%s: %s(%d) with %d entries: %v", c.Band, c.Accessor, x, n, err)
	}
	if !valid && err == nil {
		return evid.Fail("%s: %s(%d) returns no error although the table has %d entries", c.Band, c.Accessor, x, n)
	}
	after, _ := band.VerifSnapshot(b)
	if !valid && !reflect.DeepEqual(before, after) {
		return evid.Fail("%s: the refused %s(%d) changed the band's tables", c.Band, c.Accessor, x)
	}
	cls := "valid"
	if !valid {
		cls = "invalid"
	}
	return evid.Outcome{NonTrivial: !valid, Class: c.Accessor + "/" + cls}
}

// ---------------------------------------------------------------- generators

var hugeInts = []int{math.MinInt64, math.MaxInt64, math.MinInt32, math.MaxInt32, math.MinInt32 - 1, math.MaxInt32 + 1, 1 << 32, -(1 << 32), 255, 256, 65536}

// wild index: valid, just outside, negative, huge, arbitrary
func genWildInt(t *rapid.T, n int, label string) int {
	switch rapid.IntRange(0, 9).Draw(t, label+"kind") {
	case 0, 1, 2, 3:
		return rapid.IntRange(0, n-1).Draw(t, label)
	case 4:
		return n + rapid.IntRange(0, 2).Draw(t, label)
	case 5:
		return -1
	case 6:
		return -rapid.IntRange(1, 100).Draw(t, label)
	case 7:
		return rapid.SampledFrom(hugeInts).Draw(t, label)
	default:
		return rapid.Int().Draw(t, label)
	}
}

func genFreq(t *rapid.T, name string, wild bool) uint32 {
	fa := facts[name]
	k := rapid.IntRange(0, 11).Draw(t, "fkind")
	switch {
	case k == 0 && rapid.IntRange(0, 3).Draw(t, "zero") == 0:
		return 0 // AddChannel documents enabled = frequency != 0
	case wild && k == 1:
		return rapid.Uint32().Draw(t, "f")
	case wild && k == 2:
		return fa.f0 + rapid.Uint32Range(1, 199).Draw(t, "odd") // not a multiple of 100 Hz: the caller's problem
	case k == 3 && name != "ISM2400":
		return 100000000 + 100*rapid.Uint32Range(0, 9000000).Draw(t, "f100") // any valid sub-GHz frequency
	case k == 3:
		return 2400000000 + 200*rapid.Uint32Range(0, 500000).Draw(t, "f200")
	}
	// near the band's own channels, so that frequencies collide with default and custom channels
	return fa.f0 + 200000*rapid.Uint32Range(0, 15).Draw(t, "fstep")
}

func genDRs(t *rapid.T, name string, wild bool) (int, int) {
	hi := 5
	if name == "ISM2400" {
		hi = 7
	}
	k := rapid.IntRange(0, 9).Draw(t, "drkind")
	switch {
	case k <= 4:
		return 0, hi // the CFList range
	case k == 5:
		return 6, 6
	case k == 6:
		return rapid.IntRange(0, 15).Draw(t, "min"), rapid.IntRange(0, 15).Draw(t, "max")
	case k == 7 || !wild:
		a := rapid.IntRange(0, 7).Draw(t, "min")
		return a, rapid.IntRange(a, 15).Draw(t, "max")
	case k == 8:
		return genWildInt(t, 8, "min"), genWildInt(t, 8, "max")
	}
	return rapid.Int().Draw(t, "min"), rapid.Int().Draw(t, "max")
}

func genHistory(wild bool) func(*rapid.T) Case {
	return func(t *rapid.T) Case {
		name := rapid.SampledFrom(allBands).Draw(t, "band")
		fa := facts[name]
		c := Case{Band: name, Repeater: rapid.Bool().Draw(t, "repeater"), Dwell: rapid.IntRange(0, 1).Draw(t, "dwell"),
			DevAddr: rapid.Uint32().Draw(t, "devaddr"), BeaconS: rapid.Uint32().Draw(t, "beacon")}
		n := fa.up
		nops := rapid.IntRange(0, 30).Draw(t, "nops")
		addW := 4
		if !fa.dynamic {
			addW = 1
		}
		for i := 0; i < nops; i++ {
			k := rapid.IntRange(0, 9).Draw(t, "opkind")
			if k < addW && (wild || fa.dynamic) {
				a, b := genDRs(t, name, wild)
				c.Ops = append(c.Ops, Op{Op: "add", F: genFreq(t, name, wild), A: a, B: b})
				if fa.dynamic {
					n++
				}
				continue
			}
			op := Op{Op: "disable"}
			if k >= 7 {
				op.Op = "enable"
			}
			if !fa.dynamic && rapid.IntRange(0, 2).Draw(t, "range") == 0 {
				// sub-band shaped: 8 channels, a 16-channel block, the 500 kHz channels, all 125 kHz channels, everything
				op.Op += "-range"
				switch rapid.IntRange(0, 5).Draw(t, "shape") {
				case 0, 1:
					op.A = 8 * rapid.IntRange(0, n/8-1).Draw(t, "sub")
					op.B = op.A + 7
				case 2:
					op.A = 16 * rapid.IntRange(0, (n-1)/16).Draw(t, "blk")
					op.B = op.A + 15
					if op.B >= n {
						op.B = n - 1
					}
				case 3:
					op.A, op.B = 64, 71
				case 4:
					op.A, op.B = 0, 63
				default:
					op.A, op.B = 0, n-1
				}
				c.Ops = append(c.Ops, op)
				continue
			}
			switch {
			case wild:
				op.A = genWildInt(t, n, "idx")
			case n > fa.up && rapid.IntRange(0, 2).Draw(t, "recent") == 0:
				op.A = rapid.IntRange(fa.up, n-1).Draw(t, "idx") // a custom channel
			default:
				op.A = rapid.IntRange(0, n-1).Draw(t, "idx")
			}
			c.Ops = append(c.Ops, op)
		}
		return c
	}
}

func TestProp(t *testing.T) {
	r := evid.Begin(t, "C15")
	defer r.Finish()

	const oracle = " Oracle: a model (slice of channel records {frequency, MinDR, MaxDR, enabled, custom}; AddChannel appends an enabled=(frequency != 0) custom record to uplink and downlink tables on the 11 dynamic plans and fails without effect on US915/AU915/CN470; Disable/Enable flip one flag for 0 <= i < n and fail otherwise). After EVERY step: the five index-set getters equal the model and partition, GetUplinkChannel/GetDownlinkChannel equal the model record by record, and so does the snapshot hook (taken on the fresh band, after every successful AddChannel and on the last step) (so standard channels never change), GetUplinkChannelIndex(f, default) and GetUplinkChannelIndexForFrequencyDR(f, dr) for every channel frequency x {default, custom} x DR {min, max, min-1, max+1} return a matching channel or an error exactly when none matches (all channels on the fresh band, on the last step and after an AddChannel that repeats an existing frequency; the op's channel and the newest channel on the other steps) (a match shadowed by another custom channel on the same frequency is counted, not judged), index n (n+1 too on the fresh band, the last step and after a frequency-repeating AddChannel) and the op's own integers are probed on GetUplinkChannel/GetDownlinkChannel/GetTXPowerOffset/GetRX1DataRateIndex (error, never panic; valid ones give the model value), GetEnabledUplinkDataRates (only while all DR ranges are small; judged for indices 0..15) covers the enabled channels and lists nothing that no channel has; GetCFList for the 6 protocol versions: fixed plans nil before 1.0.3, else exactly the enabled bits; dynamic plans the first five of the custom channels with DR 0..5 (0..7 on ISM2400; the harness's own constants) in order (disabled ones optional; in states with a zero-frequency candidate the list is positional: exactly the first five candidates, zeros included, or nil when the first is zero), nil if none; MAC layer: default and validly added channels through NewChannelReq / DLChannelReq, RX2 default through RXParamSetupReq, ping-slot frequency through PingSlotChannelReq and BeaconFreqReq, the CFList bare and inside a JoinAcceptPayload (a decoded list kept by value stays what it was while its variable decodes another list; a list the CFList encoder refuses must be refused by the join-accept encoder too; the join-accept with MIC set and encrypted is opened by a device written from the specification, which must read the same payload and a valid MIC), the planner's LinkADRReq payloads (device state = standard channels / none / all / the enabled set, one of them per step and all four on the fresh band and the last step), and the commands together in one downlink (RXParamSetupReq, PingSlotChannelReq, BeaconFreqReq, NewChannelReq and DLChannelReq of the newest and first channel - those the encoders accept - rotated by the device address, followed by the planner's LinkADRReq block: as FRMPayload of an encrypted port-0 downlink and, as many as fit 15 octets, as FOpts; frame encoded, decoded into a fresh PHYPayload, commands compared in order) - each must encode and decode to the same values (asserted only for frequencies that are valid caller input: multiple of 100 Hz in 0.1-1 GHz, multiple of 200 Hz in 2.4-2.5 GHz, or 0; for any other configured frequency NewChannelReq / DLChannelReq may refuse, but what they encode must decode to that frequency - outside 1.2-1.6777 GHz, where C07's known finding K2 lives). ISM2400 frequencies refused with the max-value error by the five 100-Hz encoders are the known finding K3. Non-trivial: at least one successful AddChannel and one successful Disable, or a Disable/Enable with an invalid index."

	// the K3 witness lives in this sub-check, so it runs first (the framework activates a known class when its witness fails)
	evid.Rapid(r, t, "valid-histories",
		"rapid: band uniform over the 14 bands x repeater x dwell x 0..30 ops with VALID arguments only (AddChannel on dynamic plans with frequency near the band's channels so that frequencies collide / any valid frequency / 0, DR range = CFList range 50% / 6..6 / any 0..15 pair; Disable/Enable of existing indices, custom channels preferred 1/3; on the fixed plans 1/3 of them are sub-band shaped runs of single calls: 8 channels, a 16-channel block, 64..71, 0..63, everything) x DevAddr x beacon time for the ping-slot frequency."+oracle,
		20000, 600000, genHistory(false), checkHistory)

	evid.Rapid(r, t, "state-machine",
		"rapid: band uniform over the 14 bands x repeater x dwell x 0..30 ops over {AddChannel(f, minDR, maxDR), Disable(i), Enable(i)} with ARBITRARY arguments: indices valid / n..n+2 / -1 / -1..-100 / MinInt64, MaxInt64, +-2^31, +-2^32 / any int; frequencies 0 / any uint32 / not a multiple of 100 Hz / valid; DR ints valid, reversed, negative, huge; AddChannel also on fixed plans."+oracle,
		40000, 1400000, genHistory(true), checkHistory)

	evid.Exhaustive(r, t, "invalid-index",
		"14 bands x 6 index-taking accessors (GetTXPowerOffset, GetUplinkChannel, GetDownlinkChannel, DisableUplinkChannelIndex, EnableUplinkChannelIndex, GetRX1DataRateIndex offset) x index in {-1, -2, MinInt32, MinInt64, n, n+1, MaxInt32, MaxInt64, 0, n-1} on a fresh band: valid index no error, invalid index an error (never a panic) and unchanged tables (snapshot hook). Non-trivial: the invalid ones.",
		true,
		func(emit func(idxCase)) {
			for _, name := range allBands {
				b, err := band.GetConfig(band.Name(name), false, lorawan.DwellTimeNoLimit)
				if err != nil {
					continue
				}
				snap, _ := band.VerifSnapshot(b)
				for _, rel := range []string{"-1", "-2", "minint32", "minint64", "n", "n+1", "maxint32", "maxint64", "0", "n-1"} {
					for _, acc := range accessors {
						n := tableLen(snap, acc)
						x := map[string]int{"-1": -1, "-2": -2, "minint32": math.MinInt32, "minint64": math.MinInt64, "n": n, "n+1": n + 1,
							"maxint32": math.MaxInt32, "maxint64": math.MaxInt64, "0": 0, "n-1": n - 1}[rel]
						emit(idxCase{Band: name, Accessor: acc, Rel: rel, Index: x})
					}
				}
			}
		}, checkIndex)
}
