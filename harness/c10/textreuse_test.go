//go:build verif

package c10

import (
	"encoding/base64"
	"encoding/hex"
	"encoding/json"
	"fmt"
	"reflect"
	"strings"

	"github.com/brocaar/lorawan"
	"pgregory.net/rapid"

	"verif/harness/internal/evid"
	"verif/harness/internal/gen"
)

// ---- 4a. reuse differential through the text / JSON / database doors ----

// textDecoders: the types that decode from text (UnmarshalText: hexadecimal, base64 for frames) and, for the
// identifiers, from a database column (Scan).
var textDecoders = []struct {
	Name string
	New  func() any
	Len  int // value length in bytes (0: a frame)
	Scan bool
}{
	{"lorawan.EUI64", func() any { return &lorawan.EUI64{} }, 8, true},
	{"lorawan.DevAddr", func() any { return &lorawan.DevAddr{} }, 4, true},
	{"lorawan.NetID", func() any { return &lorawan.NetID{} }, 3, true},
	{"lorawan.AES128Key", func() any { return &lorawan.AES128Key{} }, 16, true},
	{"lorawan.DLSettings", func() any { return &lorawan.DLSettings{} }, 1, false},
	{"lorawan.PHYPayload", func() any { return &lorawan.PHYPayload{} }, 0, false},
}

type textReuseCase struct {
	Type string `json:"type"`
	Door string `json:"door"` // text | json | scan
	T1   string `json:"t1"`   // decoded first
	T2   string `json:"t2"`   // decoded into the used value and into a fresh one
}

func genTextReuse(t *rapid.T) textReuseCase {
	d := textDecoders[rapid.IntRange(0, len(textDecoders)-1).Draw(t, "type")]
	c := textReuseCase{Type: d.Name, Door: "text"}
	switch k := rapid.IntRange(0, 5).Draw(t, "door"); {
	case k == 0:
		c.Door = "json"
	case k == 1 && d.Scan:
		c.Door = "scan"
	}
	text := func(label string) string {
		if d.Len == 0 {
			b := gen.AnyFrame(t).Encode()
			if rapid.IntRange(0, 7).Draw(t, label+"cut") == 0 {
				b = b[:rapid.IntRange(0, len(b)).Draw(t, label+"at")]
			}
			return base64.StdEncoding.EncodeToString(b)
		}
		n := d.Len
		switch rapid.IntRange(0, 11).Draw(t, label+"len") {
		case 0:
			n--
		case 1:
			n++
		}
		var b []byte
		switch rapid.IntRange(0, 4).Draw(t, label+"fill") {
		case 0:
			b = make([]byte, n)
		case 1:
			b = []byte(strings.Repeat("\xff", n))
		default:
			b = gen.Bytes(t, label, n)
		}
		if c.Door == "scan" {
			return string(b) // the column's bytes
		}
		s := hex.EncodeToString(b)
		switch rapid.IntRange(0, 7).Draw(t, label+"form") {
		case 0:
			s = strings.ToUpper(s)
		case 1:
			s = "0x" + s
		case 2:
			if len(s) > 0 { // one character that is no hexadecimal digit: refused
				i := rapid.IntRange(0, len(s)-1).Draw(t, label+"bad")
				s = s[:i] + "g" + s[i+1:]
			}
		}
		return s
	}
	c.T1, c.T2 = text("t1"), text("t2")
	return c
}

func decodeText(door string, v any, text string) error {
	switch door {
	case "json":
		q, _ := json.Marshal(text)
		return json.Unmarshal(q, v)
	case "scan":
		out := reflect.ValueOf(v).MethodByName("Scan").Call([]reflect.Value{reflect.ValueOf([]byte(text))})
		if e := out[0].Interface(); e != nil {
			return e.(error)
		}
		return nil
	}
	out := reflect.ValueOf(v).MethodByName("UnmarshalText").Call([]reflect.Value{reflect.ValueOf([]byte(text))})
	if e := out[0].Interface(); e != nil {
		return e.(error)
	}
	return nil
}

func checkTextReuse(c textReuseCase) evid.Outcome {
	var mkNew func() any
	for _, d := range textDecoders {
		if d.Name == c.Type && (c.Door != "scan" || d.Scan) {
			mkNew = d.New
		}
	}
	if mkNew == nil {
		return evid.Outcome{Skip: true}
	}
	show := func(s string) string {
		if c.Door == "scan" {
			return fmt.Sprintf("%x", s)
		}
		return fmt.Sprintf("%q", s)
	}
	used := mkNew()
	if err := decodeText(c.Door, used, c.T1); err != nil {
		return evid.Outcome{Class: c.Type + "/" + c.Door + "/first-rejected"}
	}
	fresh := mkNew()
	errFresh := decodeText(c.Door, fresh, c.T2)
	errUsed := decodeText(c.Door, used, c.T2)
	if (errFresh == nil) != (errUsed == nil) {
		return evid.Fail("%s through %s: decoding %s into a value that decoded %s before gives err=%v, into a fresh value err=%v", c.Type, c.Door, show(c.T2), show(c.T1), errUsed, errFresh)
	}
	if errFresh != nil {
		return evid.Outcome{Class: c.Type + "/" + c.Door + "/second-rejected"}
	}
	if a, b := observe(used), observe(fresh); a != b {
		return evid.Fail("%s through %s: decoding %s into a value that decoded %s before differs from decoding it into a fresh value:\n reused: %s\n fresh:  %s", c.Type, c.Door, show(c.T2), show(c.T1), a, b)
	}
	return evid.Outcome{NonTrivial: c.T1 != c.T2, Class: c.Type + "/" + c.Door + "/both-accepted"}
}
