//go:build verif

package c10

import (
	"fmt"
	"os"
	"sort"
	"testing"

	"pgregory.net/rapid"
)

// TestListReuse is a diagnostic (VERIF_LIST=1): it prints every decoder type for which the reuse differential
// or the aliasing check fails, instead of stopping at the first one. The driver does not run it.
func TestListReuse(t *testing.T) {
	if os.Getenv("VERIF_LIST") == "" {
		t.Skip("diagnostic")
	}
	bad := map[string]string{}
	for seed := 1; seed <= 60000; seed++ {
		c := rapid.Custom(genReuse).Example(seed)
		if o := checkReuse(c); o.Violation != "" {
			if _, ok := bad["reuse "+c.Decoder]; !ok {
				bad["reuse "+c.Decoder] = o.Violation
			}
		}
		a := rapid.Custom(genAlias).Example(seed)
		if o := checkAlias(a); o.Violation != "" {
			if _, ok := bad["alias "+a.Decoder]; !ok {
				bad["alias "+a.Decoder] = o.Violation
			}
		}
	}
	var ks []string
	for k := range bad {
		ks = append(ks, k)
	}
	sort.Strings(ks)
	for _, k := range ks {
		v := bad[k]
		if len(v) > 500 {
			v = v[:500]
		}
		fmt.Printf("== %s\n%s\n", k, v)
	}
	fmt.Printf("%d failing (kind, type) pairs\n", len(ks))
}
