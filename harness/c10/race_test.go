//go:build verif

package c10

import (
	"bytes"
	"fmt"
	"runtime"
	"strings"
	"sync"
	"testing"

	"github.com/brocaar/lorawan"
	"github.com/brocaar/lorawan/band"
	"pgregory.net/rapid"

	"verif/harness/internal/evid"
	"verif/harness/internal/gen"
	"verif/harness/internal/ref"
)

// TestRace runs only in the -race build (the driver starts it separately). Generated op lists are executed by
// 2..8 goroutines on goroutine-local values; the registry of proprietary MAC commands and the band constructors are
// the only shared library state. Every goroutine's results must equal the results of the same list run alone; any
// race-detector report in the process output is turned into a violation by the driver.

type raceOp struct {
	Op     string   `json:"op"`             // decode | mic | crypt | lookup | register | band | yield | dectype | text
	Type   string   `json:"type,omitempty"` // dectype: a gen.Decoders name; text: a textDecoders name (the text is in Frame)
	Frame  evid.Hex `json:"frame,omitempty"`
	Key    evid.Hex `json:"key,omitempty"`
	CID    byte     `json:"cid,omitempty"`
	Size   int      `json:"size,omitempty"`
	Uplink bool     `json:"uplink,omitempty"`
	Band   string   `json:"band,omitempty"`
}

type raceCase struct {
	Lists [][]raceOp `json:"lists"`
	// Shared: input buffers that several goroutines decode from WITHOUT copying (decoding only reads its input, so
	// sharing a read-only buffer - a cached downlink, a packet fanned out to several workers - is legitimate)
	Shared []evid.Hex `json:"shared,omitempty"`
}

var sharedBufs []evid.Hex // set by checkRace for the duration of one case

func genRace(t *rapid.T) raceCase {
	n := rapid.IntRange(2, 8).Draw(t, "goroutines")
	var c raceCase
	// a small pool of key values used by ALL goroutines (sessions of one device group share keys; per-key caches are shared state)
	pool := []ref.Key{gen.Key(t, "pool0"), gen.Key(t, "pool1")}
	for i, k := 0, rapid.IntRange(1, 3).Draw(t, "nshared"); i < k; i++ {
		if rapid.Bool().Draw(t, "sharedframe") {
			c.Shared = append(c.Shared, gen.DataFrame(t, gen.DataMType(t), gen.DataOpts{MaxFRM: 30}).Encode())
		} else {
			// a single MAC command with payload, as handed to MACCommand.UnmarshalBinary
			up := rapid.Bool().Draw(t, "sharedup")
			b := gen.CmdBytes(t, "sharedcmd", up, rapid.IntRange(2, 6).Draw(t, "sharedlen"))
			c.Shared = append(c.Shared, append([]byte{0xfe, map[bool]byte{true: 1, false: 0}[up]}, b...))
		}
	}
	for g := 0; g < n; g++ {
		var l []raceOp
		k := rapid.IntRange(3, 14).Draw(t, "ops")
		for i := 0; i < k; i++ {
			key := gen.Key(t, "key")
			if rapid.IntRange(0, 2).Draw(t, "sharedkey") != 0 {
				key = pool[rapid.IntRange(0, 1).Draw(t, "poolidx")]
			}
			switch rapid.SampledFrom([]string{"decode", "decode", "mic", "crypt", "lookup", "register", "register", "band", "netid", "shared", "shared", "yield"}).Draw(t, "op") {
			case "decode":
				if rapid.IntRange(0, 2).Draw(t, "unknowncid") == 0 {
					// a frame whose FOpts / port-0 payload carry proprietary CIDs nobody registers (0xe0..0xff: the register
					// ops use 0x80..0xbf): the decoder's path for unknown commands is shared by all goroutines too
					f := ref.Frame{MType: byte(gen.DataMType(t)), DevAddr: 0x01020304, FCnt: 9, FPort: -1}
					cids := []byte{0xe0 + byte(rapid.IntRange(0, 31).Draw(t, "pcid")), 0xe0 + byte(rapid.IntRange(0, 31).Draw(t, "pcid2"))}
					if rapid.Bool().Draw(t, "infrm") {
						f.FPort, f.FRM = 0, cids
					} else {
						f.FOpts = cids
					}
					l = append(l, raceOp{Op: "decode", Frame: f.Encode()})
					continue
				}
				l = append(l, raceOp{Op: "decode", Frame: gen.AnyFrame(t).Encode()})
			case "mic":
				l = append(l, raceOp{Op: "mic", Frame: gen.DataFrame(t, gen.DataMType(t), gen.DataOpts{MaxFRM: 40}).Encode(), Key: key[:]})
			case "crypt":
				l = append(l, raceOp{Op: "crypt", Frame: gen.DataFrame(t, gen.DataMType(t), gen.DataOpts{MaxFRM: 40}).Encode(), Key: key[:]})
			case "lookup":
				l = append(l, raceOp{Op: "lookup", CID: byte(rapid.IntRange(0, 0x7f).Draw(t, "cid")), Uplink: rapid.Bool().Draw(t, "up")})
			case "register":
				// a pool of proprietary CIDs that no generated frame carries; every goroutine owns its own CIDs so that results are deterministic
				l = append(l, raceOp{Op: "register", CID: 0x80 + byte(g)*8 + byte(rapid.IntRange(0, 7).Draw(t, "pc")), Size: rapid.IntRange(0, 9).Draw(t, "size"), Uplink: rapid.Bool().Draw(t, "up")})
			case "band":
				l = append(l, raceOp{Op: "band", Band: string(rapid.SampledFrom(bandNames).Draw(t, "band"))})
			case "netid":
				l = append(l, raceOp{Op: "netid", Key: key[:]})
			case "shared":
				l = append(l, raceOp{Op: "shared", Size: rapid.IntRange(0, len(c.Shared)-1).Draw(t, "sharedidx")})
			default:
				l = append(l, raceOp{Op: "yield"})
			}
		}
		c.Lists = append(c.Lists, l)
	}
	return c
}

func runList(l []raceOp) []string {
	var out []string
	for _, o := range l {
		var k lorawan.AES128Key
		copy(k[:], o.Key)
		switch o.Op {
		case "yield":
			runtime.Gosched()
		case "decode":
			var p lorawan.PHYPayload
			err := p.UnmarshalBinary(append([]byte{}, o.Frame...))
			if err == nil {
				_ = p.DecodeFOptsToMACCommands()
				if m, ok := p.MACPayload.(*lorawan.MACPayload); ok && m.FPort != nil && *m.FPort == 0 {
					_ = p.DecodeFRMPayloadToMACCommands()
				}
			}
			b, err2 := p.MarshalBinary()
			out = append(out, fmt.Sprintf("decode %v %x %v", err, b, err2))
		case "mic":
			var p lorawan.PHYPayload
			if err := p.UnmarshalBinary(append([]byte{}, o.Frame...)); err != nil {
				out = append(out, "mic "+err.Error())
				continue
			}
			// the validation that matches, then two that do not (another key, another frame counter): rejecting a frame is
			// as much an operation on the caller's own value as accepting one
			other := k
			other[5] ^= 0x40
			if ref.IsUplinkMType(byte(p.MHDR.MType)) {
				_ = p.SetUplinkDataMIC(lorawan.LoRaWAN1_1, 3, 1, 2, k, k)
				ok, err := p.ValidateUplinkDataMIC(lorawan.LoRaWAN1_1, 3, 1, 2, k, k)
				bad1, _ := p.ValidateUplinkDataMIC(lorawan.LoRaWAN1_1, 3, 1, 2, other, other)
				bad2, _ := p.ValidateUplinkDataMIC(lorawan.LoRaWAN1_0, 4, 1, 2, other, k)
				out = append(out, fmt.Sprintf("mic %x %v %v %v %v", p.MIC[:], ok, err, bad1, bad2))
			} else {
				_ = p.SetDownlinkDataMIC(lorawan.LoRaWAN1_1, 3, k)
				ok, err := p.ValidateDownlinkDataMIC(lorawan.LoRaWAN1_1, 3, k)
				bad1, _ := p.ValidateDownlinkDataMIC(lorawan.LoRaWAN1_1, 3, other)
				bad2, _ := p.ValidateDownlinkDataMIC(lorawan.LoRaWAN1_0, 4, other)
				out = append(out, fmt.Sprintf("mic %x %v %v %v %v", p.MIC[:], ok, err, bad1, bad2))
			}
		case "crypt":
			var p lorawan.PHYPayload
			if err := p.UnmarshalBinary(append([]byte{}, o.Frame...)); err != nil {
				out = append(out, "crypt "+err.Error())
				continue
			}
			e1 := p.EncryptFRMPayload(k)
			e2 := p.EncryptFOpts(k)
			b, _ := p.MarshalBinary()
			e3 := p.DecryptFOpts(k)
			e4 := p.DecryptFRMPayload(k)
			b2, _ := p.MarshalBinary()
			out = append(out, fmt.Sprintf("crypt %v %v %x %v %v %x", e1, e2, b, e3, e4, b2))
		case "shared":
			if o.Size < 0 || o.Size >= len(sharedBufs) {
				continue
			}
			b := []byte(sharedBufs[o.Size]) // no copy: read-only input shared between goroutines
			if len(b) > 2 && b[0] == 0xfe {
				// the stream as a whole is framed by the model; each command is decoded from its own sub-slice of the shared buffer
				// (all commands are decoded before anything is formatted: fmt's buffer pool would order this goroutine
				// after another one and hide an unsynchronised access of the later commands from the detector)
				up := b[1] == 1
				rest := b[2:]
				var cmds []lorawan.MACCommand
				var errs []error
				for len(rest) > 0 {
					n := 1 + ref.PayloadLen(up, rest[0], nil)
					if n > len(rest) {
						break
					}
					var m lorawan.MACCommand
					errs = append(errs, m.UnmarshalBinary(up, rest[:n]))
					cmds = append(cmds, m)
					rest = rest[n:]
				}
				for i := range cmds {
					enc, _ := cmds[i].MarshalBinary()
					out = append(out, fmt.Sprintf("shared-cmd %v %x", errs[i], enc))
				}
				continue
			}
			var p lorawan.PHYPayload
			err := p.UnmarshalBinary(b)
			if err == nil {
				_ = p.DecodeFOptsToMACCommands()
			}
			enc, _ := p.MarshalBinary()
			out = append(out, fmt.Sprintf("shared-frame %v %x", err, enc))
		case "dectype":
			d := gen.DecoderByName(o.Type)
			if d == nil {
				continue
			}
			v := d.New()
			err := d.Decode(v, o.Uplink, append([]byte{}, o.Frame...))
			if err != nil {
				out = append(out, fmt.Sprintf("dectype %s %v", o.Type, err))
				continue
			}
			out = append(out, fmt.Sprintf("dectype %s %s", o.Type, observe(v)))
		case "text":
			for _, d := range textDecoders {
				if d.Name == o.Type {
					v := d.New()
					err := decodeText("text", v, string(o.Frame))
					if err != nil {
						out = append(out, fmt.Sprintf("text %s %v", o.Type, err))
						continue
					}
					out = append(out, fmt.Sprintf("text %s %s", o.Type, observe(v)))
				}
			}
		case "netid":
			n := lorawan.NetID{o.Key[0], o.Key[1], o.Key[2]}
			a := lorawan.DevAddr{o.Key[3], o.Key[4], o.Key[5], o.Key[6]}
			id := n.ID()
			a.SetAddrPrefix(n)
			out = append(out, fmt.Sprintf("netid %d %x %s %v %x %x", n.Type(), id, a, a.IsNetID(n), a.NwkID(), n.ID()))
		case "lookup":
			p, size, err := lorawan.GetMACPayloadAndSize(o.Uplink, lorawan.CID(o.CID))
			out = append(out, fmt.Sprintf("lookup %T %d %v", p, size, err))
		case "register":
			err := lorawan.RegisterProprietaryMACCommand(o.Uplink, lorawan.CID(o.CID), o.Size)
			_, size, err2 := lorawan.GetMACPayloadAndSize(o.Uplink, lorawan.CID(o.CID))
			out = append(out, fmt.Sprintf("register %v %d %v", err, size, err2))
		case "band":
			b, err := band.GetConfig(band.Name(o.Band), false, lorawan.DwellTimeNoLimit)
			if err != nil {
				out = append(out, "band "+err.Error())
				continue
			}
			_ = b.AddChannel(868800000, 0, 5)
			_ = b.DisableUplinkChannelIndex(1)
			dr, _ := b.GetRX1DataRateIndex(0, 0)
			out = append(out, fmt.Sprintf("band %v %v %d %v", b.GetEnabledUplinkChannelIndices(), b.GetCFList("1.0.3") != nil, dr, len(b.GetLinkADRReqPayloadsForEnabledUplinkChannelIndices([]int{0, 1, 2}))))
		}
	}
	return out
}

func checkRace(c raceCase) evid.Outcome {
	lorawan.VerifResetMACPayloadRegistry()
	sharedBufs = c.Shared
	sharedSnapshot := make([]string, len(c.Shared))
	for i, b := range c.Shared {
		sharedSnapshot[i] = b.String()
	}
	defer func() { sharedBufs = nil }()
	// every shared buffer first on its own: 4 goroutines released together decode it at once and do nothing else
	// before, so that no two of them are ordered and a decoder that writes to its input is reported whatever the timing
	// (inside the lists below, incidental synchronisation - fmt's pools, a loaded machine running the goroutines one
	// after the other - can order two decodes of the same buffer)
	for i := range c.Shared {
		one := []raceOp{{Op: "shared", Size: i}}
		var first [4][]string
		var swg sync.WaitGroup
		go4 := make(chan struct{})
		for g := range first {
			swg.Add(1)
			go func(g int) {
				defer swg.Done()
				<-go4
				first[g] = runList(one)
			}(g)
		}
		close(go4)
		swg.Wait()
		alone := fmt.Sprint(runList(one))
		for g := range first {
			if fmt.Sprint(first[g]) != alone {
				return evid.Fail("the read-only buffer %s decoded by 4 goroutines at once: goroutine %d got %v, decoded alone it gives %s", c.Shared[i], g, first[g], alone)
			}
		}
	}
	results := make([][]string, len(c.Lists))
	var wg sync.WaitGroup
	start := make(chan struct{})
	for g := range c.Lists {
		wg.Add(1)
		go func(g int) {
			defer wg.Done()
			<-start
			results[g] = runList(c.Lists[g])
		}(g)
	}
	close(start)
	wg.Wait()
	regs, decodes := 0, 0
	for g, l := range c.Lists {
		lorawan.VerifResetMACPayloadRegistry()
		alone := runList(l)
		for i := range alone {
			if i >= len(results[g]) || alone[i] != results[g][i] {
				con := "(missing)"
				if i < len(results[g]) {
					con = results[g][i]
				}
				return evid.Fail("goroutine %d of %d: result %d of %d differs between the concurrent run and the same op list run alone:\n concurrent: %s\n alone:      %s", g, len(c.Lists), i, len(alone), con, alone[i])
			}
		}
		for _, o := range l {
			if o.Op == "register" {
				regs++
			}
			if o.Op == "decode" || o.Op == "crypt" {
				decodes++
			}
		}
	}
	for i, b := range c.Shared {
		if b.String() != sharedSnapshot[i] {
			return evid.Fail("a read-only input buffer shared by the goroutines was modified by decoding: %s became %s", sharedSnapshot[i], b)
		}
	}
	lorawan.VerifResetMACPayloadRegistry()
	return evid.Outcome{NonTrivial: regs >= 1 && decodes >= 1, Class: fmt.Sprintf("goroutines=%d", len(c.Lists))}
}

// firstUse: all goroutines run the SAME list at the same time, as the very first thing the process does with the
// library: whatever the library initialises lazily or records "the first time it sees" something (an unknown
// proprietary CID, a band name, a key) is then touched by all of them at once. The generated lists that follow mostly
// meet such state after it has settled.
func firstUse() raceCase {
	var l []raceOp
	key := evid.Hex{1, 2, 3, 4, 5, 6, 7, 8, 9, 10, 11, 12, 13, 14, 15, 16}
	for i := 0; i < 32; i++ {
		for _, mt := range []byte{ref.MTUnconfUp, ref.MTUnconfDown} {
			f := ref.Frame{MType: mt, DevAddr: 0x01020304, FCnt: uint32(i), FPort: -1, FOpts: []byte{0xe0 + byte(i), 0xc0 + byte(i)}}
			l = append(l, raceOp{Op: "decode", Frame: f.Encode()})
			g := ref.Frame{MType: mt + 2, DevAddr: 0x01020304, FCnt: uint32(i), FPort: 0, FRM: []byte{0xff - byte(i), 0x02, 0xdf - byte(i)}}
			l = append(l, raceOp{Op: "decode", Frame: g.Encode()})
		}
	}
	for cid := 0; cid < 0x20; cid++ {
		l = append(l, raceOp{Op: "lookup", CID: byte(cid), Uplink: cid%2 == 0})
	}
	for _, b := range bandNames {
		l = append(l, raceOp{Op: "band", Band: string(b)})
	}
	app := ref.Frame{MType: ref.MTConfUp, DevAddr: 0x26011f2a, FCnt: 70000, FPort: 7, FRM: []byte{1, 2, 3, 4, 5, 6, 7, 8, 9, 10, 11, 12, 13, 14, 15, 16, 17}, FOpts: []byte{0x02}}
	l = append(l, raceOp{Op: "mic", Frame: app.Encode(), Key: key}, raceOp{Op: "crypt", Frame: app.Encode(), Key: key}, raceOp{Op: "netid", Key: key})
	// every MAC command of the specification, alone and inside a frame (FOpts and port-0 payload), payload bytes 0xb7
	for i := range ref.Specs {
		s := &ref.Specs[i]
		cmd := append([]byte{s.CID}, bytes.Repeat([]byte{0xb7}, s.Len)...)
		l = append(l, raceOp{Op: "dectype", Type: "lorawan.MACCommand", Uplink: s.Uplink, Frame: cmd})
		mt := byte(ref.MTUnconfDown)
		if s.Uplink {
			mt = ref.MTUnconfUp
		}
		if len(cmd) <= 15 {
			f := ref.Frame{MType: mt, DevAddr: 0x01020304, FCnt: uint32(i), FPort: -1, FOpts: cmd}
			l = append(l, raceOp{Op: "decode", Frame: f.Encode()})
		}
		g := ref.Frame{MType: mt + 2, DevAddr: 0x01020304, FCnt: uint32(i), FPort: 0, FRM: cmd}
		l = append(l, raceOp{Op: "decode", Frame: g.Encode()})
	}
	// every decoder type on inputs of 0..30 bytes (without asking which lengths it accepts: that would be its first use)
	for i := range gen.Decoders {
		for n := 0; n <= 30; n++ {
			for _, fill := range []byte{0x00, 0xb7} {
				b := bytes.Repeat([]byte{fill}, n)
				if n > 15 {
					b[15] = byte(n & 1) // CFList type
				}
				l = append(l, raceOp{Op: "dectype", Type: gen.Decoders[i].Name, Uplink: n%2 == 0, Frame: b})
			}
		}
	}
	// the text doors
	for _, d := range textDecoders {
		txt := strings.Repeat("9a", d.Len)
		if d.Len == 0 {
			txt = "QAQDAgGAAAAB"
		}
		l = append(l, raceOp{Op: "text", Type: d.Name, Frame: evid.Hex(txt)}, raceOp{Op: "text", Type: d.Name, Frame: evid.Hex("0x" + strings.ToUpper(txt))})
	}
	return raceCase{Lists: [][]raceOp{l}}
}

// checkFirstUse: one operation at a time, each by 8 goroutines released together that do nothing else between the
// release and the call, so that no two of them are ordered by anything but the library's own synchronisation: state
// that an operation sets up on first use is then written by one goroutine and read or written by another without a
// happens-before edge, which the race detector reports whatever the timing. Results are compared with the list run alone.
func checkFirstUse(c raceCase) evid.Outcome {
	if len(c.Lists) != 1 {
		return evid.Outcome{Skip: true}
	}
	lorawan.VerifResetMACPayloadRegistry()
	const n = 8
	l := c.Lists[0]
	results := make([][n]string, len(l))
	for i := range l {
		one := l[i : i+1]
		var wg sync.WaitGroup
		start := make(chan struct{})
		for g := 0; g < n; g++ {
			wg.Add(1)
			go func(g int) {
				defer wg.Done()
				<-start
				results[i][g] = strings.Join(runList(one), "\n")
			}(g)
		}
		close(start)
		wg.Wait()
	}
	lorawan.VerifResetMACPayloadRegistry()
	for i := range l {
		alone := strings.Join(runList(l[i:i+1]), "\n")
		for g := 0; g < n; g++ {
			if results[i][g] != alone {
				return evid.Fail("operation %d of the first-use list (%s %s %x), done by %d goroutines at once as the first use in the process: goroutine %d got a result that differs from the same operation done alone afterwards:\n concurrent: %s\n alone:      %s", i, l[i].Op, l[i].Type, []byte(l[i].Frame), n, g, results[i][g], alone)
			}
		}
	}
	return evid.Outcome{NonTrivial: true, Class: fmt.Sprintf("operations=%d", len(l))}
}

func TestRace(t *testing.T) {
	r := evid.Begin(t, "C10")
	defer r.Finish()
	evid.RunManual(r, t, "race-first-use", "exhaustive",
		"-race build, first thing in the process: a fixed list of operations, each done by 8 goroutines released together that do nothing else before the call (so nothing but the library's own synchronisation orders them, and the detector reports unsynchronised first-use set-up whatever the timing) - every MAC command of the specification decoded alone and inside frames (FOpts, port-0 payload), every decoder type on 0..30 byte inputs, the text doors of the identifiers / DLSettings / PHYPayload, data frames (all four message types) whose FOpts / port-0 payload carry 128 different proprietary CIDs nobody registers, GetMACPayloadAndSize for 32 CIDs, GetConfig for every band, set / validate a MIC, encrypt / decrypt, NetID algebra with one key - so that anything the library sets up lazily or notes on first sight is met by all of them at once. Oracle: every goroutine's result equals the operation done alone afterwards; race-detector reports become violations.",
		true, checkFirstUse, func(m *evid.Manual[raceCase]) {
			if r.Shard == 0 {
				m.Eval(firstUse())
			}
		})
	evid.Rapid(r, t, "race-oplists",
		"rapid, -race build: 2..8 goroutines each run a generated list of 3..14 operations (decode + command decode, set/validate MIC, encrypt/decrypt - two thirds of them with one of two key VALUES shared by all goroutines -, GetMACPayloadAndSize, RegisterProprietaryMACCommand on goroutine-owned CIDs, NetID / DevAddr prefix algebra, decoding frames and single MAC commands from read-only buffers SHARED by all goroutines without copying, band GetConfig + mutations on a local instance, yields) started together; each goroutine's results must equal the same list run alone, and any race-detector report in the process output is reported as a violation by the driver (the detector flags an unsynchronised access pair whenever both execute, not only when they collide). Non-trivial: at least one registration concurrent with a decode.",
		1500, 60000, genRace, checkRace)
}
