//go:build verif

// C10: isolation - no aliasing of caller buffers, no hidden shared state, race-free.
package c10

import (
	"bytes"
	"encoding/json"
	"fmt"
	"reflect"
	"testing"

	"github.com/brocaar/lorawan"
	"github.com/brocaar/lorawan/band"
	"pgregory.net/rapid"

	"verif/harness/internal/evid"
	"verif/harness/internal/gen"
	"verif/harness/internal/ref"
)

// observe renders everything observable about a decoded value: its re-encoding (when it has one), its JSON and its Go syntax.
func observe(v any) string {
	var s string
	if m, ok := v.(interface{ MarshalBinary() ([]byte, error) }); ok {
		b, err := m.MarshalBinary()
		s = fmt.Sprintf("bin=%x err=%v ", b, err)
	}
	j, _ := json.Marshal(v)
	return s + "json=" + string(j) + fmt.Sprintf(" go=%s", deepString(reflect.ValueOf(v)))
}

// deepString prints a value following pointers and interfaces (fmt's %+v stops at nested pointers).
func deepString(v reflect.Value) string {
	switch v.Kind() {
	case reflect.Ptr, reflect.Interface:
		if v.IsNil() {
			return "nil"
		}
		return "&" + deepString(v.Elem())
	case reflect.Struct:
		s := v.Type().Name() + "{"
		for i := 0; i < v.NumField(); i++ {
			s += v.Type().Field(i).Name + ":" + deepString(v.Field(i)) + " "
		}
		return s + "}"
	case reflect.Slice, reflect.Array:
		if v.Type().Elem().Kind() == reflect.Uint8 {
			b := make([]byte, v.Len())
			for i := range b {
				b[i] = byte(v.Index(i).Uint())
			}
			return fmt.Sprintf("%x", b)
		}
		s := "["
		for i := 0; i < v.Len(); i++ {
			s += deepString(v.Index(i)) + " "
		}
		return s + "]"
	default:
		if v.CanInt() {
			return fmt.Sprint(v.Int())
		}
		if v.CanUint() {
			return fmt.Sprint(v.Uint())
		}
		if v.Kind() == reflect.Bool {
			return fmt.Sprint(v.Bool())
		}
		if v.Kind() == reflect.String {
			return v.String()
		}
		return "?"
	}
}

// ---- 1. input aliasing of every decoder; frame-level chain ----

type aliasCase struct {
	Decoder string   `json:"decoder"`
	Uplink  bool     `json:"uplink"`
	Input   evid.Hex `json:"input"`
	Chain   bool     `json:"chain"` // PHYPayload only: also decode FOpts / FRMPayload into commands before observing
}

func genAlias(t *rapid.T) aliasCase {
	if rapid.Bool().Draw(t, "frame") {
		f := gen.AnyFrame(t)
		return aliasCase{Decoder: "lorawan.PHYPayload", Input: f.Encode(), Chain: rapid.Bool().Draw(t, "chain")}
	}
	d := &gen.Decoders[rapid.IntRange(0, len(gen.Decoders)-1).Draw(t, "decoder")]
	n := rapid.IntRange(0, 40).Draw(t, "n")
	if len(d.AcceptedLens()) > 0 {
		n = rapid.SampledFrom(d.AcceptedLens()).Draw(t, "len")
	}
	c := aliasCase{Decoder: d.Name, Uplink: rapid.Bool().Draw(t, "uplink"), Input: gen.Bytes(t, "bytes", n)}
	steer(t, d.Name, c.Input)
	return c
}

// steer makes the first byte of command wrappers a known CID most of the time.
func steer(t *rapid.T, name string, b []byte) {
	if len(b) > 0 && (hasSuffix(name, ".Command") || hasSuffix(name, ".Commands") || name == "lorawan.MACCommand") && rapid.IntRange(0, 4).Draw(t, "steer") != 0 {
		b[0] = byte(rapid.IntRange(0, 0x13).Draw(t, "cid"))
	}
}

func hasSuffix(s, suf string) bool { return len(s) >= len(suf) && s[len(s)-len(suf):] == suf }

func checkAlias(c aliasCase) evid.Outcome {
	d := gen.DecoderByName(c.Decoder)
	if d == nil {
		return evid.Outcome{Skip: true}
	}
	lorawan.VerifResetMACPayloadRegistry()
	buf := append([]byte{}, c.Input...)
	v := d.New()
	if err := d.Decode(v, c.Uplink, buf); err != nil {
		return evid.Outcome{Class: c.Decoder + "/rejected"}
	}
	if p, ok := v.(*lorawan.PHYPayload); ok && c.Chain {
		_ = p.DecodeFOptsToMACCommands()
		if m, ok := p.MACPayload.(*lorawan.MACPayload); ok && m.FPort != nil && *m.FPort == 0 {
			_ = p.DecodeFRMPayloadToMACCommands()
		}
	}
	before := observe(v)
	for i := range buf {
		buf[i] = ^buf[i] // the caller reuses its read buffer
	}
	if after := observe(v); after != before {
		return evid.Fail("%s decoded from %x changes when the caller overwrites the input buffer afterwards:\n before: %s\n after:  %s", c.Decoder, []byte(c.Input), before, after)
	}
	// output aliasing at frame level
	if p, ok := v.(*lorawan.PHYPayload); ok {
		for _, enc := range []func() ([]byte, error){func() ([]byte, error) { return p.MarshalBinary() }, func() ([]byte, error) { return p.MarshalText() }} {
			out, err := enc()
			if err != nil {
				continue
			}
			for i := range out {
				out[i] = ^out[i]
			}
			if after := observe(v); after != before {
				return evid.Fail("PHYPayload decoded from %x changes when the caller overwrites the bytes returned by its encoder", []byte(c.Input))
			}
		}
	}
	nt := len(c.Input) > 8
	return evid.Outcome{NonTrivial: nt, Class: c.Decoder + "/accepted"}
}

// ---- 1b. decoded values are independent of each other ----

// scribble overwrites everything reachable from v through pointers, slices and arrays (what a caller may legitimately do
// with a value it owns): integers are complemented, bools flipped, bytes complemented.
func scribble(v reflect.Value, depth int) {
	if depth > 8 {
		return
	}
	switch v.Kind() {
	case reflect.Ptr, reflect.Interface:
		if !v.IsNil() {
			scribble(v.Elem(), depth+1)
		}
	case reflect.Struct:
		for i := 0; i < v.NumField(); i++ {
			if v.Type().Field(i).PkgPath == "" {
				scribble(v.Field(i), depth+1)
			}
		}
	case reflect.Slice, reflect.Array:
		for i := 0; i < v.Len(); i++ {
			scribble(v.Index(i), depth+1)
		}
	case reflect.Bool:
		if v.CanSet() {
			v.SetBool(!v.Bool())
		}
	case reflect.Uint8, reflect.Uint16, reflect.Uint32, reflect.Uint64, reflect.Uint:
		if v.CanSet() {
			v.SetUint(^v.Uint() & (1<<uint(v.Type().Bits()) - 1))
		}
	case reflect.Int8, reflect.Int16, reflect.Int32, reflect.Int64, reflect.Int:
		if v.CanSet() {
			v.SetInt(^v.Int())
		}
	}
}

type indepCase struct {
	Decoder string   `json:"decoder"`
	Uplink  bool     `json:"uplink"`
	A       evid.Hex `json:"a"`
	B       evid.Hex `json:"b"`
	Chain   bool     `json:"chain"`
}

func genIndep(t *rapid.T) indepCase {
	a := genAlias(t)
	c := indepCase{Decoder: a.Decoder, Uplink: a.Uplink, A: a.Input, Chain: a.Chain}
	c.B = c.A
	if rapid.Bool().Draw(t, "other") {
		c.B = genAlias(t).Input
		if a.Decoder == "lorawan.PHYPayload" {
			c.B = gen.AnyFrame(t).Encode()
		}
	}
	return c
}

func checkIndep(c indepCase) evid.Outcome {
	d := gen.DecoderByName(c.Decoder)
	if d == nil {
		return evid.Outcome{Skip: true}
	}
	lorawan.VerifResetMACPayloadRegistry()
	dec := func(in []byte) any {
		v := d.New()
		if d.Decode(v, c.Uplink, append([]byte{}, in...)) != nil {
			return nil
		}
		if p, ok := v.(*lorawan.PHYPayload); ok && c.Chain {
			_ = p.DecodeFOptsToMACCommands()
			if m, ok := p.MACPayload.(*lorawan.MACPayload); ok && m.FPort != nil && *m.FPort == 0 {
				_ = p.DecodeFRMPayloadToMACCommands()
			}
		}
		return v
	}
	v1, v2 := dec(c.A), dec(c.B)
	if v1 == nil || v2 == nil {
		return evid.Outcome{Class: c.Decoder + "/rejected"}
	}
	before := observe(v2)
	scribble(reflect.ValueOf(v1), 0)
	if after := observe(v2); after != before {
		return evid.Fail("%s: two values decoded from %x and %x share memory: overwriting every field of the first changes the second\n before: %s\n after:  %s", c.Decoder, []byte(c.A), []byte(c.B), before, after)
	}
	// and a value decoded afterwards is not affected either
	v3 := dec(c.B)
	if v3 == nil || observe(v3) != before {
		return evid.Fail("%s: after a caller overwrote every field of a value decoded from %x, decoding %x gives a different result than before (hidden package-level state)", c.Decoder, []byte(c.A), []byte(c.B))
	}
	return evid.Outcome{NonTrivial: len(c.A) > 8, Class: c.Decoder + "/accepted"}
}

// ---- 2. out-of-slice writes ----

type guardCase struct {
	Op      string   `json:"op"`
	Key     evid.Hex `json:"key"`
	Uplink  bool     `json:"uplink"`
	DevAddr uint32   `json:"devaddr"`
	FCnt    uint32   `json:"fcnt"`
	Data    evid.Hex `json:"data"`
	Front   int      `json:"front"` // guard bytes in front
	Spare   int      `json:"spare"` // spare capacity behind the slice
	FPort   int      `json:"fport"`
	MType   byte     `json:"mtype"`
}

var guardOps = []string{"func-frm", "func-fopts", "method-frm", "method-fopts", "method-decrypt-frm", "method-decrypt-fopts", "method-validate", "method-marshal", "method-decrypt-joinaccept", "method-decode-cmds"}

func genGuard(t *rapid.T) guardCase {
	k := gen.Key(t, "key")
	c := guardCase{Op: rapid.SampledFrom(guardOps).Draw(t, "op"), Key: k[:], Uplink: rapid.Bool().Draw(t, "uplink"), DevAddr: uint32(gen.U64(t, "addr")), FCnt: gen.U32(t, "fcnt"),
		Front: rapid.IntRange(0, 8).Draw(t, "front"), Spare: rapid.IntRange(0, 32).Draw(t, "spare"), FPort: rapid.IntRange(1, 255).Draw(t, "fport")}
	n := rapid.IntRange(0, 64).Draw(t, "n")
	switch c.Op {
	case "func-fopts", "method-fopts", "method-decrypt-fopts":
		n = rapid.IntRange(0, 15).Draw(t, "nf")
	case "method-decrypt-joinaccept":
		n = rapid.SampledFrom([]int{12, 28}).Draw(t, "nj")
	case "method-decode-cmds":
		c.FPort = 0
	}
	c.Data = gen.Bytes(t, "data", n)
	c.MType = gen.DataMType(t)
	return c
}

func checkGuard(c guardCase) evid.Outcome {
	var key lorawan.AES128Key
	copy(key[:], c.Key)
	n := len(c.Data)
	back := make([]byte, c.Front+n+c.Spare)
	for i := range back {
		back[i] = 0x5A
	}
	copy(back[c.Front:], c.Data)
	sl := back[c.Front : c.Front+n] // len n, spare capacity c.Spare
	snapshot := append([]byte{}, back...)
	inPlaceAllowed := false // may the n bytes themselves change?
	up := ref.IsUplinkMType(c.MType)
	frame := func(fopts, frm []byte, port int) *lorawan.PHYPayload {
		m := &lorawan.MACPayload{FHDR: lorawan.FHDR{DevAddr: gen.Addr(c.DevAddr), FCnt: c.FCnt}}
		if fopts != nil {
			m.FHDR.FOpts = []lorawan.Payload{&lorawan.DataPayload{Bytes: fopts}}
		}
		if port >= 0 {
			p := uint8(port)
			m.FPort = &p
		}
		if frm != nil {
			m.FRMPayload = []lorawan.Payload{&lorawan.DataPayload{Bytes: frm}}
		}
		return &lorawan.PHYPayload{MHDR: lorawan.MHDR{MType: lorawan.MType(c.MType)}, MACPayload: m}
	}
	switch c.Op {
	case "func-frm":
		inPlaceAllowed = true // documented: the function works on the slice it is given
		_, _ = lorawan.EncryptFRMPayload(key, c.Uplink, gen.Addr(c.DevAddr), c.FCnt, sl)
	case "func-fopts":
		inPlaceAllowed = true
		_, _ = lorawan.EncryptFOpts(key, false, c.Uplink, gen.Addr(c.DevAddr), c.FCnt, sl)
	case "method-frm":
		_ = frame(nil, sl, c.FPort).EncryptFRMPayload(key)
	case "method-decrypt-frm":
		_ = frame(nil, sl, c.FPort).DecryptFRMPayload(key)
	case "method-decode-cmds":
		p := frame(nil, sl, 0)
		_ = p.DecodeFRMPayloadToMACCommands()
		q := frame(sl, nil, -1)
		_ = q.DecodeFOptsToMACCommands()
	case "method-fopts":
		_ = frame(sl, nil, c.FPort).EncryptFOpts(key)
	case "method-decrypt-fopts":
		_ = frame(sl, nil, c.FPort).DecryptFOpts(key)
	case "method-validate":
		p := frame(nil, sl, c.FPort)
		if up {
			_, _ = p.ValidateUplinkDataMIC(lorawan.LoRaWAN1_1, 1, 2, 3, key, key)
			_ = p.SetUplinkDataMIC(lorawan.LoRaWAN1_1, 1, 2, 3, key, key)
			_, _ = p.ValidateUplinkDataMICF(key)
		} else {
			_, _ = p.ValidateDownlinkDataMIC(lorawan.LoRaWAN1_1, 1, key)
			_ = p.SetDownlinkDataMIC(lorawan.LoRaWAN1_1, 1, key)
		}
	case "method-marshal":
		p := frame(nil, sl, c.FPort)
		_, _ = p.MarshalBinary()
		_, _ = p.MarshalText()
		_, _ = json.Marshal(p)
	case "method-decrypt-joinaccept":
		p := &lorawan.PHYPayload{MHDR: lorawan.MHDR{MType: lorawan.JoinAccept}, MACPayload: &lorawan.DataPayload{Bytes: sl}, MIC: lorawan.MIC{1, 2, 3, 4}}
		_ = p.DecryptJoinAcceptPayload(key)
	default:
		return evid.Outcome{Skip: true}
	}
	for i := range back {
		inside := i >= c.Front && i < c.Front+n
		if back[i] != snapshot[i] && !(inside && inPlaceAllowed) {
			where := "inside the slice that the operation only reads"
			if i < c.Front {
				where = "in front of the slice"
			} else if i >= c.Front+n {
				where = fmt.Sprintf("%d bytes behind the end of the slice (in its spare capacity of %d)", i-(c.Front+n)+1, c.Spare)
			}
			return evid.Fail("%s with a %d byte slice: byte at offset %d %s changed from %02x to %02x", c.Op, n, i-c.Front, where, snapshot[i], back[i])
		}
	}
	return evid.Outcome{NonTrivial: n%16 != 0 && c.Spare >= 1, Class: c.Op}
}

// ---- 3. read-only operations ----

type roCase struct {
	F   ref.Frame `json:"frame"`
	Key evid.Hex  `json:"key"`
}

func genRO(t *rapid.T) roCase {
	k := gen.Key(t, "key")
	return roCase{F: *gen.AnyFrame(t), Key: k[:]}
}

func checkRO(c roCase) evid.Outcome {
	var key lorawan.AES128Key
	copy(key[:], c.Key)
	for _, cmds := range []bool{true, false} {
		p, err := gen.ToLib(&c.F, cmds)
		if err != nil {
			return evid.Outcome{Skip: true}
		}
		q, _ := gen.ToLib(&c.F, cmds) // an identical, independent twin
		ops := map[string]func(){
			"MarshalBinary":           func() { _, _ = p.MarshalBinary() },
			"MarshalText":             func() { _, _ = p.MarshalText() },
			"MarshalJSON":             func() { _, _ = json.Marshal(p) },
			"ValidateUplinkDataMIC":   func() { _, _ = p.ValidateUplinkDataMIC(lorawan.LoRaWAN1_1, 7, 1, 2, key, key) },
			"ValidateUplinkDataMICF":  func() { _, _ = p.ValidateUplinkDataMICF(key) },
			"ValidateDownlinkDataMIC": func() { _, _ = p.ValidateDownlinkDataMIC(lorawan.LoRaWAN1_1, 7, key) },
			"ValidateUplinkJoinMIC":   func() { _, _ = p.ValidateUplinkJoinMIC(key) },
			"ValidateDownlinkJoinMIC": func() { _, _ = p.ValidateDownlinkJoinMIC(lorawan.JoinRequestType, lorawan.EUI64{1}, 2, key) },
		}
		for _, name := range []string{"MarshalBinary", "MarshalText", "MarshalJSON", "ValidateUplinkDataMIC", "ValidateUplinkDataMICF", "ValidateDownlinkDataMIC", "ValidateUplinkJoinMIC", "ValidateDownlinkJoinMIC"} {
			ops[name]()
			if !reflect.DeepEqual(p, q) {
				return evid.Fail("%s modifies the frame it only inspects: %s became %s", name, deepString(reflect.ValueOf(q)), deepString(reflect.ValueOf(p)))
			}
		}
	}
	return evid.Outcome{NonTrivial: len(c.F.FOpts) > 0 || len(c.F.FRM) > 0, Class: fmt.Sprintf("mtype%d", c.F.MType)}
}

// ---- 4. reuse differential ----

type reuseCase struct {
	Decoder string   `json:"decoder"`
	Uplink1 bool     `json:"uplink1"`
	Uplink2 bool     `json:"uplink2"`
	B1      evid.Hex `json:"b1"`
	B2      evid.Hex `json:"b2"`
}

func genReuse(t *rapid.T) reuseCase {
	d := &gen.Decoders[rapid.IntRange(0, len(gen.Decoders)-1).Draw(t, "decoder")]
	pick := func(label string) []byte {
		n := rapid.IntRange(0, 40).Draw(t, label+"n")
		if len(d.AcceptedLens()) > 0 && rapid.IntRange(0, 9).Draw(t, label+"fit") != 0 {
			n = rapid.SampledFrom(d.AcceptedLens()).Draw(t, label+"len")
		}
		var b []byte
		switch rapid.IntRange(0, 3).Draw(t, label+"fill") {
		case 0:
			b = bytes.Repeat([]byte{0xff}, n)
		case 1:
			b = bytes.Repeat([]byte{0x00}, n)
		default:
			b = gen.Bytes(t, label, n)
		}
		steer(t, d.Name, b)
		return b
	}
	c := reuseCase{Decoder: d.Name, Uplink1: rapid.Bool().Draw(t, "up1"), B1: pick("b1"), B2: pick("b2")}
	c.Uplink2 = c.Uplink1
	if rapid.IntRange(0, 3).Draw(t, "otherdir") == 0 {
		c.Uplink2 = !c.Uplink1
	}
	if d.Name == "lorawan.PHYPayload" && rapid.Bool().Draw(t, "frames") {
		c.B1, c.B2 = gen.AnyFrame(t).Encode(), gen.AnyFrame(t).Encode()
	}
	return c
}

func checkReuse(c reuseCase) evid.Outcome {
	d := gen.DecoderByName(c.Decoder)
	if d == nil {
		return evid.Outcome{Skip: true}
	}
	lorawan.VerifResetMACPayloadRegistry()
	used := d.New()
	if err := d.Decode(used, c.Uplink1, append([]byte{}, c.B1...)); err != nil {
		return evid.Outcome{Class: c.Decoder + "/first-rejected"}
	}
	// a frame kept by value (receive queue) before its variable decodes the next one
	var kept lorawan.PHYPayload
	var keptObs string
	if p, ok := used.(*lorawan.PHYPayload); ok {
		kept = *p
		keptObs = observe(&kept)
	}
	fresh := d.New()
	errFresh := d.Decode(fresh, c.Uplink2, append([]byte{}, c.B2...))
	errUsed := d.Decode(used, c.Uplink2, append([]byte{}, c.B2...))
	if keptObs != "" {
		if after := observe(&kept); after != keptObs {
			return evid.Fail("lorawan.PHYPayload decoded from %x was kept by value; after the same variable decoded %x (err %v) the kept value reads differently:\n before: %s\n after:  %s", []byte(c.B1), []byte(c.B2), errUsed, keptObs, after)
		}
	}
	if errFresh != nil || errUsed != nil {
		if (errFresh == nil) != (errUsed == nil) {
			return evid.Fail("%s: decoding %x into a value that decoded %x before gives err=%v, into a fresh value err=%v", c.Decoder, []byte(c.B2), []byte(c.B1), errUsed, errFresh)
		}
		return evid.Outcome{Class: c.Decoder + "/second-rejected"}
	}
	if a, b := observe(used), observe(fresh); a != b {
		return evid.Fail("%s: decoding %x into a value that decoded %x before differs from decoding it into a fresh value:\n reused: %s\n fresh:  %s", c.Decoder, []byte(c.B2), []byte(c.B1), a, b)
	}
	// a value the caller has worked with in between (every exported field reachable from it changed: the full 32-bit
	// frame counter stored back, flags toggled, bytes overwritten) decodes like a fresh one, too
	worked := d.New()
	if err := d.Decode(worked, c.Uplink1, append([]byte{}, c.B1...)); err == nil {
		scribble(reflect.ValueOf(worked), 0)
		if err := d.Decode(worked, c.Uplink2, append([]byte{}, c.B2...)); err != nil {
			return evid.Fail("%s: decoding %x into a value that decoded %x before and whose fields the caller changed since: %v; a fresh value accepts it", c.Decoder, []byte(c.B2), []byte(c.B1), err)
		}
		if a, b := observe(worked), observe(fresh); a != b {
			return evid.Fail("%s: decoding %x into a value that decoded %x before and whose fields the caller changed since differs from decoding it into a fresh value:\n reused: %s\n fresh:  %s", c.Decoder, []byte(c.B2), []byte(c.B1), a, b)
		}
	}
	nt := false
	for i := range c.B1 {
		if i < len(c.B2) && c.B1[i]&^c.B2[i] != 0 {
			nt = true
		}
	}
	return evid.Outcome{NonTrivial: nt || len(c.B1) > len(c.B2), Class: c.Decoder + "/both-accepted"}
}

// ---- 4b. band instances share no mutable state ----

type bandOp struct {
	Op   string `json:"op"` // add | disable | enable
	Freq uint32 `json:"freq,omitempty"`
	Min  int    `json:"min,omitempty"`
	Max  int    `json:"max,omitempty"`
	Idx  int    `json:"idx,omitempty"`
}

type bandCase struct {
	Band     string   `json:"band"`
	Repeater bool     `json:"repeater"`
	Dwell    bool     `json:"dwell400ms"`
	Ops      []bandOp `json:"ops"`
}

var bandNames = []band.Name{band.EU868, band.US915, band.CN779, band.EU433, band.AU915, band.CN470, band.AS923, band.AS923_2, band.AS923_3, band.AS923_4, band.KR920, band.IN865, band.RU864, band.ISM2400}

func genBand(t *rapid.T) bandCase {
	c := bandCase{Band: string(rapid.SampledFrom(bandNames).Draw(t, "band")), Repeater: rapid.Bool().Draw(t, "repeater"), Dwell: rapid.Bool().Draw(t, "dwell")}
	n := rapid.IntRange(1, 12).Draw(t, "nops")
	for i := 0; i < n; i++ {
		switch rapid.IntRange(0, 2).Draw(t, "op") {
		case 0:
			c.Ops = append(c.Ops, bandOp{Op: "add", Freq: uint32(rapid.IntRange(0, 30000).Draw(t, "f")) * 100000, Min: rapid.IntRange(0, 5).Draw(t, "min"), Max: rapid.IntRange(0, 7).Draw(t, "max")})
		case 1:
			c.Ops = append(c.Ops, bandOp{Op: "disable", Idx: rapid.IntRange(0, 100).Draw(t, "idx")})
		default:
			c.Ops = append(c.Ops, bandOp{Op: "enable", Idx: rapid.IntRange(0, 100).Draw(t, "idx")})
		}
	}
	return c
}

func bandObserve(b band.Band) string {
	snap, _ := band.VerifSnapshot(b)
	s := fmt.Sprintf("%+v", snap)
	s += fmt.Sprint(b.GetUplinkChannelIndices(), b.GetEnabledUplinkChannelIndices(), b.GetDisabledUplinkChannelIndices(), b.GetCustomUplinkChannelIndices(), b.GetStandardUplinkChannelIndices())
	for _, v := range []string{"1.0.2", "1.0.3", "1.1.0"} {
		if cf := b.GetCFList(v); cf != nil {
			s += deepString(reflect.ValueOf(cf))
		}
	}
	s += deepString(reflect.ValueOf(b.GetLinkADRReqPayloadsForEnabledUplinkChannelIndices([]int{0, 1, 2})))
	return s
}

func checkBand(c bandCase) evid.Outcome {
	dt := lorawan.DwellTimeNoLimit
	if c.Dwell {
		dt = lorawan.DwellTime400ms
	}
	a, err := band.GetConfig(band.Name(c.Band), c.Repeater, dt)
	if err != nil {
		return evid.Outcome{Skip: true}
	}
	b, _ := band.GetConfig(band.Name(c.Band), c.Repeater, dt)
	pristine := bandObserve(b)
	if pa := bandObserve(a); pa != pristine {
		return evid.Fail("%s: two fresh configurations differ", c.Band)
	}
	changed := 0
	for _, o := range c.Ops {
		switch o.Op {
		case "add":
			if a.AddChannel(o.Freq, o.Min, o.Max) == nil {
				changed++
			}
		case "disable":
			if a.DisableUplinkChannelIndex(o.Idx) == nil {
				changed++
			}
		case "enable":
			if a.EnableUplinkChannelIndex(o.Idx) == nil {
				changed++
			}
		}
		if now := bandObserve(b); now != pristine {
			return evid.Fail("%s (repeater=%v dwell=%v): operation %+v on one band object changed another object obtained from a separate GetConfig call", c.Band, c.Repeater, c.Dwell, o)
		}
	}
	fresh, _ := band.GetConfig(band.Name(c.Band), c.Repeater, dt)
	if bandObserve(fresh) != pristine {
		return evid.Fail("%s: a configuration obtained after mutating another object differs from the pristine one (shared package-level state)", c.Band)
	}
	return evid.Outcome{NonTrivial: changed > 0 && bandObserve(a) != pristine, Class: c.Band}
}

// ---- 4c. the first configuration of a process and the configurations obtained after it ----

type cfgOrderCase struct {
	Band string `json:"band"`
	// First: index of the (repeater, dwell) combination configured first; the other three follow
	First int `json:"first"`
}

// checkCfgOrder must see the band before anything else in the process configured it: state shared between
// configurations (a package-level table that a constructor adjusts in place) is wrong from the first adjustment on, and
// every later comparison of two objects would compare two equally wrong ones.
func checkCfgOrder(c cfgOrderCase) evid.Outcome {
	combos := [][2]bool{{false, false}, {true, false}, {false, true}, {true, true}}
	if c.First < 0 || c.First > 3 {
		return evid.Outcome{Skip: true}
	}
	dwell := func(d bool) lorawan.DwellTime {
		if d {
			return lorawan.DwellTime400ms
		}
		return lorawan.DwellTimeNoLimit
	}
	f := combos[c.First]
	first, err := band.GetConfig(band.Name(c.Band), f[0], dwell(f[1]))
	if err != nil {
		return evid.Outcome{Skip: true}
	}
	pristine := bandObserve(first)
	for i, o := range combos {
		if i == c.First {
			continue
		}
		if _, err := band.GetConfig(band.Name(c.Band), o[0], dwell(o[1])); err != nil {
			return evid.Fail("GetConfig(%s, %v, %v): %v", c.Band, o[0], o[1], err)
		}
		if now := bandObserve(first); now != pristine {
			return evid.Fail("%s: the object configured first (repeater=%v dwell400ms=%v) changed when the configuration (repeater=%v dwell400ms=%v) was obtained afterwards: separate configuration calls share mutable state", c.Band, f[0], f[1], o[0], o[1])
		}
	}
	again, _ := band.GetConfig(band.Name(c.Band), f[0], dwell(f[1]))
	if bandObserve(again) != pristine {
		return evid.Fail("%s: (repeater=%v dwell400ms=%v) configured a second time, after the three other combinations had been configured, differs from the first object of the process", c.Band, f[0], f[1])
	}
	return evid.Outcome{NonTrivial: true, Class: c.Band}
}

func TestProp(t *testing.T) {
	r := evid.Begin(t, "C10")
	defer r.Finish()

	// first, while no band has been configured in this process yet (every shard is a process of its own and takes
	// another combination first)
	evid.Exhaustive(r, t, "band-configuration-order",
		"the 14 bands; in every shard process, before anything else configures a band: GetConfig for one (repeater, dwell-time) combination - which one rotates with the shard number and the band -, observe it (snapshot hook incl. max-payload tables, getters, CFList, LinkADRReq plan), then GetConfig for the three other combinations, the first object must be unchanged after each; the first combination configured again must give an object equal to the first. Every case is non-trivial.",
		true,
		func(emit func(cfgOrderCase)) {
			for i, n := range bandNames {
				for s := 0; s < r.NShards; s++ {
					// round-robin dealing: case index i*NShards+s goes to shard s
					emit(cfgOrderCase{Band: string(n), First: (i + s) % 4})
				}
			}
		}, checkCfgOrder)

	evid.Rapid(r, t, "input-output-aliasing",
		fmt.Sprintf("rapid: valid frames of all MTypes (half of them further decoded into MAC commands) and each of the %d decoder types on inputs of an accepted length: the decoded value is observed (re-encoding, JSON, deep print), the input buffer is overwritten with its complement, and the value must be unchanged; for frames also the bytes returned by MarshalBinary/MarshalText are overwritten. Non-trivial: accepted input longer than 8 bytes.", len(gen.Decoders)),
		120000, 4000000, genAlias, checkAlias)

	evid.Rapid(r, t, "decoded-values-independent",
		"rapid: two values decoded from the same or from two different inputs (frames, half of them further decoded into MAC commands, and every decoder type); every exported field reachable from the first through pointers, slices and arrays is overwritten (what a caller may do with a value it owns); the second value, and a third one decoded afterwards, must be observably unchanged (no memory shared between decoded values, no package-level tables handed out). Non-trivial: input longer than 8 bytes.",
		80000, 3000000, genIndep, checkIndep)

	evid.Rapid(r, t, "guard-bytes",
		"rapid: exported EncryptFRMPayload / EncryptFOpts and the PHYPayload methods Encrypt*/Decrypt*/Validate*/Set*/Marshal*/Decode*ToMACCommands/DecryptJoinAcceptPayload on a frame whose payload bytes are a sub-slice back[g:g+n] of a larger buffer filled with a guard pattern, 0..8 guard bytes in front and 0..32 bytes of spare capacity behind; oracle: every byte outside the slice is unchanged afterwards, and for the methods (which work on copies) also the bytes inside. Non-trivial: length not a multiple of 16 with spare capacity >= 1.",
		120000, 4000000, genGuard, checkGuard)

	evid.Rapid(r, t, "read-only-operations",
		"rapid: frames of all MTypes built twice from the same model value; after each of MarshalBinary/Text/JSON and every Validate* the operated frame must be deeply equal to its untouched twin. Non-trivial: frame with FOpts or FRMPayload.",
		40000, 1500000, genRO, checkRO)

	evid.Rapid(r, t, "reuse-differential",
		fmt.Sprintf("rapid: for each of the %d decoder types: decode b1 then b2 into the same value vs. b2 into a fresh one (lengths from each type's accepted lengths; contents random / 0x00 / 0xFF; command wrappers steered to known CIDs; a quarter with the other direction for b2); whenever both succeed the two values must be observably equal, and they must succeed or fail together. Non-trivial: b1 has a bit set that b2 lacks, or is longer.", len(gen.Decoders)),
		300000, 10000000, genReuse, checkReuse)

	evid.Rapid(r, t, "reuse-text-doors",
		"rapid: the types that decode from text - EUI64, DevAddr, NetID, AES128Key, DLSettings (hexadecimal, either case, optional 0x, sometimes one byte short / long or with a non-hex character) and PHYPayload (base64 of generated frames, sometimes cut) - through UnmarshalText, through encoding/json into an existing value, and for the four identifiers through Scan: text t1 then t2 into the same value vs. t2 into a fresh one; they must succeed or fail together and, when both succeed, be observably equal. Non-trivial: both accepted and t1 != t2.",
		100000, 3000000, genTextReuse, checkTextReuse)

	evid.Rapid(r, t, "band-instances",
		"rapid: two GetConfig results for the same (name, repeater, dwell); a generated AddChannel/Disable/Enable history on one; after every step the other's internal tables (snapshot hook) and public getters (index sets, CFList, LinkADRReq plan) are unchanged, and a configuration obtained afterwards equals the pristine one. Non-trivial: the history changed the first object.",
		20000, 600000, genBand, checkBand)
}
