//go:build verif

// C06: wire format of frames, MAC commands and CFList matches an independent spec model.
package c06

import (
	"bytes"
	"fmt"
	"reflect"
	"testing"

	"github.com/brocaar/lorawan"
	"pgregory.net/rapid"

	"verif/harness/internal/evid"
	"verif/harness/internal/gen"
	"verif/harness/internal/ref"
)

// requiredAccept tells whether the encoder must accept these (representable)
// values: values the specification marks RFU or as aliases are in nobody's
// required-accept set (the encoder may refuse them; if it accepts, the bytes must be right).
func requiredAccept(s *ref.Spec, v ref.Vals) bool {
	switch s.Name {
	case "ResetInd", "RekeyInd":
		return v["DevLoRaWANVersion.Minor"] <= 1
	case "ResetConf", "RekeyConf":
		return v["ServLoRaWANVersion.Minor"] <= 1
	case "ForceRejoinReq":
		return v["RejoinType"] == 0 || v["RejoinType"] == 2
	case "DeviceModeInd", "DeviceModeConf":
		return v["Class"] == 0 || v["Class"] == 2
	}
	return true
}

// ---- MAC payload bytes -> value -> bytes ----

type plCase struct {
	Name  string   `json:"payload"`
	Bytes evid.Hex `json:"bytes"`
}

func checkPayloadBytes(c plCase) evid.Outcome {
	s := ref.SpecByName(c.Name)
	if s == nil || len(c.Bytes) != s.Len {
		return evid.Outcome{Skip: true}
	}
	want, _ := s.Decode(c.Bytes)
	p := gen.NewPayload[s.Name]()
	// the payload as it sits in a frame: followed by the next command's bytes in the same buffer
	buf := append(append(make([]byte, 0, len(c.Bytes)+4), c.Bytes...), 0xA5, 0x5A, 0xA5, 0x5A)
	if err := p.UnmarshalBinary(buf[:len(c.Bytes)]); err != nil {
		return evid.Fail("%s.UnmarshalBinary(%x): %v", s.Name, []byte(c.Bytes), err)
	}
	if !bytes.Equal(buf[len(c.Bytes):], []byte{0xA5, 0x5A, 0xA5, 0x5A}) || !bytes.Equal(buf[:len(c.Bytes)], c.Bytes) {
		return evid.Fail("%s.UnmarshalBinary(%x) changed the buffer it decodes from: the bytes that follow the payload became %x", s.Name, []byte(c.Bytes), buf[len(c.Bytes):])
	}
	got := gen.Flatten(p)
	rfu := false
	for i, m := range s.RFUMask() {
		if c.Bytes[i]&m != 0 {
			rfu = true
		}
	}
	if !got.Equal(want) {
		// LoRaWAN 1.0.0/1.0.1 define MaxDCycle as a whole byte (255 = off); 1.0.2+ as 4 bits: either reading is accepted
		if !(s.Name == "DutyCycleReq" && got["MaxDCycle"] == int64(c.Bytes[0])) {
			return evid.Fail("%s: bytes %x decode to %v, the specification layout gives %v (reserved bits set: %v)", s.Name, []byte(c.Bytes), got, want, rfu)
		}
		want = got
	}
	// re-encode the decoded value: must be the spec encoding (reserved bits zero)
	wb, werr := s.Encode(want)
	if s.Name == "DutyCycleReq" && want["MaxDCycle"] > 15 {
		wb, werr = []byte{byte(want["MaxDCycle"])}, nil
		if want["MaxDCycle"] != 255 {
			werr = fmt.Errorf("not a value of any specification version")
		}
	}
	q := gen.NewPayload[s.Name]()
	if !gen.Fill(q, want) {
		return evid.Fail("%s: specification value %v does not fit the library type", s.Name, want)
	}
	lb, lerr := q.MarshalBinary()
	switch {
	case werr != nil:
		if lerr == nil && !bytes.Equal(lb, c.Bytes) {
			return evid.Fail("%s: value %v is not encodable per specification, the library encodes it as %x", s.Name, want, lb)
		}
	case lerr != nil:
		if requiredAccept(s, want) {
			return evid.Fail("%s: encoder refuses the specification value %v: %v", s.Name, want, lerr)
		}
	case !bytes.Equal(lb, wb):
		return evid.Fail("%s: value %v encodes to %x, specification layout gives %x", s.Name, want, lb, wb)
	}
	max := false
	for _, f := range s.Fields {
		if _, hi := f.Range(); want[f.Name] == hi {
			max = true
		}
	}
	return evid.Outcome{NonTrivial: rfu || max, Class: s.Name, Key: append([]byte(s.Name), c.Bytes...)}
}

// ---- every MAC command inside a frame of each message type of its direction ----

type inFrameCase struct {
	Name  string `json:"payload"`
	MType byte   `json:"mtype"`
	Where string `json:"where"` // fopts | frm0
	Fill  byte   `json:"fill"`  // the payload bytes are Fill, Fill+1, ...
}

func checkInFrame(c inFrameCase) evid.Outcome {
	s := ref.SpecByName(c.Name)
	if s == nil || !ref.IsData(c.MType) || ref.IsUplinkMType(c.MType) != s.Uplink {
		return evid.Outcome{Skip: true}
	}
	pl := make([]byte, s.Len)
	for i := range pl {
		pl[i] = c.Fill + byte(i)
	}
	want, err := s.Decode(pl)
	if err != nil {
		return evid.Outcome{Skip: true}
	}
	// the command between two payload-less commands of its direction, so that a wrong length shows
	pad := byte(0x06) // DevStatusReq (downlink, no payload)
	if s.Uplink {
		pad = 0x02 // LinkCheckReq (uplink, no payload)
	}
	stream := append(append([]byte{pad, s.CID}, pl...), pad)
	f := ref.Frame{MType: c.MType, DevAddr: 0x26011f2a, FCnt: 7, FPort: -1}
	if c.Where == "fopts" {
		if len(stream) > 15 {
			return evid.Outcome{Skip: true}
		}
		f.FOpts = stream
	} else {
		f.FPort, f.FRM = 0, stream
	}
	var q lorawan.PHYPayload
	if err := q.UnmarshalBinary(f.Encode()); err != nil {
		return evid.Fail("MType %d frame %x carrying %s in %s does not decode: %v", c.MType, f.Encode(), s.Name, c.Where, err)
	}
	m := q.MACPayload.(*lorawan.MACPayload)
	var items []lorawan.Payload
	if c.Where == "fopts" {
		err = q.DecodeFOptsToMACCommands()
		items = m.FHDR.FOpts
	} else {
		err = q.DecodeFRMPayloadToMACCommands()
		items = m.FRMPayload
	}
	if err != nil || len(items) != 3 {
		return evid.Fail("MType %d (%s) frame carrying the commands %x in %s: command decode gives %d commands, error %v; the stream holds 3 (%02x, %s, %02x)", c.MType, dirName(s.Uplink), stream, c.Where, len(items), err, pad, s.Name, pad)
	}
	mc, ok := items[1].(*lorawan.MACCommand)
	if !ok || byte(mc.CID) != s.CID || mc.Payload == nil {
		return evid.Fail("MType %d (%s) frame carrying %s (%x) in %s: the second command decodes as %+v", c.MType, dirName(s.Uplink), s.Name, stream, c.Where, items[1])
	}
	got := gen.Flatten(mc.Payload)
	if !got.Equal(want) && !(s.Name == "DutyCycleReq" && got["MaxDCycle"] == int64(pl[0])) {
		return evid.Fail("MType %d (%s) frame carrying %s with payload %x in %s: decoded fields %v (as %T), the specification layout for this direction gives %v", c.MType, dirName(s.Uplink), s.Name, pl, c.Where, got, mc.Payload, want)
	}
	if c.Where == "frm0" {
		// the same frame as it is received: the port-0 payload encrypted with the network session key (reference
		// keystream), opened in the documented order - decode, decode the (absent) FOpts, decrypt the FRMPayload
		var k ref.Key
		for i := range k {
			k[i] = c.Fill ^ byte(0x31*i+7)
		}
		for fcnt := uint32(0); fcnt < 24; fcnt++ {
			ef := f
			ef.FCnt = fcnt
			ef.FRM = ref.Keystream(k, s.Uplink, ef.DevAddr, fcnt, stream)
			var e lorawan.PHYPayload
			if err := e.UnmarshalBinary(ef.Encode()); err != nil {
				return evid.Fail("MType %d frame %x (port 0, encrypted commands) does not decode: %v", c.MType, ef.Encode(), err)
			}
			if err := e.DecodeFOptsToMACCommands(); err != nil {
				return evid.Fail("MType %d frame %x (port 0, no FOpts): DecodeFOptsToMACCommands: %v", c.MType, ef.Encode(), err)
			}
			if err := e.DecryptFRMPayload(lorawan.AES128Key(k)); err != nil {
				return evid.Fail("MType %d frame %x (port 0, commands %x encrypted with %x, FCnt %d): decode, DecodeFOptsToMACCommands, DecryptFRMPayload: %v", c.MType, ef.Encode(), stream, k[:], fcnt, err)
			}
			em := e.MACPayload.(*lorawan.MACPayload)
			if len(em.FRMPayload) != 3 {
				return evid.Fail("MType %d frame %x (port 0, commands %x encrypted with %x, FCnt %d): decode, DecodeFOptsToMACCommands, DecryptFRMPayload give %d commands, the stream holds 3", c.MType, ef.Encode(), stream, k[:], fcnt, len(em.FRMPayload))
			}
			emc, ok := em.FRMPayload[1].(*lorawan.MACCommand)
			if !ok || byte(emc.CID) != s.CID || emc.Payload == nil {
				return evid.Fail("MType %d frame %x (port 0, commands %x encrypted with %x, FCnt %d): the second command decodes as %+v", c.MType, ef.Encode(), stream, k[:], fcnt, em.FRMPayload[1])
			}
			if eg := gen.Flatten(emc.Payload); !eg.Equal(want) && !(s.Name == "DutyCycleReq" && eg["MaxDCycle"] == int64(pl[0])) {
				return evid.Fail("MType %d frame %x (port 0, %s payload %x encrypted with %x, FCnt %d) opened by decode, DecodeFOptsToMACCommands, DecryptFRMPayload: fields %v, the specification layout gives %v", c.MType, ef.Encode(), s.Name, pl, k[:], fcnt, eg, want)
			}
		}
	}
	return evid.Outcome{NonTrivial: true, Class: fmt.Sprintf("%s/mtype%d/%s", s.Name, c.MType, c.Where)}
}

func dirName(up bool) string {
	if up {
		return "uplink"
	}
	return "downlink"
}

// ---- MAC payload value -> bytes -> value (3-5 byte payloads, generated) ----

type valCase struct {
	Name string   `json:"payload"`
	Vals ref.Vals `json:"vals"`
	RFU  evid.Hex `json:"rfu"` // noise for the reserved bits when decoding
}

func genVal(t *rapid.T) valCase {
	var big []string
	for _, s := range ref.Specs {
		if s.Len >= 3 {
			big = append(big, s.Name)
		}
	}
	name := rapid.SampledFrom(big).Draw(t, "payload")
	s := ref.SpecByName(name)
	v := ref.Vals{}
	for _, f := range s.Fields {
		v[f.Name] = gen.FieldVal(t, f)
	}
	if name == "DeviceTimeAns" && rapid.Bool().Draw(t, "subresolution") {
		// a time between two 1/256 s steps: the wire value must be within one step of it
		v["TimeSinceGPSEpoch"] += int64(rapid.IntRange(1, 3906249).Draw(t, "ns"))
	}
	return valCase{Name: name, Vals: v, RFU: gen.Bytes(t, "rfu", s.Len)}
}

func checkVal(c valCase) evid.Outcome {
	s := ref.SpecByName(c.Name)
	if t := c.Vals["TimeSinceGPSEpoch"]; c.Name == "DeviceTimeAns" && t%3906250 != 0 && t > 0 && t < (1<<32-2)*1e9 {
		// not on the 1/256 s raster: the specification does not fix the rounding mode, so any wire value within one
		// step of the time is accepted (truncation, or rounding with a carry into the seconds)
		p := gen.NewPayload[s.Name]()
		if !gen.Fill(p, c.Vals) {
			return evid.Outcome{Skip: true}
		}
		lb, err := p.MarshalBinary()
		if err != nil {
			return evid.Fail("DeviceTimeAns: encoder refuses %d ns: %v", t, err)
		}
		got, err := s.Decode(lb)
		if err != nil {
			return evid.Fail("DeviceTimeAns: %d ns encodes to %x: %v", t, lb, err)
		}
		if d := got["TimeSinceGPSEpoch"] - t; d <= -3906250 || d >= 3906250 {
			return evid.Fail("DeviceTimeAns: %d ns encodes to %x, which stands for %d ns: off by %d ns, more than the 1/256 s resolution", t, lb, got["TimeSinceGPSEpoch"], d)
		}
		return evid.Outcome{NonTrivial: true, Class: s.Name + "/between-steps"}
	}
	if c.Name == "DeviceTimeAns" && c.Vals["TimeSinceGPSEpoch"]%3906250 != 0 {
		return evid.Outcome{Skip: true} // off-raster value at the very end of the range: carry could overflow, not judged
	}
	wb, err := s.Encode(c.Vals)
	if err != nil {
		return evid.Outcome{Skip: true}
	}
	p := gen.NewPayload[s.Name]()
	if !gen.Fill(p, c.Vals) {
		return evid.Outcome{Skip: true}
	}
	lb, err := p.MarshalBinary()
	if err != nil {
		if requiredAccept(s, c.Vals) {
			return evid.Fail("%s: encoder refuses the specification value %v: %v", s.Name, c.Vals, err)
		}
		return evid.Outcome{Class: s.Name + "/optional-refused"}
	}
	if !bytes.Equal(lb, wb) {
		return evid.Fail("%s: value %v encodes to %x, specification layout gives %x", s.Name, c.Vals, lb, wb)
	}
	// decode the spec bytes with noise in the reserved bits
	noisy := append([]byte{}, wb...)
	rfu := false
	for i, m := range s.RFUMask() {
		noisy[i] |= c.RFU[i] & m
		rfu = rfu || c.RFU[i]&m != 0
	}
	q := gen.NewPayload[s.Name]()
	nbuf := append(append(make([]byte, 0, len(noisy)+4), noisy...), 0xA5, 0x5A, 0xA5, 0x5A)
	if err := q.UnmarshalBinary(nbuf[:len(noisy)]); err != nil {
		return evid.Fail("%s.UnmarshalBinary(%x): %v", s.Name, noisy, err)
	}
	if !bytes.Equal(nbuf[len(noisy):], []byte{0xA5, 0x5A, 0xA5, 0x5A}) || !bytes.Equal(nbuf[:len(noisy)], noisy) {
		return evid.Fail("%s.UnmarshalBinary(%x) changed the buffer it decodes from: the bytes that follow the payload (the next command in a frame) became %x", s.Name, noisy, nbuf[len(noisy):])
	}
	if got := gen.Flatten(q); !got.Equal(c.Vals) {
		return evid.Fail("%s: bytes %x decode to %v, specification layout gives %v (reserved bits set: %v)", s.Name, noisy, got, c.Vals, rfu)
	}
	// the decoded value encodes to the specification bytes again; both results are kept while the zero value of the
	// type is encoded, and still read the same afterwards
	lb2, err := q.MarshalBinary()
	if err != nil || !bytes.Equal(lb2, wb) {
		return evid.Fail("%s: the value decoded from %x encodes to %x (err %v), specification layout gives %x", s.Name, noisy, lb2, err, wb)
	}
	_, _ = gen.NewPayload[s.Name]().MarshalBinary()
	if !bytes.Equal(lb, wb) || !bytes.Equal(lb2, wb) {
		return evid.Fail("%s: value %v was encoded to %x; after the zero value of the type was encoded the returned slices read %x and %x (an earlier result changes under a later call)", s.Name, c.Vals, wb, lb, lb2)
	}
	max := false
	for _, f := range s.Fields {
		if _, hi := f.Range(); c.Vals[f.Name] == hi {
			max = true
		}
	}
	return evid.Outcome{NonTrivial: rfu || max, Class: s.Name}
}

// ---- one-byte structures: MHDR, FCtrl, DLSettings ----

type byteCase struct {
	What string `json:"what"`
	B    byte   `json:"byte"`
}

func checkByte(c byteCase) evid.Outcome {
	b := c.B
	switch c.What {
	case "mhdr":
		var h lorawan.MHDR
		if err := h.UnmarshalBinary([]byte{b}); err != nil {
			return evid.Fail("MHDR.UnmarshalBinary(%02x): %v", b, err)
		}
		if byte(h.MType) != b>>5 || byte(h.Major) != b&3 {
			return evid.Fail("MHDR %02x decodes to MType %d Major %d, specification: MType %d Major %d", b, h.MType, h.Major, b>>5, b&3)
		}
		out, err := h.MarshalBinary()
		if err != nil || len(out) != 1 || out[0] != b&0xE3 {
			return evid.Fail("MHDR{MType %d, Major %d} encodes to %x (err %v), specification %02x", h.MType, h.Major, out, err, b&0xE3)
		}
		return evid.Outcome{NonTrivial: b&0x1c != 0 || b>>5 == 7, Class: "mhdr"}
	case "fctrl":
		var f lorawan.FCtrl
		if err := f.UnmarshalBinary([]byte{b}); err != nil {
			return evid.Fail("FCtrl.UnmarshalBinary(%02x): %v", b, err)
		}
		if f.ADR != (b&0x80 != 0) || f.ADRACKReq != (b&0x40 != 0) || f.ACK != (b&0x20 != 0) || f.FPending != (b&0x10 != 0) || f.ClassB != (b&0x10 != 0) {
			return evid.Fail("FCtrl %02x decodes to %+v, specification: ADR[7] ADRACKReq[6] ACK[5] FPending/ClassB[4]", b, f)
		}
		out, err := f.MarshalBinary()
		if err != nil || len(out) != 1 || out[0] != b {
			return evid.Fail("FCtrl decoded from %02x re-encodes to %x (err %v)", b, out, err)
		}
		// through a frame header: FOptsLen nibble must equal the number of FOpts bytes
		n := int(b & 0x0f)
		h := lorawan.FHDR{DevAddr: lorawan.DevAddr{1, 2, 3, 4}, FCnt: 0x1234, FCtrl: lorawan.FCtrl{ADR: f.ADR, ADRACKReq: f.ADRACKReq, ACK: f.ACK, FPending: f.FPending}}
		if n > 0 {
			h.FOpts = []lorawan.Payload{&lorawan.DataPayload{Bytes: bytes.Repeat([]byte{0x02}, n)}}
		}
		hb, err := h.MarshalBinary()
		want := append([]byte{4, 3, 2, 1, b, 0x34, 0x12}, bytes.Repeat([]byte{0x02}, n)...)
		if err != nil || !bytes.Equal(hb, want) {
			return evid.Fail("FHDR with FCtrl %02x encodes to %x (err %v), specification %x", b, hb, err, want)
		}
		// an FHDR decoded with n FOpts bytes whose FOpts are then removed encodes with FOptsLen 0
		var dh lorawan.FHDR
		if err := dh.UnmarshalBinary(true, append([]byte{}, want...)); err != nil {
			return evid.Fail("FHDR.UnmarshalBinary(%x): %v", want, err)
		}
		dh.FOpts = nil
		hb2, err := dh.MarshalBinary()
		want2 := []byte{4, 3, 2, 1, b & 0xf0, 0x34, 0x12}
		if err != nil || !bytes.Equal(hb2, want2) {
			return evid.Fail("FHDR decoded from %x with its FOpts then removed encodes to %x (err %v), specification %x (FOptsLen is the number of FOpts bytes)", want, hb2, err, want2)
		}
		return evid.Outcome{NonTrivial: n == 15 || b&0xf0 == 0xf0, Class: "fctrl"}
	case "dlsettings":
		var d lorawan.DLSettings
		if err := d.UnmarshalBinary([]byte{b}); err != nil {
			return evid.Fail("DLSettings.UnmarshalBinary(%02x): %v", b, err)
		}
		if d.OptNeg != (b&0x80 != 0) || d.RX1DROffset != b>>4&7 || d.RX2DataRate != b&0x0f {
			return evid.Fail("DLSettings %02x decodes to %+v, specification: OptNeg[7] RX1DRoffset[6:4] RX2DataRate[3:0]", b, d)
		}
		out, err := d.MarshalBinary()
		if err != nil || len(out) != 1 || out[0] != b {
			return evid.Fail("DLSettings %+v encodes to %x (err %v), specification %02x", d, out, err, b)
		}
		return evid.Outcome{NonTrivial: b&0x80 != 0 || b&0x70 == 0x70, Class: "dlsettings"}
	}
	return evid.Outcome{Skip: true}
}

// ---- registry ----

type regCase struct {
	CID    byte `json:"cid"`
	Uplink bool `json:"uplink"`
}

func checkRegistry(c regCase) evid.Outcome {
	lorawan.VerifResetMACPayloadRegistry()
	p, size, err := lorawan.GetMACPayloadAndSize(c.Uplink, lorawan.CID(c.CID))
	s := ref.SpecFor(c.Uplink, c.CID)
	if s == nil && c.CID >= 0x80 {
		// proprietary: after a registration the constructor must give independent objects of the registered size
		// a stream decoded BEFORE the registration frames the CID without payload ...
		mt := byte(ref.MTUnconfDown)
		filler := byte(0x06)
		if c.Uplink {
			mt, filler = ref.MTUnconfUp, 0x02
		}
		decode := func(fopts []byte) (int, error) {
			f := ref.Frame{MType: mt, DevAddr: 1, FPort: -1, FOpts: fopts}
			var q lorawan.PHYPayload
			if err := q.UnmarshalBinary(f.Encode()); err != nil {
				return 0, err
			}
			if err := q.DecodeFOptsToMACCommands(); err != nil {
				return 0, err
			}
			return len(q.MACPayload.(*lorawan.MACPayload).FHDR.FOpts), nil
		}
		if n, err := decode([]byte{c.CID, filler, filler}); err != nil || n != 3 {
			return evid.Fail("unregistered proprietary CID %#02x uplink=%v followed by two commands decodes to %d commands (err %v), want 3", c.CID, c.Uplink, n, err)
		}
		if err := lorawan.RegisterProprietaryMACCommand(c.Uplink, lorawan.CID(c.CID), 2); err != nil {
			return evid.Fail("RegisterProprietaryMACCommand(%v, %#02x, 2): %v", c.Uplink, c.CID, err)
		}
		defer lorawan.VerifResetMACPayloadRegistry()
		a, sa, ea := lorawan.GetMACPayloadAndSize(c.Uplink, lorawan.CID(c.CID))
		bb, _, eb := lorawan.GetMACPayloadAndSize(c.Uplink, lorawan.CID(c.CID))
		if ea != nil || eb != nil || sa != 2 {
			return evid.Fail("proprietary CID %#02x registered with size 2: registry answers size %d err %v", c.CID, sa, ea)
		}
		// ... and AFTER it with the registered size, in that direction only
		if n, err := decode([]byte{c.CID, filler, filler}); err != nil || n != 1 {
			return evid.Fail("proprietary CID %#02x uplink=%v registered with size 2 after it had been decoded unregistered: the stream %02x %02x %02x decodes to %d commands (err %v), want 1 (stale size)", c.CID, c.Uplink, c.CID, filler, filler, n, err)
		}
		if _, _, err := lorawan.GetMACPayloadAndSize(!c.Uplink, lorawan.CID(c.CID)); err == nil {
			return evid.Fail("proprietary CID %#02x registered for uplink=%v is also known for the other direction", c.CID, c.Uplink)
		}
		_ = a.UnmarshalBinary([]byte{0xaa, 0xbb})
		_ = bb.UnmarshalBinary([]byte{0xcc, 0xdd})
		ab, _ := a.MarshalBinary()
		if !bytes.Equal(ab, []byte{0xaa, 0xbb}) {
			return evid.Fail("two payload objects obtained for proprietary CID %#02x share state: the first reads %x after the second decoded ccdd", c.CID, ab)
		}
		return evid.Outcome{NonTrivial: true, Class: "proprietary", Key: []byte{c.CID, b2(c.Uplink)}}
	}
	if s == nil {
		if err == nil {
			return evid.Fail("CID %#02x uplink=%v carries no payload in the specification, the registry has %T of size %d", c.CID, c.Uplink, p, size)
		}
		return evid.Outcome{Class: "no-payload", Key: []byte{c.CID, b2(c.Uplink)}}
	}
	if err != nil {
		return evid.Fail("CID %#02x uplink=%v (%s) is missing from the registry: %v", c.CID, c.Uplink, s.Name, err)
	}
	if size != s.Len {
		return evid.Fail("registry size of %s is %d, the specification payload has %d bytes", s.Name, size, s.Len)
	}
	if want := reflect.TypeOf(gen.NewPayload[s.Name]()); reflect.TypeOf(p) != want {
		return evid.Fail("registry gives %T for CID %#02x uplink=%v, specification: %s", p, c.CID, c.Uplink, want)
	}
	// a command of this CID is framed as 1+Len bytes
	v := ref.Vals{}
	for _, f := range s.Fields {
		lo, _ := f.Range()
		v[f.Name] = lo
	}
	if s.Name == "DevStatusAns" {
		v["Margin"] = 0
	}
	m := gen.LibCmd(c.Uplink, ref.Cmd{CID: c.CID, Vals: v})
	b, err := m.MarshalBinary()
	if err != nil || len(b) != 1+s.Len || b[0] != c.CID {
		return evid.Fail("%s command encodes to %x (err %v), want CID %#02x + %d payload bytes", s.Name, b, err, c.CID, s.Len)
	}
	// the registry hands out a fresh payload object every time
	p2, _, _ := lorawan.GetMACPayloadAndSize(c.Uplink, lorawan.CID(c.CID))
	if reflect.ValueOf(p).Pointer() == reflect.ValueOf(p2).Pointer() {
		return evid.Fail("GetMACPayloadAndSize(%v, %#02x) returns the same payload object twice: decoding a second command of this CID would overwrite the first", c.Uplink, c.CID)
	}
	return evid.Outcome{NonTrivial: true, Class: "payload", Key: []byte{c.CID, b2(c.Uplink)}}
}

func b2(b bool) byte {
	if b {
		return 1
	}
	return 0
}

// ---- join payloads, CFList, FHDR from arbitrary well-sized bytes ----

type rawCase struct {
	What  string   `json:"what"` // joinaccept12 joinaccept28 joinreq rejoin02 rejoin1 cflist data
	Bytes evid.Hex `json:"bytes"`
}

func genRaw(t *rapid.T) rawCase {
	what := rapid.SampledFrom([]string{"joinaccept12", "joinaccept28", "joinaccept28", "joinreq", "rejoin02", "rejoin1", "cflist", "cflist", "data", "data", "eui64", "devaddr", "netid", "aes128key"}).Draw(t, "what")
	n := map[string]int{"joinaccept12": 12, "joinaccept28": 28, "joinreq": 18, "rejoin02": 14, "rejoin1": 19, "cflist": 16, "eui64": 8, "devaddr": 4, "netid": 3, "aes128key": 16}[what]
	if what == "data" {
		n = rapid.IntRange(7, 40).Draw(t, "n")
	}
	b := gen.Bytes(t, "bytes", n)
	switch what {
	case "joinaccept28":
		b[27] = byte(rapid.IntRange(0, 1).Draw(t, "cflisttype"))
		if rapid.IntRange(0, 7).Draw(t, "emptycflist") == 0 {
			// a CFList that is present and defines nothing: five unused slots / no channel bit set
			for i := 12; i < 27; i++ {
				b[i] = 0
			}
		}
	case "cflist":
		b[15] = byte(rapid.IntRange(0, 1).Draw(t, "cflisttype"))
	case "rejoin02":
		b[0] = rapid.SampledFrom([]byte{0, 2}).Draw(t, "type")
	case "rejoin1":
		b[0] = 1
	case "data":
		// make FOptsLen consistent with the length in most cases
		if rapid.IntRange(0, 3).Draw(t, "fix") != 0 {
			max := n - 7
			if max > 15 {
				max = 15
			}
			b[4] = b[4]&0xf0 | byte(rapid.IntRange(0, max).Draw(t, "foptslen"))
		}
	}
	if what == "joinaccept28" || what == "cflist" {
		// a type-1 CFList carries a reserved byte before the type byte; type-0 none
		_ = b
	}
	return rawCase{What: what, Bytes: b}
}

func checkRaw(c rawCase) evid.Outcome {
	b := c.Bytes
	frame := func(mt byte) []byte { return append(append([]byte{mt << 5}, b...), 0, 0, 0, 0) }
	switch c.What {
	case "joinaccept12", "joinaccept28":
		var p lorawan.JoinAcceptPayload
		if err := p.UnmarshalBinary(false, append([]byte{}, b...)); err != nil {
			return evid.Fail("JoinAcceptPayload.UnmarshalBinary(%x): %v", []byte(b), err)
		}
		want, err := ref.DecodeFrame(frame(ref.MTJoinAccept), true)
		if err != nil {
			return evid.Outcome{Skip: true}
		}
		phy := lorawan.PHYPayload{MHDR: lorawan.MHDR{MType: lorawan.JoinAccept}, MACPayload: &p}
		got, err := gen.FromLib(&phy)
		if err != nil {
			return evid.Fail("join-accept read back: %v", err)
		}
		if !bytes.Equal(got.Encode(), want.Encode()) || got.RXDelay != want.RXDelay {
			return evid.Fail("join-accept bytes %x decode to %x (RXDelay %d), specification layout gives %x (RXDelay %d; reserved bits are ignored)", []byte(b), got.MACPayloadBytes(), got.RXDelay, want.MACPayloadBytes(), want.RXDelay)
		}
		// one field pushed out of its range: the encoder refuses, or whatever it emits still has the specification's
		// length with every other field in its place
		valid, verr := p.MarshalBinary()
		// the decoded payload goes out again with the length it came in with and every defined bit where it was
		if verr == nil && !bytes.Equal(valid, want.MACPayloadBytes()) {
			return evid.Fail("the join-accept payload decoded from %x re-encodes to %x (%d bytes), specification layout of the decoded fields gives %x (%d bytes)", []byte(b), valid, len(valid), want.MACPayloadBytes(), len(want.MACPayloadBytes()))
		}
		if verr == nil {
			q := p
			var lo, hi int // bytes the field occupies
			var what string
			switch b[2] % 4 {
			case 0:
				q.JoinNonce |= lorawan.JoinNonce(1+uint32(b[0])%255) << 24
				lo, hi, what = 0, 3, fmt.Sprintf("JoinNonce %#x", uint32(q.JoinNonce))
			case 1:
				q.RXDelay = 16 + b[1]%240
				lo, hi, what = 11, 12, fmt.Sprintf("RXDelay %d", q.RXDelay)
			case 2:
				q.DLSettings.RX2DataRate = 16 + b[1]%240
				lo, hi, what = 10, 11, fmt.Sprintf("RX2DataRate %d", q.DLSettings.RX2DataRate)
			default:
				q.DLSettings.RX1DROffset = 8 + b[1]%248
				lo, hi, what = 10, 11, fmt.Sprintf("RX1DROffset %d", q.DLSettings.RX1DROffset)
			}
			if out, err := q.MarshalBinary(); err == nil {
				if len(out) != len(valid) || !bytes.Equal(out[:lo], valid[:lo]) || !bytes.Equal(out[hi:], valid[hi:]) {
					return evid.Fail("JoinAcceptPayload with %s (outside the field's range) encodes without error to %x (%d bytes); with the field in range the payload is %x (%d bytes): the other fields are not where the specification puts them", what, out, len(out), valid, len(valid))
				}
			}
		}
		return evid.Outcome{NonTrivial: b[11]&0xf0 != 0 || len(b) == 28, Class: c.What}
	case "joinreq", "rejoin02", "rejoin1":
		mt := byte(ref.MTJoinRequest)
		var pl lorawan.Payload = &lorawan.JoinRequestPayload{}
		if c.What == "rejoin02" {
			mt, pl = ref.MTRejoin, &lorawan.RejoinRequestType02Payload{}
		} else if c.What == "rejoin1" {
			mt, pl = ref.MTRejoin, &lorawan.RejoinRequestType1Payload{}
		}
		if err := pl.UnmarshalBinary(true, append([]byte{}, b...)); err != nil {
			return evid.Fail("%T.UnmarshalBinary(%x): %v", pl, []byte(b), err)
		}
		want, err := ref.DecodeFrame(frame(mt), true)
		if err != nil {
			return evid.Outcome{Skip: true}
		}
		phy := lorawan.PHYPayload{MHDR: lorawan.MHDR{MType: lorawan.MType(mt)}, MACPayload: pl}
		got, err := gen.FromLib(&phy)
		if err != nil {
			return evid.Fail("read back: %v", err)
		}
		if !reflect.DeepEqual(got, want) {
			return evid.Fail("%s bytes %x decode to %+v, specification layout gives %+v", c.What, []byte(b), *got, *want)
		}
		out, err := pl.MarshalBinary()
		if err != nil || !bytes.Equal(out, b) {
			return evid.Fail("%s decoded from %x re-encodes to %x (err %v)", c.What, []byte(b), out, err)
		}
		return evid.Outcome{NonTrivial: true, Class: c.What}
	case "cflist":
		var l lorawan.CFList
		if err := l.UnmarshalBinary(append([]byte{}, b...)); err != nil {
			return evid.Fail("CFList.UnmarshalBinary(%x): %v", []byte(b), err)
		}
		got, err := gen.ModelCFList(&l)
		if err != nil {
			return evid.Fail("CFList read back: %v", err)
		}
		want := ref.DecodeCFList(b)
		if !reflect.DeepEqual(got, want) {
			return evid.Fail("CFList bytes %x decode to %+v, specification layout gives %+v", []byte(b), *got, *want)
		}
		// spec value -> bytes
		if want.Type == 0 || len(want.Masks) <= 6 {
			out, err := gen.LibCFList(want).MarshalBinary()
			exp := want.Encode()
			if err != nil || !bytes.Equal(out, exp) {
				return evid.Fail("CFList %+v encodes to %x (err %v), specification layout gives %x", *want, out, err, exp)
			}
		}
		return evid.Outcome{NonTrivial: true, Class: fmt.Sprintf("cflist%d", want.Type)}
	case "data":
		var m lorawan.MACPayload
		err := m.UnmarshalBinary(true, append([]byte{}, b...))
		want, werr := ref.DecodeFrame(frame(ref.MTUnconfUp), false)
		if werr != nil {
			if err == nil {
				return evid.Fail("MACPayload.UnmarshalBinary accepts %x, the specification layout does not parse: %v", []byte(b), werr)
			}
			return evid.Outcome{Class: "data/rejected"}
		}
		if err != nil {
			if want.FPort == 0 && len(want.FOpts) > 0 {
				return evid.Outcome{Class: "data/lib-rejected"} // FPort 0 together with FOpts: legality differs between 1.0.x and 1.1 (K1's neighbourhood)
			}
			return evid.Fail("MACPayload.UnmarshalBinary rejects the specification-conformant bytes %x (FOptsLen %d, FPort %d, %d payload bytes): %v", []byte(b), len(want.FOpts), want.FPort, len(want.FRM), err)
		}
		// the same through the frame decoder
		for _, mt := range []byte{ref.MTUnconfUp, ref.MTUnconfDown, ref.MTConfUp, ref.MTConfDown} {
			var ph lorawan.PHYPayload
			if err := ph.UnmarshalBinary(frame(mt)); err != nil {
				return evid.Fail("PHYPayload.UnmarshalBinary rejects the specification-conformant data frame %x (MType %d, FOptsLen %d, FPort %d): %v", frame(mt), mt, len(want.FOpts), want.FPort, err)
			}
		}
		// received in a loop (one variable, the value kept while the variable decodes the next frame): the kept value
		// still carries the specification's fields
		for _, mt := range []byte{ref.MTUnconfUp, ref.MTConfDown} {
			kept, err := gen.Receive(frame(mt), true)
			if err != nil {
				return evid.Fail("PHYPayload.UnmarshalBinary(%x): %v", frame(mt), err)
			}
			kg, err := gen.FromLib(&kept)
			if err != nil || !bytes.Equal(kg.MACPayloadBytes(), want.MACPayloadBytes()) || kg.FPort != want.FPort || kg.MType != mt {
				return evid.Fail("the frame %x was decoded and kept by value, then the same variable decoded %x: the kept value now reads MType %d MACPayload %x FPort %d (err %v), specification layout gives MType %d %x FPort %d", frame(mt), gen.Decoy(frame(mt)), kg.MType, kg.MACPayloadBytes(), kg.FPort, err, mt, want.MACPayloadBytes(), want.FPort)
			}
		}
		phy := lorawan.PHYPayload{MHDR: lorawan.MHDR{MType: lorawan.UnconfirmedDataUp}, MACPayload: &m}
		got, err := gen.FromLib(&phy)
		if err != nil {
			return evid.Fail("data frame read back: %v", err)
		}
		if !bytes.Equal(got.Encode(), want.Encode()) || got.FPort != want.FPort {
			return evid.Fail("MACPayload bytes %x decode to %x (FPort %d), specification layout gives %x (FPort %d)", []byte(b), got.MACPayloadBytes(), got.FPort, want.MACPayloadBytes(), want.FPort)
		}
		return evid.Outcome{NonTrivial: len(want.FOpts) > 0 && want.FPort >= 0, Class: "data/accepted"}
	case "eui64", "devaddr", "netid", "aes128key":
		// the Go value holds the most significant octet first, the wire the least significant one first
		rev := make([]byte, len(b))
		for i := range b {
			rev[len(b)-1-i] = b[i]
		}
		var enc func() ([]byte, error)
		var dec func([]byte) ([]byte, error)
		switch c.What {
		case "eui64":
			var v, w lorawan.EUI64
			copy(v[:], b)
			w = v // decoded into a used value
			enc, dec = func() ([]byte, error) { return v.MarshalBinary() }, func(in []byte) ([]byte, error) { err := w.UnmarshalBinary(in); return w[:], err }
		case "devaddr":
			var v, w lorawan.DevAddr
			copy(v[:], b)
			w = v
			enc, dec = func() ([]byte, error) { return v.MarshalBinary() }, func(in []byte) ([]byte, error) { err := w.UnmarshalBinary(in); return w[:], err }
		case "netid":
			var v, w lorawan.NetID
			copy(v[:], b)
			w = v
			enc, dec = func() ([]byte, error) { return v.MarshalBinary() }, func(in []byte) ([]byte, error) { err := w.UnmarshalBinary(in); return w[:], err }
		default:
			var v, w lorawan.AES128Key
			copy(v[:], b)
			w = v
			enc, dec = func() ([]byte, error) { return v.MarshalBinary() }, func(in []byte) ([]byte, error) { err := w.UnmarshalBinary(in); return w[:], err }
		}
		out, err := enc()
		if err != nil || !bytes.Equal(out, rev) {
			return evid.Fail("%s value %x: MarshalBinary gives %x (err %v), little-endian octet order gives %x", c.What, []byte(b), out, err, rev)
		}
		back, err := dec(append([]byte{}, b...))
		if err != nil || !bytes.Equal(back, rev) {
			return evid.Fail("%s: the wire octets %x decode (UnmarshalBinary) to the value %x (err %v), little-endian octet order gives %x", c.What, []byte(b), back, err, rev)
		}
		pal := true
		for i := range b {
			pal = pal && b[i] == rev[i]
		}
		return evid.Outcome{NonTrivial: !pal, Class: c.What}
	}
	return evid.Outcome{Skip: true}
}

func TestProp(t *testing.T) {
	r := evid.Begin(t, "C06")
	defer r.Finish()

	evid.Exhaustive(r, t, "payload-bytes-exhaustive",
		"every byte string of every MAC payload of <= 2 bytes (19 one-byte types x 2^8, 3 two-byte types x 2^16): library decode == table-driven model decode (reserved bits ignored; DutyCycleReq: 4-bit or whole-byte reading accepted), and the decoded value re-encodes to the model encoding (reserved bits zero; RFU/alias values may be refused). Non-trivial: a reserved bit set or a field at its maximum.",
		true,
		func(emit func(plCase)) {
			for i := range ref.Specs {
				s := &ref.Specs[i]
				switch s.Len {
				case 1:
					for b := 0; b < 256; b++ {
						emit(plCase{Name: s.Name, Bytes: []byte{byte(b)}})
					}
				case 2:
					for b := 0; b < 65536; b++ {
						emit(plCase{Name: s.Name, Bytes: []byte{byte(b), byte(b >> 8)}})
					}
				}
			}
		}, checkPayloadBytes)

	evid.Exhaustive(r, t, "commands-in-frames",
		"every MAC command that carries a payload x each of the two data message types of its direction (unconfirmed, confirmed) x FOpts / port-0 FRMPayload x 4 payload byte patterns, the command placed between two payload-less commands: the frame is built by the wire model, decoded by the library (UnmarshalBinary + DecodeFOptsToMACCommands / DecodeFRMPayloadToMACCommands) and the command's fields must be the model's reading of the payload bytes for that direction; the port-0 frames also as they are received, encrypted with the reference keystream under 24 frame counters and opened in the documented order (decode, DecodeFOptsToMACCommands, DecryptFRMPayload). Every case is non-trivial.",
		true,
		func(emit func(inFrameCase)) {
			for i := range ref.Specs {
				for mt := byte(ref.MTUnconfUp); mt <= ref.MTConfDown; mt++ {
					for _, where := range []string{"fopts", "frm0"} {
						for _, fill := range []byte{0x00, 0x11, 0x5a, 0xc3} {
							emit(inFrameCase{Name: ref.Specs[i].Name, MType: mt, Where: where, Fill: fill})
						}
					}
				}
			}
		}, checkInFrame)

	evid.Exhaustive(r, t, "header-bytes-exhaustive",
		"all 256 MHDR bytes, all 256 FCtrl bytes (also through FHDR with that many FOpts bytes), all 256 DLSettings bytes, both directions against the bit layout. Non-trivial: reserved MHDR bits set / MType 7 / FOptsLen 15 / all flags / OptNeg or offset 7.",
		true,
		func(emit func(byteCase)) {
			for _, w := range []string{"mhdr", "fctrl", "dlsettings"} {
				for b := 0; b < 256; b++ {
					emit(byteCase{What: w, B: byte(b)})
				}
			}
		}, checkByte)

	evid.Exhaustive(r, t, "registry",
		"every CID 0..255 x both directions through GetMACPayloadAndSize (proprietary registrations reset by the verif hook): registered exactly for the specification's payload-carrying commands, with the payload length and type of the model; a command encodes to 1+length bytes.",
		true,
		func(emit func(regCase)) {
			for c := 0; c < 256; c++ {
				emit(regCase{CID: byte(c), Uplink: true})
				emit(regCase{CID: byte(c), Uplink: false})
			}
		}, checkRegistry)

	evid.Rapid(r, t, "payload-values",
		"rapid: boundary-biased + random in-range values of the 3-5 byte payloads (frequency 0, 100 Hz, max, random; 2.4 GHz 200 Hz steps for NewChannelReq; nibbles; channel masks; 32-bit seconds + 1/256 s fraction): library encode == model encode; model bytes with random noise in the reserved bits decode to the value; the decoded value encodes to the model bytes again, and both returned slices still read the same after the zero value of the type was encoded. Non-trivial: reserved bit set or a field at its maximum.",
		150000, 15000000, genVal, checkVal)

	evid.Rapid(r, t, "join-cflist-fhdr-bytes",
		"rapid: arbitrary bytes of the right size for join-accept (12/28), join-request, rejoin 0/2, rejoin 1, CFList (type 0/1), data MACPayload (7..40 bytes, FOptsLen mostly consistent), and the four identifier types EUI64 / DevAddr / NetID / AES128Key (MarshalBinary and UnmarshalBinary against a written-out octet reversal): library decode == model decode (little-endian fields, reserved bits ignored), re-encode == input where the structure has no reserved bits; a decoded data frame kept by value still reads the same after its variable decoded the next frame; a join-accept with one field pushed out of its range (JoinNonce >= 2^24, RXDelay > 15, RX2DataRate > 15, RX1DROffset > 7) is refused, or what is emitted has the specification's length with every other field in place. Non-trivial: join-accept with reserved RxDelay bits or CFList; data frame with FOpts and FPort.",
		150000, 6000000, genRaw, checkRaw)
}
