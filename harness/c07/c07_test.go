//go:build verif

// C07: MAC-command encoding is lossless-or-error; command streams are
// self-delimiting; proprietary registrations frame a CID in one direction only.
package c07

import (
	"bytes"
	"fmt"
	"reflect"
	"testing"
	"time"

	"github.com/brocaar/lorawan"
	"pgregory.net/rapid"

	"verif/harness/internal/evid"
	"verif/harness/internal/gen"
	"verif/harness/internal/ref"
)

var run *evid.Run

// ---- (a) single payload values over the full domain of the Go types ----

type valCase struct {
	Name string   `json:"payload"`
	Vals ref.Vals `json:"vals"`
}

var durationType = reflect.TypeOf(time.Duration(0))
var chMaskType = reflect.TypeOf(lorawan.ChMask{})
var dwellType = reflect.TypeOf(lorawan.DwellTime(0))

// fullDomain draws a value from the whole domain of the Go type of a field,
// boundary biased; the spec range boundaries are included.
func fullDomain(t *rapid.T, name string, typ reflect.Type, f *ref.Field) int64 {
	lo, hi := int64(0), int64(0)
	if f != nil {
		lo, hi = f.Range()
	}
	switch {
	case typ == chMaskType:
		return int64(rapid.IntRange(0, 0xffff).Draw(t, name))
	case typ == dwellType:
		return int64(rapid.IntRange(0, 1).Draw(t, name)) // the type documents exactly two values
	case typ == durationType:
		switch rapid.IntRange(0, 5).Draw(t, name+"?") {
		case 0:
			return rapid.SampledFrom([]int64{0, -1, -1e9, 1, 3906249, 3906250, 1e9 - 1, (1<<32 - 1) * 1e9, (1<<32-1)*1e9 + 999999999, 1 << 32 * 1e9, 1<<63 - 1, -1 << 63}).Draw(t, name+"!")
		case 1:
			return rapid.Int64().Draw(t, name)
		default:
			return int64(gen.U32(t, name+"s"))*1e9 + int64(rapid.IntRange(0, 999999999).Draw(t, name+"ns"))
		}
	case typ.Kind() == reflect.Bool:
		return int64(rapid.IntRange(0, 1).Draw(t, name))
	case typ.Kind() == reflect.Int8:
		if rapid.Bool().Draw(t, name+"?") {
			return rapid.SampledFrom([]int64{-128, -33, -32, -31, -1, 0, 1, 30, 31, 32, 127}).Draw(t, name+"!")
		}
		return int64(rapid.IntRange(-128, 127).Draw(t, name))
	case typ.Kind() == reflect.Uint8:
		if rapid.Bool().Draw(t, name+"?") {
			return rapid.SampledFrom([]int64{lo, hi, hi + 1, 255, 254, 16, 15, 8, 7}).Draw(t, name+"!") & 0xff
		}
		return int64(rapid.IntRange(0, 255).Draw(t, name))
	case typ.Kind() == reflect.Uint32:
		// frequencies
		switch rapid.IntRange(0, 6).Draw(t, name+"?") {
		case 0:
			return rapid.SampledFrom([]int64{0, 100, 99, 101, 1677721500, 1677721600, 1677721599, 1199999900, 1200000000, 2399999900, 2400000000, 2400000100, 2400000200, 3355443000, 3355443200, 4294967295, 868100000, 868100050}).Draw(t, name+"!")
		case 1:
			return int64(rapid.Uint32().Draw(t, name))
		case 2:
			return int64(rapid.IntRange(0, 1<<24-1).Draw(t, name+"r")) * 100
		case 3:
			// around the 200 Hz raster of the 2.4 GHz range: on a step, 1 / 99 / 100 / 101 / 199 Hz off
			return 2400000000 + int64(rapid.IntRange(0, 4777215).Draw(t, name+"g"))*200 + rapid.SampledFrom([]int64{0, 0, 1, 99, 100, 101, 199}).Draw(t, name+"off")
		case 4:
			return 1200000000 + int64(rapid.IntRange(0, 4777215).Draw(t, name+"k"))*100
		default:
			return int64(uint32(gen.U64(t, name+"u")))
		}
	default:
		return int64(rapid.IntRange(0, 255).Draw(t, name))
	}
}

func leafTypes(v reflect.Type, prefix string, out map[string]reflect.Type) {
	for i := 0; i < v.NumField(); i++ {
		f := v.Field(i)
		if f.PkgPath != "" {
			continue
		}
		if f.Type.Kind() == reflect.Struct && f.Type != chMaskType {
			leafTypes(f.Type, prefix+f.Name+".", out)
		} else {
			out[prefix+f.Name] = f.Type
		}
	}
}

func genVal(t *rapid.T) valCase {
	s := &ref.Specs[rapid.IntRange(0, len(ref.Specs)-1).Draw(t, "spec")]
	types := map[string]reflect.Type{}
	leafTypes(reflect.TypeOf(gen.NewPayload[s.Name]()).Elem(), "", types)
	v := ref.Vals{}
	inRange := rapid.IntRange(0, 2).Draw(t, "inrange") == 0
	for i := range s.Fields {
		f := &s.Fields[i]
		if inRange {
			v[f.Name] = gen.FieldVal(t, *f)
		} else {
			v[f.Name] = fullDomain(t, f.Name, types[f.Name], f)
		}
	}
	return valCase{Name: s.Name, Vals: v}
}

// specRequiresAccept: every field inside its specification range and the value
// is not one of the RFU/alias values nobody is required to accept.
func specRequiresAccept(s *ref.Spec, v ref.Vals) bool {
	if s.Name == "DutyCycleReq" && v["MaxDCycle"] == 255 {
		return true // LoRaWAN 1.0 - 1.0.2: the whole octet, 255 = "become silent immediately" (the library serves 1.0.x too)
	}
	for _, f := range s.Fields {
		if !f.Representable(v[f.Name]) {
			return false
		}
	}
	switch s.Name {
	case "ResetInd", "RekeyInd":
		return v["DevLoRaWANVersion.Minor"] <= 1
	case "ResetConf", "RekeyConf":
		return v["ServLoRaWANVersion.Minor"] <= 1
	case "ForceRejoinReq":
		return v["RejoinType"] == 0 || v["RejoinType"] == 2
	case "DeviceModeInd", "DeviceModeConf":
		return v["Class"] == 0 || v["Class"] == 2
	}
	return true
}

func checkVal(c valCase) evid.Outcome {
	s := ref.SpecByName(c.Name)
	if s == nil {
		return evid.Outcome{Skip: true}
	}
	p := gen.NewPayload[s.Name]()
	if !gen.Fill(p, c.Vals) {
		return evid.Outcome{Skip: true}
	}
	excluded := map[string]int{}
	outOfRange := false
	boundary := false
	for _, f := range s.Fields {
		lo, hi := f.Range()
		x := c.Vals[f.Name]
		if !f.Representable(x) {
			outOfRange = true
		}
		if x == lo || x == hi {
			boundary = true
		}
	}
	b, err := p.MarshalBinary()
	cls := s.Name + "/inrange"
	if outOfRange {
		cls = s.Name + "/outofrange"
	}
	if err != nil {
		if specRequiresAccept(s, c.Vals) {
			return evid.Fail("%s: encoder refuses %v although every field is inside its specification range: %v", s.Name, c.Vals, err)
		}
		return evid.Outcome{NonTrivial: true, Class: cls + "/refused", Excluded: excluded}
	}
	if len(b) != s.Len {
		return evid.Fail("%s: encodes to %d bytes (%x), the payload has %d bytes", s.Name, len(b), b, s.Len)
	}
	q := gen.NewPayload[s.Name]()
	if err := q.UnmarshalBinary(append([]byte{}, b...)); err != nil {
		return evid.Fail("%s: the encoder's own output %x does not decode: %v", s.Name, b, err)
	}
	got := gen.Flatten(q)
	for _, f := range s.Fields {
		x, y := c.Vals[f.Name], got[f.Name]
		if x == y {
			continue
		}
		if f.Kind == ref.KGPSTime && x >= 0 && y <= x && x-y < 3906250 {
			continue // wire resolution 1/256 s
		}
		o := evid.Fail("%s: %v encodes without error to %x, which decodes to %v: field %s silently changed from %d to %d", s.Name, c.Vals, b, got, f.Name, x, y)
		if s.Name == "NewChannelReq" && f.Name == "Freq" && x >= 1200000000 && x < 1677721600 && x%100 == 0 && y == 2*x {
			if run != nil && run.KnownActive("K2") {
				excluded["K2"]++
				continue
			}
			o.Known = "K2"
		}
		return o
	}
	return evid.Outcome{NonTrivial: outOfRange || boundary, Class: cls + "/accepted", Excluded: excluded}
}

// ---- (b) streams ----

type streamCase struct {
	Uplink bool      `json:"uplink"`
	Where  string    `json:"where"` // fopts | port0
	Cmds   []ref.Cmd `json:"cmds"`
}

func genStream(t *rapid.T) streamCase {
	up := rapid.Bool().Draw(t, "uplink")
	where := rapid.SampledFrom([]string{"fopts", "port0"}).Draw(t, "where")
	budget := 15
	if where == "port0" {
		budget = 242
	}
	n := rapid.IntRange(0, budget).Draw(t, "bytes")
	if rapid.IntRange(0, 3).Draw(t, "full") == 0 {
		n = budget
	}
	// sprinkle CIDs that carry no payload in this direction (unknown, other-direction-only, unregistered proprietary)
	nUnknown := rapid.IntRange(0, 3).Draw(t, "unknown")
	if nUnknown > n {
		nUnknown = n
	}
	cmds := gen.Cmds(t, "cmds", up, n-nUnknown)
	for i := 0; i < nUnknown; i++ {
		var cid byte
		for {
			cid = rapid.Byte().Draw(t, "ucid")
			if ref.SpecFor(up, cid) == nil {
				break
			}
		}
		pos := rapid.IntRange(0, len(cmds)).Draw(t, "upos")
		cmds = append(cmds[:pos], append([]ref.Cmd{{CID: cid}}, cmds[pos:]...)...)
	}
	return streamCase{Uplink: up, Where: where, Cmds: cmds}
}

func sameCmds(a, b []ref.Cmd) string {
	if len(a) != len(b) {
		return fmt.Sprintf("%d commands instead of %d", len(a), len(b))
	}
	for i := range a {
		if a[i].CID != b[i].CID || !a[i].Vals.Equal(b[i].Vals) && !(len(a[i].Vals) == 0 && len(b[i].Vals) == 0) || !bytes.Equal(a[i].Raw, b[i].Raw) {
			return fmt.Sprintf("command %d is %+v instead of %+v", i, a[i], b[i])
		}
	}
	return ""
}

func checkStream(c streamCase) evid.Outcome {
	lorawan.VerifResetMACPayloadRegistry()
	return streamRoundTrip(c, nil)
}

// streamRoundTrip encodes the commands with the library, compares with the
// model framing and decodes them back through a frame.
func streamRoundTrip(c streamCase, prop ref.PropSizes) evid.Outcome {
	mt := byte(ref.MTUnconfDown)
	if c.Uplink {
		mt = ref.MTUnconfUp
	}
	if len(c.Cmds)%2 == 1 {
		mt += 2 // the confirmed message type of the same direction
	}
	want, err := ref.EncodeCmds(c.Uplink, c.Cmds)
	if err != nil {
		return evid.Outcome{Skip: true}
	}
	var enc []byte
	var parts, payloads [][]byte
	for i, cmd := range c.Cmds {
		m := gen.LibCmd(c.Uplink, cmd)
		b, err := m.MarshalBinary()
		if err != nil {
			return evid.Fail("command %d (%+v) does not encode: %v", i, cmd, err)
		}
		if n := ref.PayloadLen(c.Uplink, cmd.CID, prop); len(b) != 1+n {
			return evid.Fail("command %d (CID %#02x uplink=%v) encodes to %d bytes, its registered payload size is %d", i, cmd.CID, c.Uplink, len(b), n)
		}
		if _, size, err := lorawan.GetMACPayloadAndSize(c.Uplink, lorawan.CID(cmd.CID)); err == nil && size != len(b)-1 {
			return evid.Fail("registry size %d for CID %#02x uplink=%v differs from the encoded payload length %d", size, cmd.CID, c.Uplink, len(b)-1)
		}
		parts = append(parts, b)
		if m.Payload != nil {
			pb, err := m.Payload.MarshalBinary()
			if err != nil || !bytes.Equal(pb, b[1:]) {
				return evid.Fail("command %d (%+v): the payload alone encodes to %x (err %v), inside the command to %x", i, cmd, pb, err, b[1:])
			}
			payloads = append(payloads, pb)
		} else {
			payloads = append(payloads, nil)
		}
	}
	// the caller encodes all commands first and assembles the stream afterwards: every returned slice is still what it was
	for i, b := range parts {
		enc = append(enc, b...)
		if !bytes.Equal(payloads[i], b[1:]) {
			return evid.Fail("command %d of %+v: the slice its payload encoder returned reads %x after the later commands were encoded, the command encoding carries %x", i, c.Cmds, payloads[i], b[1:])
		}
	}
	if !bytes.Equal(enc, want) {
		return evid.Fail("the commands %+v were encoded one by one and the returned slices joined afterwards: %x, the model framing gives %x", c.Cmds, enc, want)
	}
	f := ref.Frame{MType: mt, DevAddr: 0x01020304, FCnt: 1, FPort: -1}
	if c.Where == "fopts" {
		f.FOpts = enc
	} else {
		f.FPort, f.FRM = 0, enc
	}
	var q lorawan.PHYPayload
	if err := q.UnmarshalBinary(f.Encode()); err != nil {
		return evid.Fail("frame carrying the stream does not decode: %v", err)
	}
	m := q.MACPayload.(*lorawan.MACPayload)
	var pls []lorawan.Payload
	if c.Where == "fopts" {
		if err := q.DecodeFOptsToMACCommands(); err != nil {
			return evid.Fail("DecodeFOptsToMACCommands(%x): %v", enc, err)
		}
		pls = m.FHDR.FOpts
	} else {
		if err := q.DecodeFRMPayloadToMACCommands(); err != nil {
			return evid.Fail("DecodeFRMPayloadToMACCommands(%x): %v", enc, err)
		}
		pls = m.FRMPayload
	}
	var got []ref.Cmd
	for _, pl := range pls {
		mc, ok := pl.(*lorawan.MACCommand)
		if !ok {
			return evid.Fail("decoded stream contains a %T", pl)
		}
		got = append(got, gen.ModelCmd(c.Uplink, mc))
	}
	if d := sameCmds(got, c.Cmds); d != "" {
		return evid.Fail("stream %x (uplink=%v, %s) decodes differently: %s", enc, c.Uplink, c.Where, d)
	}
	// LoRaWAN 1.1: the same sequence as command values in FOpts, through EncryptFOpts on the sender's and DecryptFOpts
	// on the receiver's side
	if c.Where == "fopts" && len(c.Cmds) > 0 && prop == nil {
		key := lorawan.AES128Key{7, 6, 5, 4, 3, 2, 1, 0, 15, 14, 13, 12, 11, 10, 9, 8}
		sm := &lorawan.MACPayload{FHDR: lorawan.FHDR{DevAddr: lorawan.DevAddr{1, 2, 3, 4}, FCnt: 1, FOpts: gen.LibCmds(c.Uplink, c.Cmds)}}
		sp := lorawan.PHYPayload{MHDR: lorawan.MHDR{MType: lorawan.MType(mt), Major: lorawan.LoRaWANR1}, MACPayload: sm}
		if err := sp.EncryptFOpts(key); err != nil {
			return evid.Fail("EncryptFOpts of a frame whose FOpts hold the %d commands %+v: %v", len(c.Cmds), c.Cmds, err)
		}
		air, err := sp.MarshalBinary()
		if err != nil || len(air) != len(f.Encode()) {
			return evid.Fail("a frame whose FOpts hold the %d commands %+v (%d bytes) serialises, after EncryptFOpts, to %x (%d bytes, err %v); the frame has %d bytes", len(c.Cmds), c.Cmds, len(enc), air, len(air), err, len(f.Encode()))
		}
		var rp lorawan.PHYPayload
		if err := rp.UnmarshalBinary(air); err != nil {
			return evid.Fail("the frame %x (FOpts encrypted) does not decode: %v", air, err)
		}
		if err := rp.DecryptFOpts(key); err != nil {
			return evid.Fail("DecryptFOpts of %x: %v", air, err)
		}
		var back []ref.Cmd
		for _, pl := range rp.MACPayload.(*lorawan.MACPayload).FHDR.FOpts {
			mc, ok := pl.(*lorawan.MACCommand)
			if !ok {
				return evid.Fail("DecryptFOpts left a %T in FOpts", pl)
			}
			back = append(back, gen.ModelCmd(c.Uplink, mc))
		}
		if d := sameCmds(back, c.Cmds); d != "" {
			return evid.Fail("the commands %+v put into FOpts, encrypted (EncryptFOpts), sent as %x and decrypted (DecryptFOpts) come out differently: %s", c.Cmds, air, d)
		}
	}
	// more commands than FOpts can hold (the sequence repeated until it passes 15 bytes): refused, with or without
	// EncryptFOpts before the frame is serialised - never sent with part of the commands missing
	if c.Where == "fopts" && len(c.Cmds) > 0 && prop == nil {
		long := append([]ref.Cmd{}, c.Cmds...)
		longBytes, _ := ref.EncodeCmds(c.Uplink, long)
		for len(longBytes) <= 15 {
			long = append(long, c.Cmds...)
			longBytes, _ = ref.EncodeCmds(c.Uplink, long)
		}
		key := lorawan.AES128Key{7, 6, 5, 4, 3, 2, 1, 0, 15, 14, 13, 12, 11, 10, 9, 8}
		for _, encrypt := range []bool{false, true} {
			sm := &lorawan.MACPayload{FHDR: lorawan.FHDR{DevAddr: lorawan.DevAddr{1, 2, 3, 4}, FCnt: 1, FOpts: gen.LibCmds(c.Uplink, long)}}
			sp := lorawan.PHYPayload{MHDR: lorawan.MHDR{MType: lorawan.MType(mt), Major: lorawan.LoRaWANR1}, MACPayload: sm}
			if encrypt {
				if err := sp.EncryptFOpts(key); err != nil {
					continue
				}
			}
			air, err := sp.MarshalBinary()
			if err != nil {
				continue
			}
			// it went out: then all of it must arrive
			var rp lorawan.PHYPayload
			n := -1
			if err := rp.UnmarshalBinary(air); err == nil {
				if encrypt {
					err = rp.DecryptFOpts(key)
				} else {
					err = rp.DecodeFOptsToMACCommands()
				}
				if err == nil {
					n = len(rp.MACPayload.(*lorawan.MACPayload).FHDR.FOpts)
				}
			}
			if n != len(long) {
				return evid.Fail("a frame whose FOpts hold %d commands (%d bytes: %x; FOpts carry at most 15) is not refused (EncryptFOpts first: %v) but sent as %x, from which the receiver reads %d commands (-1: none)", len(long), len(longBytes), longBytes, encrypt, air, n)
			}
		}
	}
	// the decoded frame answers with another command sequence in the same field: the empty one (nil / empty slice),
	// then the first command alone - each must travel as exactly that sequence
	if len(c.Cmds) > 0 {
		for v, repl := range [][]lorawan.Payload{nil, {}, pls[:1]} {
			wantF := f
			var wantBytes []byte
			if v == 2 {
				wantBytes, _ = ref.EncodeCmds(c.Uplink, c.Cmds[:1])
			}
			if c.Where == "fopts" {
				m.FHDR.FOpts, wantF.FOpts = repl, wantBytes
			} else {
				m.FRMPayload, wantF.FRM = repl, wantBytes
			}
			out, err := q.MarshalBinary()
			if err != nil || !bytes.Equal(out, wantF.Encode()) {
				return evid.Fail("a frame decoded with the %d-command stream %x in its %s, whose %s was then replaced by a sequence of %d commands (variant %d: nil / empty / first command), encodes to %x (err %v); the model frame is %x", len(c.Cmds), enc, c.Where, c.Where, len(repl), v, out, err, wantF.Encode())
			}
		}
	}
	return evid.Outcome{NonTrivial: len(c.Cmds) >= 3, Class: fmt.Sprintf("%s/up=%v/n%s", c.Where, c.Uplink, nb(len(c.Cmds)))}
}

func nb(n int) string {
	switch {
	case n == 0:
		return "0"
	case n < 3:
		return "1-2"
	case n < 10:
		return "3-9"
	default:
		return ">=10"
	}
}

// ---- (b2) one out-of-range command inside a stream: reported, never dropped ----

type badStreamCase struct {
	Uplink bool      `json:"uplink"`
	Where  string    `json:"where"`
	Cmds   []ref.Cmd `json:"cmds"`
	BadAt  int       `json:"bad_at"`
	Bad    valCase   `json:"bad"`
}

func genBadStream(t *rapid.T) badStreamCase {
	c := badStreamCase{Uplink: rapid.Bool().Draw(t, "uplink"), Where: rapid.SampledFrom([]string{"fopts", "port0"}).Draw(t, "where")}
	n := rapid.IntRange(0, 8).Draw(t, "bytes")
	c.Cmds = gen.Cmds(t, "cmds", c.Uplink, n)
	c.BadAt = rapid.IntRange(0, len(c.Cmds)).Draw(t, "badat")
	// a payload of this direction with exactly one field outside its range
	var specs []*ref.Spec
	for i := range ref.Specs {
		s := &ref.Specs[i]
		if s.Uplink != c.Uplink {
			continue
		}
		for _, f := range s.Fields {
			if _, hi := f.Range(); f.Kind == ref.KBits && f.Width < 8 && hi < 255 {
				specs = append(specs, s)
				break
			}
		}
	}
	s := specs[rapid.IntRange(0, len(specs)-1).Draw(t, "badspec")]
	v := gen.SpecVals(t, s)
	var cand []ref.Field
	for _, f := range s.Fields {
		if f.Kind == ref.KBits && f.Width < 8 {
			cand = append(cand, f)
		}
	}
	f := cand[rapid.IntRange(0, len(cand)-1).Draw(t, "badfield")]
	_, hi := f.Range()
	v[f.Name] = int64(rapid.IntRange(int(hi)+1, 255).Draw(t, "badval"))
	c.Bad = valCase{Name: s.Name, Vals: v}
	return c
}

func checkBadStream(c badStreamCase) evid.Outcome {
	lorawan.VerifResetMACPayloadRegistry()
	s := ref.SpecByName(c.Bad.Name)
	if s == nil || s.Uplink != c.Uplink || c.BadAt < 0 || c.BadAt > len(c.Cmds) {
		return evid.Outcome{Skip: true}
	}
	bp := gen.NewPayload[s.Name]()
	if !gen.Fill(bp, c.Bad.Vals) {
		return evid.Outcome{Skip: true}
	}
	if _, err := bp.MarshalBinary(); err == nil {
		return evid.Outcome{Skip: true} // the encoder accepts this value (its own lossless-or-error check is values-full-domain)
	}
	pls := gen.LibCmds(c.Uplink, c.Cmds)
	bad := &lorawan.MACCommand{CID: lorawan.CID(s.CID), Payload: bp}
	pls = append(pls[:c.BadAt:c.BadAt], append([]lorawan.Payload{bad}, pls[c.BadAt:]...)...)
	m := &lorawan.MACPayload{FHDR: lorawan.FHDR{DevAddr: lorawan.DevAddr{1, 2, 3, 4}, FCnt: 1}}
	if c.Where == "fopts" {
		m.FHDR.FOpts = pls
	} else {
		zero := uint8(0)
		m.FPort, m.FRMPayload = &zero, pls
	}
	mt := lorawan.UnconfirmedDataDown
	if c.Uplink {
		mt = lorawan.UnconfirmedDataUp
	}
	p := lorawan.PHYPayload{MHDR: lorawan.MHDR{MType: mt}, MACPayload: m}
	b, err := p.MarshalBinary()
	if err == nil {
		return evid.Fail("a frame whose %s carries %d commands, the %s at position %d with out-of-range fields %v (its own encoder refuses it), encodes without error to %x: the command was silently dropped or truncated", c.Where, len(pls), s.Name, c.BadAt, c.Bad.Vals, b)
	}
	var key lorawan.AES128Key
	if c.Where == "port0" {
		if err := p.EncryptFRMPayload(key); err == nil {
			return evid.Fail("EncryptFRMPayload of a port-0 payload with an unencodable %s at position %d of %d reports success", s.Name, c.BadAt, len(pls))
		}
	}
	return evid.Outcome{NonTrivial: len(pls) >= 2 && c.BadAt < len(pls)-1, Class: fmt.Sprintf("%s/bad-last=%v", c.Where, c.BadAt == len(pls)-1)}
}

// ---- (c) proprietary registration histories ----

type op struct {
	Op     string      `json:"op"` // register | lookup | stream
	Uplink bool        `json:"uplink"`
	CID    byte        `json:"cid"`
	Size   int         `json:"size"`
	Stream *streamCase `json:"stream,omitempty"`
}

type histCase struct {
	Ops []op `json:"ops"`
}

func genHist(t *rapid.T) histCase {
	model := ref.PropSizes{true: {}, false: {}}
	var ops []op
	n := rapid.IntRange(2, 14).Draw(t, "nops")
	pool := rapid.SliceOfN(rapid.ByteRange(0x80, 0xff), 1, 4).Draw(t, "pool")
	for i := 0; i < n; i++ {
		up := rapid.Bool().Draw(t, "uplink")
		switch rapid.SampledFrom([]string{"register", "register", "lookup", "stream", "stream"}).Draw(t, "op") {
		case "register":
			cid := rapid.SampledFrom(pool).Draw(t, "cid")
			if rapid.IntRange(0, 7).Draw(t, "anycid") == 0 {
				cid = rapid.Byte().Draw(t, "cid2")
			}
			size := rapid.IntRange(0, 20).Draw(t, "size")
			ops = append(ops, op{Op: "register", Uplink: up, CID: cid, Size: size})
			if cid >= 0x80 && size > 0 {
				model[up][cid] = size
			}
		case "lookup":
			cid := rapid.SampledFrom(pool).Draw(t, "cid")
			if rapid.Bool().Draw(t, "anycid") {
				cid = rapid.Byte().Draw(t, "cid2")
			}
			ops = append(ops, op{Op: "lookup", Uplink: up, CID: cid})
		default:
			// a stream mixing standard commands with proprietary ones framed by the model's current sizes
			where := rapid.SampledFrom([]string{"fopts", "port0"}).Draw(t, "where")
			budget := 15
			if where == "port0" {
				budget = 120
			}
			var cmds []ref.Cmd
			used := 0
			k := rapid.IntRange(1, 6).Draw(t, "ncmds")
			for j := 0; j < k; j++ {
				if rapid.Bool().Draw(t, "prop") {
					cid := rapid.SampledFrom(pool).Draw(t, "pcid")
					sz := model[up][cid]
					if used+1+sz > budget {
						continue
					}
					c := ref.Cmd{CID: cid}
					if sz > 0 {
						c.Raw = gen.Bytes(t, "raw", sz)
					}
					cmds = append(cmds, c)
					used += 1 + sz
				} else {
					room := budget - used
					if room > 6 {
						room = 6
					}
					if room < 1 {
						continue
					}
					cs := gen.Cmds(t, "std", up, rapid.IntRange(1, room).Draw(t, "stdbytes"))
					cmds = append(cmds, cs...)
					b, _ := ref.EncodeCmds(up, cs)
					used += len(b)
				}
			}
			ops = append(ops, op{Op: "stream", Uplink: up, Stream: &streamCase{Uplink: up, Where: where, Cmds: cmds}})
		}
	}
	return histCase{Ops: ops}
}

func checkHist(c histCase) evid.Outcome {
	lorawan.VerifResetMACPayloadRegistry()
	defer lorawan.VerifResetMACPayloadRegistry()
	model := ref.PropSizes{true: {}, false: {}}
	regs, decodes := 0, 0
	for i, o := range c.Ops {
		switch o.Op {
		case "register":
			err := lorawan.RegisterProprietaryMACCommand(o.Uplink, lorawan.CID(o.CID), o.Size)
			if o.CID < 0x80 {
				if err == nil {
					return evid.Fail("op %d: RegisterProprietaryMACCommand accepts the non-proprietary CID %#02x", i, o.CID)
				}
				continue
			}
			if err != nil {
				return evid.Fail("op %d: RegisterProprietaryMACCommand(uplink=%v, %#02x, %d): %v", i, o.Uplink, o.CID, o.Size, err)
			}
			if o.Size > 0 {
				model[o.Uplink][o.CID] = o.Size
				regs++
			}
		case "lookup":
			p, size, err := lorawan.GetMACPayloadAndSize(o.Uplink, lorawan.CID(o.CID))
			want, registered := model[o.Uplink][o.CID]
			if s := ref.SpecFor(o.Uplink, o.CID); s != nil {
				if err != nil || size != s.Len {
					return evid.Fail("op %d: standard CID %#02x uplink=%v: size %d err %v, want %d", i, o.CID, o.Uplink, size, err, s.Len)
				}
				continue
			}
			if !registered {
				if err == nil {
					return evid.Fail("op %d: CID %#02x is not registered for uplink=%v but the registry answers size %d (a registration leaked from the other direction or another CID)", i, o.CID, o.Uplink, size)
				}
				continue
			}
			if err != nil || size != want {
				return evid.Fail("op %d: CID %#02x uplink=%v registered with size %d, registry answers size %d err %v", i, o.CID, o.Uplink, want, size, err)
			}
			if _, ok := p.(*lorawan.ProprietaryMACCommandPayload); !ok {
				return evid.Fail("op %d: registry gives %T for a proprietary CID", i, p)
			}
		case "stream":
			if o.Stream == nil {
				continue
			}
			// the stream was generated against the model's sizes at that point; re-frame defensively
			ok := true
			for _, cmd := range o.Stream.Cmds {
				if ref.SpecFor(o.Uplink, cmd.CID) == nil && len(cmd.Raw) != ref.PayloadLen(o.Uplink, cmd.CID, model) {
					ok = false
				}
			}
			if !ok {
				continue
			}
			if out := streamRoundTrip(*o.Stream, model); out.Violation != "" {
				out.Violation = fmt.Sprintf("op %d after %d registrations: %s", i, regs, out.Violation)
				return out
			}
			decodes++
		}
	}
	return evid.Outcome{NonTrivial: regs >= 2 && decodes >= 1, Class: fmt.Sprintf("regs%s/decodes%s", nb(regs), nb(decodes))}
}

func TestProp(t *testing.T) {
	r := evid.Begin(t, "C07")
	defer r.Finish()
	run = r

	evid.Rapid(r, t, "values-full-domain",
		"rapid: every one of the 29 payload types; per case either all fields in their specification range (boundary biased) or all fields from the full domain of their Go type (uint8 0..255, uint32 incl. non-multiples of 100 and the 1.2/1.68/2.4 GHz boundaries, int8 -128..127, time.Duration incl. negative and > 2^32 s; DwellTime only its two documented values). Oracle: Marshal returns an error, or Unmarshal(Marshal(v)) == v (DeviceTimeAns: to 1/256 s); every value inside the model's field ranges (minus RFU/alias values) must be accepted. Known finding K2 (NewChannelReq 1.2-1.6777 GHz decodes doubled) is excluded by class and counted. Non-trivial: a field outside its range or at a boundary.",
		300000, 10000000, genVal, checkVal)

	evid.Rapid(r, t, "streams",
		"rapid: command sequences per direction built to a drawn byte budget (FOpts <= 15, port 0 <= 242; a quarter exactly at the limit), including payload-less CIDs and up to 3 CIDs unknown in that direction; each command encodes to 1 + registered size (its payload alone to the same bytes); all returned slices are held until every command is encoded, then joined: the concatenation equals the model framing and decodes (DecodeFOptsToMACCommands / DecodeFRMPayloadToMACCommands) to exactly the sequence; for FOpts the sequence also travels as command values through EncryptFOpts, the wire and DecryptFOpts (LoRaWAN 1.1); the sequence repeated until it passes 15 bytes must be refused, with or without EncryptFOpts first, never sent in part; the decoded frame's field is then replaced by the empty sequence (nil, empty slice) and by the first command alone and must encode as the model frame with that content. Non-trivial: >= 3 commands.",
		50000, 3000000, genStream, checkStream)

	evid.Rapid(r, t, "streams-with-unencodable-command",
		"rapid: a frame (FOpts or port 0) carrying 0..8 bytes of valid commands plus, at a drawn position, one command with a field outside its range (its own encoder refuses it): PHYPayload.MarshalBinary (and EncryptFRMPayload for port 0) must report an error - never encode the frame with that command dropped or truncated. Non-trivial: the bad command is not the last of >= 2.",
		40000, 1500000, genBadStream, checkBadStream)

	evid.Rapid(r, t, "proprietary-histories",
		"rapid histories (registry reset by the verif hook at the start of every case): register(uplink, CID 0..255, size 0..20) / lookup / encode+decode a stream mixing standard and proprietary commands, against a model map: CID < 0x80 refused, size 0 a no-op, re-registration overrides, a registration frames the CID in its direction only. Non-trivial: >= 2 effective registrations followed by a stream decode.",
		30000, 1500000, genHist, checkHist)
}
