//go:build verif

// C20: GPS-time conversion, LoRa time-on-air and TXParamSetup EIRP coding
// helpers match their definitions.
//
// Reference models (none of them calls the function it judges):
//   - GPS: the 18 leap seconds inserted since 1980-01-06 as calendar DATES
//     (IERS Bulletin C); GPS-UTC(u) = number of insertions complete at u.
//   - airtime: Semtech AN1200.13 / SX1276 datasheet formula in exact integer
//     arithmetic (all quantities scaled by 100*BW so that nothing is rounded).
//   - EIRP: the TXParamSetupReq table of LoRaWAN 1.0.3 / 1.1.
package c20

import (
	"fmt"
	"math"
	"math/big"
	"testing"
	"time"

	"github.com/brocaar/lorawan"
	"github.com/brocaar/lorawan/airtime"
	"github.com/brocaar/lorawan/gps"
	"pgregory.net/rapid"

	"verif/harness/internal/evid"
)

// ---------------------------------------------------------------------------
// A. GPS time: reference model
// ---------------------------------------------------------------------------

const sec = int64(time.Second)

// gpsEpoch is 1980-01-06T00:00:00Z. All model arithmetic is done on int64
// nanosecond counts relative to this instant:
//
//	v = UTC instant on the leap-second-free scale of time.Time (ns since the epoch)
//	g = elapsed GPS time (ns since the epoch)
var gpsEpoch = time.Date(1980, time.January, 6, 0, 0, 0, 0, time.UTC)

// leapDates: the leap second is the 61st second (23:59:60) of the last minute of these days.
var leapDates = [18]struct {
	y int
	m time.Month
	d int
}{
	{1981, time.June, 30}, {1982, time.June, 30}, {1983, time.June, 30}, {1985, time.June, 30},
	{1987, time.December, 31}, {1989, time.December, 31}, {1990, time.December, 31}, {1992, time.June, 30},
	{1993, time.June, 30}, {1994, time.June, 30}, {1995, time.December, 31}, {1997, time.June, 30},
	{1998, time.December, 31}, {2005, time.December, 31}, {2008, time.December, 31}, {2012, time.June, 30},
	{2015, time.June, 30}, {2016, time.December, 31},
}

var (
	leapEndV [18]int64 // v of 00:00:00 of the day after leapDates[i]: insertion i is complete from here on
	leapGPS  [18]int64 // g at which leap second i begins; it occupies [leapGPS[i], leapGPS[i]+1s)
	v2100    int64     // v of 2100-01-01T00:00:00Z
)

func init() {
	for i, d := range leapDates {
		end := time.Date(d.y, d.m, d.d+1, 0, 0, 0, 0, time.UTC) // normalises June 31 / December 32
		leapEndV[i] = (end.Unix() - gpsEpoch.Unix()) * sec
		leapGPS[i] = leapEndV[i] + int64(i)*sec
	}
	v2100 = (time.Date(2100, time.January, 1, 0, 0, 0, 0, time.UTC).Unix() - gpsEpoch.Unix()) * sec
	// anchor the model to published GPS second counts (independent of the library):
	// 2017-01-01T00:00:00Z = GPS 1167264018 s, 2015-07-01T00:00:00Z = GPS 1119744017 s.
	if leapEndV[17]/sec+18 != 1167264018 || leapEndV[16]/sec+17 != 1119744017 {
		panic("c20: leap-second model does not reproduce the published GPS second counts")
	}
}

// refOffset is GPS-UTC in whole seconds at UTC instant v.
func refOffset(v int64) int64 {
	var k int64
	for _, e := range leapEndV {
		if v >= e {
			k++
		}
	}
	return k
}

// refUTC maps elapsed GPS time to the UTC instant v. inside reports that g lies
// in inserted leap second number leap (UTC 23:59:60.x, which time.Time cannot express).
func refUTC(g int64) (v int64, inside bool, leap int) {
	var k int64
	for i, s := range leapGPS {
		switch {
		case g >= s+sec:
			k++
		case g >= s:
			return 0, true, i
		}
	}
	return g - k*sec, false, -1
}

func nearLeapV(v int64) bool {
	for _, e := range leapEndV {
		if d := v - e; d >= -3*sec && d <= 3*sec {
			return true
		}
	}
	return false
}

func nearLeapG(g int64) bool {
	for _, s := range leapGPS {
		if d := g - s; d >= -3*sec && d <= 4*sec {
			return true
		}
	}
	return false
}

func utcOf(v int64) time.Time { return gpsEpoch.Add(time.Duration(v)) }
func fmtT(t time.Time) string { return t.UTC().Format("2006-01-02T15:04:05.000000000Z") }

func libGPS(v int64) int64 { return int64(gps.Time(utcOf(v)).TimeSinceGPSEpoch()) }

// the same instant in other representations of time.Time (another Location pointer, built from Unix seconds): the
// conversion is a function of the instant, not of how the value was constructed
var zoneIST = time.FixedZone("+05:30", 19800)

func reprs(u time.Time) []time.Time {
	return []time.Time{time.Unix(u.Unix(), int64(u.Nanosecond())), u.In(zoneIST), u.In(time.FixedZone("-11:00", -39600))}
}
func libUTC(g int64) time.Time {
	return time.Time(gps.NewTimeFromTimeSinceGPSEpoch(time.Duration(g)))
}

// instantViolation checks offset and UTC->GPS->UTC identity for one instant.
func instantViolation(v int64) string {
	u := utcOf(v)
	got := libGPS(v)
	k := refOffset(v)
	if want := v + k*sec; got != want {
		return fmt.Sprintf("UTC %s: TimeSinceGPSEpoch()=%d ns, i.e. offset %d ns applied; %d leap seconds are complete at that instant, so the offset must be %d s and the result %d ns",
			fmtT(u), got, got-v, k, k, want)
	}
	for _, w := range reprs(u) {
		if g2 := int64(gps.Time(w).TimeSinceGPSEpoch()); g2 != got {
			return fmt.Sprintf("UTC %s: TimeSinceGPSEpoch() gives %d ns for the value in UTC but %d ns for the same instant written as %s (location %s): the result must depend on the instant only",
				fmtT(u), got, g2, w.Format(time.RFC3339Nano), w.Location())
		}
	}
	if back := libUTC(got); !back.Equal(u) {
		return fmt.Sprintf("UTC %s -> GPS %d ns -> UTC %s: the round trip must return the same instant", fmtT(u), got, fmtT(back))
	}
	return ""
}

func increasingViolation(a, b int64) string {
	ga, gb := libGPS(a), libGPS(b)
	if !(ga < gb) {
		return fmt.Sprintf("UTC %s < UTC %s but TimeSinceGPSEpoch gives %d ns and %d ns: the mapping must be strictly increasing", fmtT(utcOf(a)), fmtT(utcOf(b)), ga, gb)
	}
	return ""
}

// durationOutcome checks GPS->UTC against the model and GPS->UTC->GPS identity.
func durationOutcome(g int64, how string) evid.Outcome {
	v, inside, _ := refUTC(g)
	t := libUTC(g)
	if inside {
		// UTC 23:59:60.x has no time.Time value: the property exempts these durations.
		return evid.Outcome{NonTrivial: false, Class: how + "/inside-leap-second(exempt)"}
	}
	if want := utcOf(v); !t.Equal(want) {
		return evid.Fail("GPS %d ns: NewTimeFromTimeSinceGPSEpoch gives UTC %s; %d leap seconds are complete at that GPS time, so UTC must be %s",
			g, fmtT(t), (g-v)/sec, fmtT(want))
	}
	if back := int64(gps.Time(t).TimeSinceGPSEpoch()); back != g {
		return evid.Fail("GPS %d ns -> UTC %s -> GPS %d ns: the round trip must be the identity (the duration is not inside an inserted leap second)", g, fmtT(t), back)
	}
	cls := how + "/far"
	nt := nearLeapG(g)
	if nt {
		cls = how + "/near-leap"
	}
	return evid.Outcome{NonTrivial: nt, Class: cls}
}

// --- sub-check: dense grid of instants around each leap second ---

type gridCase struct {
	Leap  int   `json:"leap"`   // index into the 18 insertions
	OffNs int64 `json:"off_ns"` // instant = 00:00:00Z of the day after the leap day + off_ns (UTC) / start of the leap second + off_ns (GPS)
}

func emitGrid(lo, hi int64, emit func(gridCase)) {
	for i := 0; i < 18; i++ {
		for ms := lo * 1000; ms <= hi*1000; ms++ {
			emit(gridCase{Leap: i, OffNs: ms * 1000000})
		}
		for s := lo; s <= hi; s++ {
			emit(gridCase{Leap: i, OffNs: s*sec - 1})
			emit(gridCase{Leap: i, OffNs: s*sec + 1})
		}
	}
}

func checkInstantGrid(c gridCase) evid.Outcome {
	if c.Leap < 0 || c.Leap >= 18 {
		return evid.Outcome{Skip: true}
	}
	v := leapEndV[c.Leap] + c.OffNs
	if s := instantViolation(v); s != "" {
		return evid.Fail("%s", s)
	}
	if s := increasingViolation(v, v+1); s != "" {
		return evid.Fail("%s", s)
	}
	cls := "after-insertion"
	switch {
	case c.OffNs < -sec:
		cls = "before-last-second"
	case c.OffNs < 0:
		cls = "last-utc-second-of-leap-day"
	}
	return evid.Outcome{NonTrivial: nearLeapV(v), Class: cls}
}

func checkDurationGrid(c gridCase) evid.Outcome {
	if c.Leap < 0 || c.Leap >= 18 {
		return evid.Outcome{Skip: true}
	}
	return durationOutcome(leapGPS[c.Leap]+c.OffNs, "grid")
}

// --- sub-check: generated instants and pairs ---

func u64(t *rapid.T, label string) uint64 {
	// rapid's integer generators favour small values; whiten 8 drawn bytes.
	b := rapid.SliceOfN(rapid.Byte(), 8, 8).Draw(t, label)
	var v uint64
	for _, x := range b {
		v = v<<8 | uint64(x)
	}
	return evid.Splitmix(v)
}

type instCase struct {
	V   int64  `json:"utc_ns_since_gps_epoch"` // first instant
	D   int64  `json:"delta_ns"`               // second instant = first + delta, delta >= 1
	How string `json:"how"`
}

func genInstant(t *rapid.T) instCase {
	how := rapid.SampledFrom([]string{"uniform", "uniform", "near", "edge", "dayend"}).Draw(t, "how")
	var v int64
	switch how {
	case "uniform":
		v = int64(u64(t, "v") % uint64(v2100))
	case "near":
		i := rapid.IntRange(0, 17).Draw(t, "leap")
		v = leapEndV[i] - 3*sec + int64(u64(t, "off")%uint64(6*sec+1))
	case "edge":
		i := rapid.IntRange(0, 17).Draw(t, "leap")
		v = leapEndV[i] + int64(rapid.IntRange(-3, 3).Draw(t, "s"))*sec + int64(rapid.IntRange(-2, 2).Draw(t, "ns"))
	case "dayend": // the last/first seconds of an arbitrary day (a misdated table entry shows here)
		day := int64(u64(t, "day") % uint64(v2100/(86400*sec)))
		v = (day+1)*86400*sec - 2*sec + int64(u64(t, "off")%uint64(4*sec))
	}
	if v < 0 {
		v = 0
	}
	if v >= v2100 {
		v = v2100 - 1
	}
	var d int64
	switch rapid.IntRange(0, 4).Draw(t, "dkind") {
	case 0:
		d = 1
	case 1:
		d = 1 + int64(u64(t, "d")%uint64(sec))
	case 2:
		d = 1 + int64(u64(t, "d")%uint64(10*sec))
	case 3:
		d = int64(rapid.IntRange(1, 5).Draw(t, "ds")) * sec
	default:
		d = 1 + int64(u64(t, "d")%uint64(v2100))
	}
	if d > v2100-v {
		d = v2100 - v
	}
	return instCase{V: v, D: d, How: how}
}

func checkInstants(c instCase) evid.Outcome {
	if c.V < 0 || c.D < 1 || c.V > v2100-c.D {
		return evid.Outcome{Skip: true}
	}
	a, b := c.V, c.V+c.D
	if s := instantViolation(a); s != "" {
		return evid.Fail("%s", s)
	}
	if s := instantViolation(b); s != "" {
		return evid.Fail("%s", s)
	}
	if s := increasingViolation(a, b); s != "" {
		return evid.Fail("%s", s)
	}
	nt := nearLeapV(a) || nearLeapV(b)
	cls := c.How
	switch {
	case nt:
		cls += "/near-leap"
	case refOffset(a) != refOffset(b):
		cls += "/pair-spans-leap"
	default:
		cls += "/far"
	}
	return evid.Outcome{NonTrivial: nt, Class: cls}
}

// --- sub-check: generated GPS durations ---

type durCase struct {
	G   int64  `json:"gps_ns"`
	How string `json:"how"`
}

func genDuration(t *rapid.T) durCase {
	how := rapid.SampledFrom([]string{"uniform", "near", "inside", "edge", "any-int64"}).Draw(t, "how")
	var g int64
	switch how {
	case "uniform":
		g = int64(u64(t, "g") % uint64(v2100+18*sec))
	case "near":
		i := rapid.IntRange(0, 17).Draw(t, "leap")
		g = leapGPS[i] - 3*sec + int64(u64(t, "off")%uint64(7*sec+1))
	case "inside":
		i := rapid.IntRange(0, 17).Draw(t, "leap")
		g = leapGPS[i] + int64(u64(t, "off")%uint64(sec))
	case "edge":
		i := rapid.IntRange(0, 17).Draw(t, "leap")
		g = leapGPS[i] + int64(rapid.IntRange(-3, 4).Draw(t, "s"))*sec + int64(rapid.IntRange(-2, 2).Draw(t, "ns"))
	default: // every time.Duration, negative (before the epoch) and beyond 2100 included
		g = int64(u64(t, "g"))
	}
	return durCase{G: g, How: how}
}

func checkDuration(c durCase) evid.Outcome {
	how := c.How
	if c.G < 0 {
		how += "(before-epoch)"
	} else if c.G > v2100+18*sec {
		how += "(after-2100)"
	}
	return durationOutcome(c.G, how)
}

// ---------------------------------------------------------------------------
// B. LoRa time on air: reference model (Semtech AN1200.13 section 4, SX1276 datasheet 4.1.1.7)
//
//	Tsym      = 2^SF / BW
//	Tpreamble = (n_preamble + 4.25) * Tsym
//	nPayload  = 8 + max(ceil((8*PL - 4*SF + 28 + 16*CRC - 20*IH) / (4*(SF - 2*DE))) * (CR + 4), 0)
//	ToA       = Tpreamble + nPayload * Tsym
//
// The library API: payload size in bytes, SF, bandwidth in kHz, preamble symbol
// count, coding rate 1..4 (4/5..4/8), headerEnabled (IH = 0 when true),
// lowDataRateOptimization (DE = 1 when true); the payload CRC is always on
// (CRC = 1), the API has no parameter for it. The only documented rejection is
// a coding rate outside 1..4 (error); it does not occur on the grid.
//
// Tolerance. The exact value is rational; the library returns integer
// nanoseconds and exposes the symbol time itself as an integer-nanosecond
// time.Duration. Representing Tsym in whole ns loses < 1 ns per symbol, and
// this loss is multiplied by the (n_preamble + 4.25 + nPayload) symbols of the
// frame; the final conversion of the total to whole ns loses < 1 ns more. So
//
//	|ToA_exact - ToA_lib| < (n_preamble + 4.25 + nPayload) * [BW does not divide 2^SF*10^6] + 1   (ns)
//
// which is below DESIGN's (symbols + 5) + 0.25 ns everywhere, and for bandwidths
// 125/250/500 kHz (Tsym a whole number of ns, ToA_exact an integer) demands
// equality to the nanosecond.
// ---------------------------------------------------------------------------

var (
	gridSF = []int{5, 6, 7, 8, 9, 10, 11, 12}
	gridBW = []int{125, 250, 500, 812, 1625}
)

func ceilDiv(num, den int64) int64 { // den > 0
	q := num / den // truncates towards zero: already the ceiling for num <= 0
	if num%den != 0 && num > 0 {
		q++
	}
	return q
}

func refPayloadSymbols(pl, sf, cr int, header, ldro bool) int64 {
	ih, de := int64(0), int64(0)
	if !header {
		ih = 1
	}
	if ldro {
		de = 1
	}
	num := 8*int64(pl) - 4*int64(sf) + 28 + 16 - 20*ih
	den := 4 * (int64(sf) - 2*de)
	s := ceilDiv(num, den) * int64(cr+4)
	if s < 0 {
		s = 0
	}
	return 8 + s
}

func abs64(x int64) int64 {
	if x < 0 {
		return -x
	}
	return x
}

func ratNs(num, den int64) string { return big.NewRat(num, den).FloatString(3) }

type airCase struct {
	SF     int  `json:"sf"`
	BW     int  `json:"bw_khz"`
	PL     int  `json:"payload"`
	CR     int  `json:"cr"`
	Header bool `json:"header"`
	LDRO   bool `json:"ldro"`
	Pre    int  `json:"preamble"`
}

func (c airCase) String() string {
	return fmt.Sprintf("payload=%d SF%d BW=%d kHz preamble=%d CR=4/%d header=%v LDRO=%v", c.PL, c.SF, c.BW, c.Pre, c.CR+4, c.Header, c.LDRO)
}

func (c airCase) valid() bool {
	return c.SF >= 5 && c.SF <= 12 && c.BW > 0 && c.BW <= 1625 && c.PL >= 0 && c.PL <= 255 && c.CR >= 1 && c.CR <= 4 && c.Pre >= 0 && c.Pre <= 64
}

func libAir(c airCase, pl int) (int64, error) {
	d, err := airtime.CalculateLoRaAirtime(pl, c.SF, c.BW, c.Pre, airtime.CodingRate(c.CR), c.Header, c.LDRO)
	return int64(d), err
}

var (
	airClass [2][2][2]string
	hdrClass [2][2]string
)

func init() {
	for h := 0; h < 2; h++ {
		for l := 0; l < 2; l++ {
			hdrClass[h][l] = []string{"implicit", "explicit"}[h] + []string{"", "+ldro"}[l]
			for x := 0; x < 2; x++ {
				airClass[h][l][x] = hdrClass[h][l] + []string{"/tsym-whole-ns", "/tsym-fractional-ns"}[x]
			}
		}
	}
}

func b2i(b bool) int {
	if b {
		return 1
	}
	return 0
}

func checkAir(c airCase) evid.Outcome {
	if !c.valid() {
		return evid.Outcome{Skip: true}
	}
	got, err := libAir(c, c.PL)
	if err != nil {
		return evid.Fail("%s: CalculateLoRaAirtime returns error %q for parameters inside the documented domain", c, err)
	}
	s := refPayloadSymbols(c.PL, c.SF, c.CR, c.Header, c.LDRO)
	// everything scaled by den = 100*BW: exact integers
	q := int64(100*c.Pre) + 425 + 100*s // 100 * number of symbols
	tsN := (int64(1) << uint(c.SF)) * 1000000
	den := int64(100 * c.BW)
	exact := q * tsN // ToA_exact * den, in ns
	rem := tsN % int64(c.BW)
	tol := den // 1 ns
	if rem != 0 {
		tol += q * int64(c.BW) // (symbols) * 1 ns
	}
	if diff := exact - got*den; abs64(diff) >= tol {
		return evid.Fail("%s: CalculateLoRaAirtime=%d ns; Semtech formula: %d payload symbols, %s symbols in total, Tsym=%s ns, time on air %s ns; difference %s ns exceeds the truncation tolerance %s ns",
			c, got, s, ratNs(q, 100), ratNs(tsN, int64(c.BW)), ratNs(exact, den), ratNs(diff, den), ratNs(tol, den))
	}
	if c.PL < 255 {
		next, err := libAir(c, c.PL+1)
		if err != nil {
			return evid.Fail("%s: CalculateLoRaAirtime returns error %q for payload+1", c, err)
		}
		if next < got {
			return evid.Fail("%s: airtime %d ns, with one more payload byte %d ns: time on air must not decrease with payload size", c, got, next)
		}
	}
	return evid.Outcome{NonTrivial: c.LDRO || !c.Header, Class: airClass[b2i(c.Header)][b2i(c.LDRO)][b2i(rem != 0)]}
}

// --- helper: symbol and preamble duration ---

type symCase struct {
	SF  int `json:"sf"`
	BW  int `json:"bw_khz"`
	Pre int `json:"preamble"`
}

func checkSymPre(c symCase) evid.Outcome {
	if c.SF < 5 || c.SF > 12 || c.BW <= 0 || c.BW > 1625 || c.Pre < 0 || c.Pre > 64 {
		return evid.Outcome{Skip: true}
	}
	tsN := (int64(1) << uint(c.SF)) * 1000000
	bw := int64(c.BW)
	ts := int64(airtime.CalculateLoRaSymbolDuration(c.SF, c.BW))
	if abs64(tsN-ts*bw) >= bw { // |exact - lib| < 1 ns
		return evid.Fail("CalculateLoRaSymbolDuration(SF%d, %d kHz)=%d ns; 2^SF/BW = %s ns (allowed: less than 1 ns apart)", c.SF, c.BW, ts, ratNs(tsN, bw))
	}
	// the preamble helper takes the symbol time as an input: feed it the model's whole-ns symbol time
	in := tsN / bw
	p := int64(airtime.CalculateLoRaPreambleDuration(time.Duration(in), c.Pre))
	exact100 := (int64(100*c.Pre) + 425) * in // 100 * (n + 4.25) * Tsym
	if abs64(exact100-100*p) >= 100 {
		return evid.Fail("CalculateLoRaPreambleDuration(Tsym=%d ns, n=%d)=%d ns; (n + 4.25) * Tsym = %s ns (allowed: less than 1 ns apart)", in, c.Pre, p, ratNs(exact100, 100))
	}
	cls := "tsym-whole-ns"
	if tsN%bw != 0 {
		cls = "tsym-fractional-ns"
	}
	return evid.Outcome{NonTrivial: tsN%bw != 0 || c.Pre > 0, Class: cls}
}

// --- helper: payload symbol number ---

type nsymCase struct {
	SF     int  `json:"sf"`
	PL     int  `json:"payload"`
	CR     int  `json:"cr"`
	Header bool `json:"header"`
	LDRO   bool `json:"ldro"`
}

func checkNSym(c nsymCase) evid.Outcome {
	if c.SF < 5 || c.SF > 12 || c.PL < 0 || c.PL > 255 || c.CR < 1 || c.CR > 4 {
		return evid.Outcome{Skip: true}
	}
	got, err := airtime.CalculateLoRaPayloadSymbolNumber(c.PL, c.SF, airtime.CodingRate(c.CR), c.Header, c.LDRO)
	want := refPayloadSymbols(c.PL, c.SF, c.CR, c.Header, c.LDRO)
	if err != nil || int64(got) != want {
		return evid.Fail("CalculateLoRaPayloadSymbolNumber(payload=%d, SF%d, CR=4/%d, header=%v, LDRO=%v)=%d err=%v; Semtech formula gives %d",
			c.PL, c.SF, c.CR+4, c.Header, c.LDRO, got, err, want)
	}
	return evid.Outcome{NonTrivial: c.LDRO || !c.Header, Class: hdrClass[b2i(c.Header)][b2i(c.LDRO)]}
}

// ---------------------------------------------------------------------------
// C. TXParamSetup EIRP coding (LoRaWAN 1.0.3 / 1.1, TXParamSetupReq, MaxEIRP table)
// ---------------------------------------------------------------------------

var refEIRP = [16]float32{8, 10, 12, 13, 14, 16, 18, 20, 21, 24, 26, 27, 29, 30, 33, 36}

const (
	bits8  = 0x41000000 // float32 8.0
	bits36 = 0x42100000 // float32 36.0
	bits64 = 0x42800000 // float32 64.0
	bitsMx = 0x7f7fffff // largest finite float32
)

type powerCase struct {
	Bits uint32 `json:"float32_bits"`
	How  string `json:"how,omitempty"`
}

func checkPower(c powerCase) evid.Outcome {
	p := math.Float32frombits(c.Bits)
	if c.Bits < bits8 || c.Bits > bitsMx { // negative, below 8 dBm, Inf or NaN: outside the stated domain
		return evid.Outcome{Skip: true}
	}
	want := 0
	for i, e := range refEIRP {
		if float64(e) <= float64(p) {
			want = i
		}
	}
	got := lorawan.GetTXParamSetupEIRPIndex(p)
	if int(got) != want {
		return evid.Fail("GetTXParamSetupEIRPIndex(%v [bits %08x])=%d; the largest table entry not exceeding the power is %v at index %d", p, c.Bits, got, refEIRP[want], want)
	}
	dec, err := lorawan.GetTXParamSetupEIRP(got)
	if err != nil || dec != refEIRP[want] {
		return evid.Fail("power %v [bits %08x] is coded as index %d, which decodes to %v err=%v; want table entry %v", p, c.Bits, got, dec, err, refEIRP[want])
	}
	cls := "between-entries"
	switch {
	case p == refEIRP[want]:
		cls = "exact-entry"
	case want == 15:
		cls = "above-36"
	}
	return evid.Outcome{NonTrivial: cls == "between-entries", Class: cls}
}

func genPower(t *rapid.T) powerCase {
	how := rapid.SampledFrom([]string{"ulps", "between", "8..36", "any>=8"}).Draw(t, "how")
	var bits uint32
	switch how {
	case "ulps":
		e := refEIRP[rapid.IntRange(0, 15).Draw(t, "entry")]
		bits = uint32(int64(math.Float32bits(e)) + int64(rapid.IntRange(-4, 4).Draw(t, "ulps")))
	case "between":
		i := rapid.IntRange(0, 14).Draw(t, "entry")
		lo, hi := math.Float32bits(refEIRP[i]), math.Float32bits(refEIRP[i+1])
		bits = lo + 1 + uint32(u64(t, "frac")%uint64(hi-lo-1))
	case "8..36":
		bits = bits8 + uint32(u64(t, "bits")%uint64(bits36-bits8+1))
	default:
		bits = bits8 + uint32(u64(t, "bits")%uint64(bitsMx-bits8+1))
	}
	if bits < bits8 {
		bits = bits8
	}
	return powerCase{Bits: bits, How: how}
}

type indexCase struct {
	Index int `json:"index"`
}

func checkIndex(c indexCase) evid.Outcome {
	if c.Index < 0 || c.Index > 255 {
		return evid.Outcome{Skip: true}
	}
	v, err := lorawan.GetTXParamSetupEIRP(uint8(c.Index))
	if c.Index > 15 {
		if err == nil {
			return evid.Fail("GetTXParamSetupEIRP(%d)=%v without error; the table has 16 entries, every index > 15 must be an error", c.Index, v)
		}
		return evid.Outcome{NonTrivial: true, Class: "invalid-index"}
	}
	if err != nil || v != refEIRP[c.Index] {
		return evid.Fail("GetTXParamSetupEIRP(%d)=%v err=%v; TXParamSetupReq table says %v dBm", c.Index, v, err, refEIRP[c.Index])
	}
	if back := lorawan.GetTXParamSetupEIRPIndex(v); int(back) != c.Index {
		return evid.Fail("index %d decodes to %v dBm, which is coded as index %d", c.Index, v, back)
	}
	return evid.Outcome{NonTrivial: true, Class: "valid-index"}
}

// ---------------------------------------------------------------------------

func TestProp(t *testing.T) {
	r := evid.Begin(t, "C20")
	defer r.Finish()

	// ---- A. GPS ----
	evid.Exhaustive(r, t, "gps-instants-leap-grid",
		"for each of the 18 leap seconds: every UTC instant from 3 s before to 3 s after the midnight that ends the leap day at 1 ms steps, plus 1 ns before and after each whole second (complete over that grid, both tiers). Oracle: TimeSinceGPSEpoch = (u - 1980-01-06) + number of insertion dates complete at u (table of dates, anchored to published GPS second counts); UTC->GPS->UTC returns u; GPS(u) < GPS(u + 1 ns). Non-trivial: the instant is within 3 s of a leap second (all of them).",
		true, func(emit func(gridCase)) { emitGrid(-3, 3, emit) }, checkInstantGrid)

	evid.Exhaustive(r, t, "gps-durations-leap-grid",
		"for each of the 18 leap seconds: every GPS duration from 3 s before the start to 3 s after the end of the inserted second at 1 ms steps, plus 1 ns before and after each whole second (complete over that grid, both tiers). Oracle: UTC = epoch + g - number of leap seconds complete at g, and GPS->UTC->GPS is the identity; durations inside the inserted second (UTC 23:59:60.x) are exempt and labelled, not asserted. Non-trivial: asserted duration within 3 s of a leap second.",
		true, func(emit func(gridCase)) { emitGrid(-3, 4, emit) }, checkDurationGrid)

	evid.Rapid(r, t, "gps-instants",
		"pairs u1 < u2 of UTC instants in [1980-01-06, 2100-01-01] at ns resolution: uniform (2/5), within 3 s of a random leap second (1/5), whole seconds around one +-2 ns (1/5), last/first two seconds of a random day (1/5); distance 1 ns, < 1 s, < 10 s, 1..5 s, or uniform. Oracle as in gps-instants-leap-grid for both instants, and GPS(u1) < GPS(u2). Non-trivial: one of the two instants is within 3 s of a leap second.",
		1000000, 10000000, genInstant, checkInstants)

	evid.Rapid(r, t, "gps-durations",
		"GPS durations: uniform over 1980..2100, within 3 s of a leap second, inside one, whole seconds around one +-2 ns, any int64 nanosecond count (negative and beyond 2100 included). Oracle as in gps-durations-leap-grid. Non-trivial: asserted duration within 3 s of a leap second.",
		1000000, 10000000, genDuration, checkDuration)

	// ---- B. airtime ----
	evid.Exhaustive(r, t, "airtime-grid",
		"SF 5..12 x BW {125,250,500,812,1625} kHz x payload 0..255 x CR 1..4 x header on/off x LDRO on/off x preamble 0..64 = 10,649,600 points: all of them in the thorough tier; in the quick tier a 1/16 sample stratified per (SF,BW,CR,header,LDRO): the points with (payload + preamble + k) mod 16 = 0, k derived from seed and stratum, so every payload size and every preamble length occurs in every stratum. Oracle: Semtech AN1200.13 formula in exact integer arithmetic (CRC on, IH = !header, DE = LDRO); |exact - library| < (symbols * [Tsym not a whole number of ns] + 1) ns; airtime(payload + 1) >= airtime(payload); no error. Non-trivial: LDRO on or implicit header.",
		r.Thorough(), func(emit func(airCase)) {
			st := uint64(0)
			for _, sf := range gridSF {
				for _, bw := range gridBW {
					for cr := 1; cr <= 4; cr++ {
						for h := 0; h < 2; h++ {
							for l := 0; l < 2; l++ {
								st++
								k := int(evid.Splitmix(r.Seed^(st*0x9e3779b97f4a7c15)) % 16)
								for pre := 0; pre <= 64; pre++ {
									for pl := 0; pl <= 255; pl++ {
										if !r.Thorough() && (pl+pre+k)%16 != 0 {
											continue
										}
										emit(airCase{SF: sf, BW: bw, PL: pl, CR: cr, Header: h == 0, LDRO: l == 1, Pre: pre})
									}
								}
							}
						}
					}
				}
			}
		}, checkAir)

	evid.Exhaustive(r, t, "airtime-symbol-preamble",
		"SF 5..12 x BW {125,250,500,812,1625} x preamble 0..64 (complete): CalculateLoRaSymbolDuration within 1 ns of 2^SF/BW, CalculateLoRaPreambleDuration(whole-ns symbol time of the model, n) within 1 ns of (n + 4.25) * Tsym. Non-trivial: Tsym is not a whole number of ns (truncation happens) or n > 0.",
		true, func(emit func(symCase)) {
			for _, sf := range gridSF {
				for _, bw := range gridBW {
					for pre := 0; pre <= 64; pre++ {
						emit(symCase{SF: sf, BW: bw, Pre: pre})
					}
				}
			}
		}, checkSymPre)

	evid.Exhaustive(r, t, "airtime-payload-symbols",
		"SF 5..12 x payload 0..255 x CR 1..4 x header x LDRO (complete, 32768 points): CalculateLoRaPayloadSymbolNumber equals 8 + max(ceil((8PL - 4SF + 28 + 16 - 20IH) / (4(SF - 2DE))) (CR + 4), 0) computed in integers. Non-trivial: LDRO on or implicit header.",
		true, func(emit func(nsymCase)) {
			for _, sf := range gridSF {
				for pl := 0; pl <= 255; pl++ {
					for cr := 1; cr <= 4; cr++ {
						for h := 0; h < 2; h++ {
							for l := 0; l < 2; l++ {
								emit(nsymCase{SF: sf, PL: pl, CR: cr, Header: h == 0, LDRO: l == 1})
							}
						}
					}
				}
			}
		}, checkNSym)

	// ---- C. EIRP ----
	evid.Exhaustive(r, t, "eirp-index-bytes",
		"all 256 index bytes: 0..15 decode to the TXParamSetupReq table entry (written out in the model) and that entry is coded back as the same index; 16..255 are an error. Every case is non-trivial.",
		true, func(emit func(indexCase)) {
			for i := 0; i < 256; i++ {
				emit(indexCase{Index: i})
			}
		}, checkIndex)

	evid.Exhaustive(r, t, "eirp-table-ulps",
		"each of the 16 table values, its float32 predecessor and successor (math.Nextafter32), without the predecessor of 8 (below the domain): index = largest entry <= power, and it decodes to that entry. Non-trivial: the power is strictly between two entries.",
		true, func(emit func(powerCase)) {
			for _, e := range refEIRP {
				for _, p := range []float32{math.Nextafter32(e, 0), e, math.Nextafter32(e, 1000)} {
					if p >= 8 {
						emit(powerCase{Bits: math.Float32bits(p), How: "ulp"})
					}
				}
			}
		}, checkPower)

	evid.Exhaustive(r, t, "eirp-float32-stride",
		"float32 powers in [8, 64] enumerated by bit pattern with a constant stride (2^16 values quick, 2^20 thorough, of 25,165,825; start offset derived from the seed), plus 64 itself. Oracle and non-trivial rule as in eirp-table-ulps.",
		false, func(emit func(powerCase)) {
			n := uint32(r.N(1<<16, 1<<20))
			stride := uint32(bits64-bits8) / n
			off := uint32(evid.Splitmix(r.Seed^0xe1b9) % uint64(stride))
			for i := uint32(0); i < n; i++ {
				emit(powerCase{Bits: bits8 + off + i*stride, How: "stride"})
			}
			emit(powerCase{Bits: bits64, How: "stride"})
		}, checkPower)

	evid.Rapid(r, t, "eirp-random",
		"finite float32 powers >= 8 dBm drawn by bit pattern: a table entry +-4 ulps, uniform strictly between two adjacent entries, uniform in [8, 36], uniform over all finite float32 >= 8. Oracle and non-trivial rule as in eirp-table-ulps.",
		400000, 4000000, genPower, checkPower)
}
