//go:build verif

// C11: DevAddr / NetID prefix algebra and identifier representations.
package c11

import (
	"bytes"
	"database/sql/driver"
	"encoding/binary"
	"encoding/hex"
	"fmt"
	"strings"
	"testing"

	"github.com/brocaar/lorawan"
	"pgregory.net/rapid"

	"verif/harness/internal/evid"
)

// --- arithmetic reference model (LoRaWAN backend interfaces, DevAddr assignment) ---

var nwkIDBits = [8]uint{6, 6, 9, 11, 12, 13, 15, 17}
var idBits = [8]uint{6, 6, 9, 21, 21, 21, 21, 21}

func refType(netID uint32) int { return int(netID>>21) & 7 }
func refID(netID uint32) uint32 {
	return netID & (1<<idBits[refType(netID)] - 1)
}

// refPrefixed returns the address carrying netID's type prefix and NwkID with
// the NwkAddr bits of addr untouched.
func refPrefixed(addr, netID uint32) uint32 {
	ty := uint(refType(netID))
	pl := ty + 1 // prefix length: ty ones and a zero
	w := nwkIDBits[ty]
	nwkAddrBits := 32 - pl - w
	prefix := (uint32(1)<<ty - 1) << 1 // ty ones followed by a zero
	nwkID := refID(netID) & (1<<w - 1)
	nwkAddr := addr & (1<<nwkAddrBits - 1)
	return prefix<<(32-pl) | nwkID<<nwkAddrBits | nwkAddr
}

func refAddrType(addr uint32) int {
	for i := 0; i < 8; i++ {
		if addr&(1<<(31-uint(i))) == 0 {
			return i
		}
	}
	return -1
}

func refAddrNwkID(addr uint32) (uint32, uint) {
	ty := refAddrType(addr)
	if ty < 0 {
		return 0, 0
	}
	w := nwkIDBits[ty]
	return addr << uint(ty+1) >> (32 - w), w
}

func refIsNetID(addr, netID uint32) bool {
	ty := refAddrType(addr)
	if ty != refType(netID) {
		return false
	}
	id, w := refAddrNwkID(addr)
	return id == refID(netID)&(1<<w-1)
}

func beBytes(v uint32, bits uint) []byte {
	n := int(bits+7) / 8
	b := make([]byte, 4)
	binary.BigEndian.PutUint32(b, v)
	return b[4-n:]
}

func toNetID(v uint32) lorawan.NetID {
	return lorawan.NetID{byte(v >> 16), byte(v >> 8), byte(v)}
}
func toAddr(v uint32) lorawan.DevAddr {
	var a lorawan.DevAddr
	binary.BigEndian.PutUint32(a[:], v)
	return a
}

// --- sub-check 1: prefix assignment ---

type prefixCase struct {
	NetID uint32 `json:"netid"`
	Addr  uint32 `json:"addr"`
}

func checkPrefix(c prefixCase) evid.Outcome {
	n := toNetID(c.NetID)
	a := toAddr(c.Addr)
	ty := refType(c.NetID)
	if n.Type() != ty {
		return evid.Fail("NetID %06x: Type()=%d, rule says %d", c.NetID, n.Type(), ty)
	}
	if want := beBytes(refID(c.NetID), idBits[ty]); !bytes.Equal(n.ID(), want) {
		return evid.Fail("NetID %06x: ID()=%x, rule says %x", c.NetID, n.ID(), want)
	}
	before := a
	a.SetAddrPrefix(n)
	want := refPrefixed(c.Addr, c.NetID)
	if got := binary.BigEndian.Uint32(a[:]); got != want {
		return evid.Fail("SetAddrPrefix(NetID %06x) on %08x gives %08x, addressing rule gives %08x", c.NetID, c.Addr, got, want)
	}
	if a.NetIDType() != ty {
		return evid.Fail("prefixed address %s: NetIDType()=%d want %d", a, a.NetIDType(), ty)
	}
	w := nwkIDBits[ty]
	if wantID := beBytes(refID(c.NetID)&(1<<w-1), w); !bytes.Equal(a.NwkID(), wantID) {
		return evid.Fail("prefixed address %s: NwkID()=%x want %x", a, a.NwkID(), wantID)
	}
	if !a.IsNetID(n) {
		return evid.Fail("prefixed address %s is not a member of NetID %06x", a, c.NetID)
	}
	if before.IsNetID(n) != refIsNetID(c.Addr, c.NetID) {
		return evid.Fail("IsNetID(%08x, %06x)=%v, rule says %v", c.Addr, c.NetID, before.IsNetID(n), refIsNetID(c.Addr, c.NetID))
	}
	// non-trivial: an ID bit above the NwkID width is set, or the NwkAddr bit adjacent to the NwkID field is set
	nwkAddrBits := 32 - uint(ty+1) - w
	nt := refID(c.NetID)>>w != 0 || c.Addr&(1<<(nwkAddrBits-1)) != 0
	var key [8]byte
	binary.BigEndian.PutUint32(key[:], c.NetID)
	binary.BigEndian.PutUint32(key[4:], c.Addr)
	return evid.Outcome{NonTrivial: nt, Class: fmt.Sprintf("type%d", ty), Key: key[:]}
}

// --- sub-check 2: membership with near misses ---

type memberCase struct {
	NetID uint32 `json:"netid"`
	Addr  uint32 `json:"addr"`
	How   string `json:"how"`
}

func genMember(t *rapid.T) memberCase {
	ty := rapid.Uint32Range(0, 7).Draw(t, "type")
	netID := ty<<21 | rapid.Uint32Range(0, 1<<21-1).Draw(t, "id")
	if rapid.Bool().Draw(t, "smallID") {
		netID = ty<<21 | rapid.Uint32Range(0, 1<<idBits[ty]-1).Draw(t, "id2")
	}
	addr := rapid.Uint32().Draw(t, "addr")
	how := rapid.SampledFrom([]string{"random", "member", "flip1", "othertype", "flipnet"}).Draw(t, "how")
	switch how {
	case "member":
		addr = refPrefixed(addr, netID)
	case "flip1":
		addr = refPrefixed(addr, netID) ^ 1<<rapid.UintRange(0, 31).Draw(t, "bit")
	case "othertype":
		other := rapid.Uint32Range(0, 7).Draw(t, "otype")
		addr = refPrefixed(addr, other<<21|netID&(1<<21-1))
	case "flipnet":
		addr = refPrefixed(addr, netID)
		netID ^= 1 << rapid.UintRange(0, 23).Draw(t, "nbit")
	}
	return memberCase{NetID: netID, Addr: addr, How: how}
}

func checkMember(c memberCase) evid.Outcome {
	a, n := toAddr(c.Addr), toNetID(c.NetID)
	// results handed out earlier do not change when the functions are used on other values
	held, heldNwk := n.ID(), a.NwkID()
	wantHeld, wantNwk := append([]byte{}, held...), append([]byte{}, heldNwk...)
	other := toNetID(c.NetID ^ 0x155555)
	_ = other.ID()
	tmp := toAddr(^c.Addr)
	tmp.SetAddrPrefix(other)
	_ = tmp.IsNetID(other)
	_ = tmp.NwkID()
	if !bytes.Equal(held, wantHeld) || !bytes.Equal(heldNwk, wantNwk) {
		return evid.Fail("NetID %06x: the ID() / NwkID() results obtained earlier (%x / %x) changed to %x / %x after the functions were used on another NetID / DevAddr (shared buffer)", c.NetID, wantHeld, wantNwk, held, heldNwk)
	}
	got, want := a.IsNetID(n), refIsNetID(c.Addr, c.NetID)
	if got != want {
		return evid.Fail("IsNetID(addr %08x, NetID %06x)=%v, rule says %v (%s)", c.Addr, c.NetID, got, want, c.How)
	}
	if a.NetIDType() != refAddrType(c.Addr) {
		return evid.Fail("DevAddr %08x NetIDType()=%d, rule says %d", c.Addr, a.NetIDType(), refAddrType(c.Addr))
	}
	if id, w := refAddrNwkID(c.Addr); w > 0 {
		if !bytes.Equal(a.NwkID(), beBytes(id, w)) {
			return evid.Fail("DevAddr %08x NwkID()=%x, rule says %x", c.Addr, a.NwkID(), beBytes(id, w))
		}
	} else if a.NwkID() != nil {
		return evid.Fail("DevAddr %08x has no type but NwkID()=%x", c.Addr, a.NwkID())
	}
	cls := c.How + "/no"
	if want {
		cls = c.How + "/yes"
	}
	return evid.Outcome{NonTrivial: c.How != "random", Class: cls}
}

// --- sub-check 3: representations ---

type reprCase struct {
	Type  string   `json:"type"` // eui64 devaddr netid key
	Bytes evid.Hex `json:"bytes"`
	Upper bool     `json:"upper"`
	Pfx   bool     `json:"prefix0x"`
}

var reprLen = map[string]int{"eui64": 8, "devaddr": 4, "netid": 3, "key": 16}

type ident interface {
	MarshalText() ([]byte, error)
	MarshalBinary() ([]byte, error)
	String() string
}

func genRepr(t *rapid.T) reprCase {
	ty := rapid.SampledFrom([]string{"eui64", "devaddr", "netid", "key"}).Draw(t, "type")
	n := reprLen[ty]
	if rapid.IntRange(0, 3).Draw(t, "wrongLen") == 0 {
		n = rapid.IntRange(0, 20).Draw(t, "n")
	}
	b := rapid.SliceOfN(rapid.Byte(), n, n).Draw(t, "bytes")
	switch rapid.IntRange(0, 9).Draw(t, "fill") {
	case 0: // the all-zero identifier (an unset value in many databases) and other constant fills
		for i := range b {
			b[i] = 0x00
		}
	case 1:
		for i := range b {
			b[i] = 0xff
		}
	case 2: // leading zero bytes / nibbles
		for i := 0; i < len(b)/2; i++ {
			b[i] = 0
		}
		if len(b) > 0 {
			b[len(b)/2] &= 0x0f
		}
	}
	return reprCase{Type: ty, Bytes: b, Upper: rapid.Bool().Draw(t, "upper"), Pfx: rapid.Bool().Draw(t, "0x")}
}

func reverse(b []byte) []byte {
	o := make([]byte, len(b))
	for i := range b {
		o[len(b)-1-i] = b[i]
	}
	return o
}

func checkRepr(c reprCase) evid.Outcome {
	want := reprLen[c.Type]
	valid := len(c.Bytes) == want
	text := hex.EncodeToString(c.Bytes)
	if c.Upper {
		text = strings.ToUpper(text)
	}
	if c.Pfx {
		text = "0x" + text
	}
	// one closure set per type so that the four types share the checks
	var (
		unText, unBin func([]byte) error
		scan          func(any) error
		cur           func() ident
		raw           func() []byte
		value         func() (any, error)
	)
	switch c.Type {
	case "eui64":
		var v lorawan.EUI64
		unText, unBin, scan = v.UnmarshalText, v.UnmarshalBinary, v.Scan
		cur, raw = func() ident { return v }, func() []byte { return v[:] }
		value = func() (any, error) { return v.Value() }
	case "devaddr":
		var v lorawan.DevAddr
		unText, unBin, scan = v.UnmarshalText, v.UnmarshalBinary, v.Scan
		cur, raw = func() ident { return v }, func() []byte { return v[:] }
		value = func() (any, error) { return v.Value() }
	case "netid":
		var v lorawan.NetID
		unText, unBin, scan = v.UnmarshalText, v.UnmarshalBinary, v.Scan
		cur, raw = func() ident { return v }, func() []byte { return v[:] }
		value = func() (any, error) { return v.Value() }
	case "key":
		var v lorawan.AES128Key
		unText, unBin, scan = v.UnmarshalText, v.UnmarshalBinary, v.Scan
		cur, raw = func() ident { return v }, func() []byte { return v[:] }
		value = func() (any, error) { return v.Value() }
	default:
		return evid.Outcome{Skip: true}
	}
	same := func(what string) *evid.Outcome {
		if !bytes.Equal(raw(), c.Bytes) {
			o := evid.Fail("%s %s: %s gives %x", c.Type, evid.Hex(c.Bytes), what, raw())
			return &o
		}
		return nil
	}
	// the decoders only read their input
	tin, bin, sin := []byte(text), reverse(c.Bytes), append([]byte{}, c.Bytes...)
	_, _, _ = unText(tin), unBin(bin), scan(sin)
	if string(tin) != text || !bytes.Equal(bin, reverse(c.Bytes)) || !bytes.Equal(sin, c.Bytes) {
		return evid.Fail("%s: a decoder modified its input: text %q -> %q, binary %x -> %x, scan %x -> %x", c.Type, text, tin, reverse(c.Bytes), bin, []byte(c.Bytes), sin)
	}
	// text
	err := unText([]byte(text))
	if !valid {
		if err == nil {
			return evid.Fail("%s: UnmarshalText accepted %d bytes (%q)", c.Type, len(c.Bytes), text)
		}
	} else {
		if err != nil {
			return evid.Fail("%s: UnmarshalText(%q): %v", c.Type, text, err)
		}
		if o := same("UnmarshalText"); o != nil {
			return *o
		}
		mt, err := cur().MarshalText()
		if err != nil || string(mt) != hex.EncodeToString(c.Bytes) || cur().String() != string(mt) {
			return evid.Fail("%s: MarshalText=%q err=%v String=%q want %q", c.Type, mt, err, cur().String(), hex.EncodeToString(c.Bytes))
		}
		// texts of the wrong length that begin with (or are the beginning of) the right text
		for _, bad := range []string{text + "0", text + "f", text + "\n", text + " ", text + "zz", text + "," + text, text[:len(text)-1], " " + text, text + text[len(text)-2:]} {
			if err := unText([]byte(bad)); err == nil {
				return evid.Fail("%s: UnmarshalText accepted %q, which is not the %d hexadecimal digits (optional 0x) of a %s", c.Type, bad, 2*want, c.Type)
			}
		}
	}
	// binary (byte reversed)
	err = unBin(reverse(c.Bytes))
	if !valid {
		if err == nil {
			return evid.Fail("%s: UnmarshalBinary accepted %d bytes", c.Type, len(c.Bytes))
		}
	} else {
		if err != nil {
			return evid.Fail("%s: UnmarshalBinary: %v", c.Type, err)
		}
		if o := same("UnmarshalBinary of the reversed bytes"); o != nil {
			return *o
		}
		mb, err := cur().MarshalBinary()
		if err != nil || !bytes.Equal(mb, reverse(c.Bytes)) {
			return evid.Fail("%s %s: MarshalBinary=%x err=%v want byte-reversed", c.Type, evid.Hex(c.Bytes), mb, err)
		}
	}
	// database
	err = scan([]byte(c.Bytes))
	if !valid {
		if err == nil {
			return evid.Fail("%s: Scan accepted %d bytes", c.Type, len(c.Bytes))
		}
	} else {
		if err != nil {
			return evid.Fail("%s: Scan: %v", c.Type, err)
		}
		if o := same("Scan"); o != nil {
			return *o
		}
		dv, err := value()
		if b, ok := dv.([]byte); err != nil || !ok || !bytes.Equal(b, c.Bytes) {
			return evid.Fail("%s: Value()=%v err=%v", c.Type, dv, err)
		}
		// the identifier handed to database/sql BY VALUE (a query argument, a struct field): the driver's parameter
		// converter must find its database representation
		cv, err := driver.DefaultParameterConverter.ConvertValue(cur())
		if b, ok := cv.([]byte); err != nil || !ok || !bytes.Equal(b, c.Bytes) {
			return evid.Fail("%s %s passed by value as a database/sql argument converts to %v (err %v), want its %d bytes", c.Type, evid.Hex(c.Bytes), cv, err, want)
		}
	}
	cls := c.Type + "/valid"
	if !valid {
		cls = c.Type + "/wronglen"
	}
	return evid.Outcome{NonTrivial: true, Class: cls}
}

func TestProp(t *testing.T) {
	r := evid.Begin(t, "C11")
	defer r.Finish()

	evid.Exhaustive(r, t, "prefix-all-netids",
		"all 2^24 NetIDs x 4 DevAddrs (0, all-ones, two alternating patterns so that the NwkAddr bit adjacent to every NwkID width occurs set and clear), both tiers. Oracle: arithmetic model of the addressing rule. Non-trivial: an ID bit above the NwkID width is set or the NwkAddr bit adjacent to the NwkID field is set.",
		true,
		func(emit func(prefixCase)) {
			addrs := []uint32{0, 0xffffffff, 0x5a5a5a5a, 0xa5a5a5a5}
			for n := uint32(0); n < 1<<24; n++ {
				for _, a := range addrs {
					emit(prefixCase{NetID: n, Addr: a})
				}
			}
		}, checkPrefix)

	evid.Rapid(r, t, "prefix-random",
		"random NetID x random DevAddr against the arithmetic model; non-trivial as in prefix-all-netids",
		400000, 8000000,
		func(t *rapid.T) prefixCase {
			ty := rapid.Uint32Range(0, 7).Draw(t, "type")
			id := rapid.Uint32Range(0, 1<<21-1).Draw(t, "id")
			if rapid.Bool().Draw(t, "highbits") {
				id |= 1 << rapid.UintRange(0, 20).Draw(t, "bit")
			}
			return prefixCase{NetID: ty<<21 | id, Addr: rapid.Uint32().Draw(t, "addr")}
		}, checkPrefix)

	evid.Rapid(r, t, "membership",
		"(DevAddr, NetID) pairs: random, exact member, member with one address bit flipped, same NwkID under another type, member with one NetID bit flipped; IsNetID must equal (type equal and NwkID equal). Non-trivial: every constructed (non purely random) pair.",
		400000, 8000000, genMember, checkMember)

	evid.Rapid(r, t, "representations",
		"EUI64/DevAddr/NetID/AES128Key of correct length and of wrong lengths 0..20 (random bytes; 3/10 all-zero, all-ones or with leading zero bytes): text (hex, optional 0x, upper/lower case), binary (byte reversed), Scan/Value (Value also through database/sql's parameter converter on the identifier passed by value); wrong lengths must be rejected by all three decoders, and so must the right text followed or preceded by further characters (a digit, a byte pair, a newline, a blank, a comma and a second identifier) or cut by one digit. Every case is non-trivial.",
		200000, 4000000, genRepr, checkRepr)
}
