//go:build verif

// C12: band RX1 channel / RX1 frequency / RX1 data-rate / RX2 defaults / ping-slot
// frequency against the regional rules of internal/ref/bandrules.go.
package c12

import (
	"encoding/binary"
	"fmt"
	"os"
	"testing"
	"time"

	"github.com/brocaar/lorawan"
	"github.com/brocaar/lorawan/band"
	"pgregory.net/rapid"

	"verif/harness/internal/evid"
	"verif/harness/internal/ref"
)

// Cfg is one band configuration.
type Cfg struct {
	Band  string `json:"band"`
	Rep   bool   `json:"repeater"`
	Dwell bool   `json:"dwell400ms"`
}

func (c Cfg) String() string {
	return fmt.Sprintf("%s(repeater=%v,dwell400ms=%v)", c.Band, c.Rep, c.Dwell)
}

type opened struct {
	b     band.Band
	snap  band.VerifBandSnapshot
	rules *ref.BandRules
}

func (c Cfg) open() (opened, error) {
	rules := ref.Band(c.Band)
	if rules == nil {
		return opened{}, fmt.Errorf("no rules for band %q", c.Band)
	}
	dt := lorawan.DwellTimeNoLimit
	if c.Dwell {
		dt = lorawan.DwellTime400ms
	}
	b, err := band.GetConfig(band.Name(c.Band), c.Rep, dt)
	if err != nil {
		return opened{}, err
	}
	snap, ok := band.VerifSnapshot(b)
	if !ok {
		return opened{}, fmt.Errorf("no snapshot for %s", c.Band)
	}
	return opened{b: b, snap: snap, rules: rules}, nil
}

func allCfgs(f func(Cfg)) {
	for _, n := range ref.BandNames() {
		for _, rep := range []bool{false, true} {
			for _, dw := range []bool{false, true} {
				f(Cfg{Band: n, Rep: rep, Dwell: dw})
			}
		}
	}
}

func (o opened) downlinkDR(i int) bool {
	d, ok := o.snap.DataRates[i]
	if !ok || !d.Downlink {
		return false
	}
	_, err := o.b.GetDataRate(i)
	return err == nil
}

// --- sub-check: RX1 channel and RX1 frequency ---

type chanCase struct {
	Cfg
	Extra int `json:"extra_channels"` // custom channels added before the lookup (dynamic plans)
	Index int `json:"uplink_channel"`
}

// frequency of the k-th custom channel added by the check: 200 kHz raster above the last default channel
func extraFreq(r *ref.BandRules, k int) uint32 {
	return r.Uplink[len(r.Uplink)-1].Frequency + uint32(k+1)*200000
}

func checkChan(c chanCase) evid.Outcome {
	o, err := c.open()
	if err != nil {
		return evid.Fail("%s: %v", c.Cfg, err)
	}
	r := o.rules
	if c.Extra > 0 && !r.Dynamic {
		return evid.Outcome{Skip: true}
	}
	for k := 0; k < c.Extra; k++ {
		if err := o.b.AddChannel(extraFreq(r, k), 0, 5); err != nil {
			return evid.Fail("%s: AddChannel(%d): %v", c.Cfg, extraFreq(r, k), err)
		}
	}
	n := len(r.Uplink) + c.Extra
	if got := len(o.b.GetUplinkChannelIndices()); got != n {
		return evid.Fail("%s: %d uplink channels, the regional plan (+%d added) has %d", c.Cfg, got, c.Extra, n)
	}
	if c.Index < 0 || c.Index >= n {
		return evid.Outcome{Skip: true}
	}
	// the uplink channel under the index, by the regional plan
	upF := uint32(0)
	if c.Index < len(r.Uplink) {
		upF = r.Uplink[c.Index].Frequency
	} else {
		upF = extraFreq(r, c.Index-len(r.Uplink))
	}
	uc, err := o.b.GetUplinkChannel(c.Index)
	if err != nil {
		return evid.Fail("%s: GetUplinkChannel(%d): %v", c.Cfg, c.Index, err)
	}
	if uc.Frequency != upF {
		return evid.Fail("%s: uplink channel %d has frequency %d, the regional plan says %d", c.Cfg, c.Index, uc.Frequency, upF)
	}
	// rule: downlink channel index and its frequency
	wantIdx := r.RX1Channel(c.Index)
	wantF := upF
	if !r.Dynamic {
		wantF = r.Downlink[wantIdx].Frequency
	}
	gotIdx, err := o.b.GetRX1ChannelIndexForUplinkChannelIndex(c.Index)
	if err != nil {
		return evid.Fail("%s: GetRX1ChannelIndexForUplinkChannelIndex(%d): %v", c.Cfg, c.Index, err)
	}
	if gotIdx != wantIdx {
		return evid.Fail("%s: GetRX1ChannelIndexForUplinkChannelIndex(%d)=%d, regional rule (mod %d; 0=same) gives %d", c.Cfg, c.Index, gotIdx, r.RX1ChannelMod, wantIdx)
	}
	dc, err := o.b.GetDownlinkChannel(gotIdx)
	if err != nil {
		return evid.Fail("%s: RX1 channel %d of uplink channel %d is not an existing downlink channel: %v", c.Cfg, gotIdx, c.Index, err)
	}
	if dc.Frequency != wantF {
		return evid.Fail("%s: downlink channel %d (RX1 of uplink channel %d) has frequency %d, regional rule gives %d", c.Cfg, gotIdx, c.Index, dc.Frequency, wantF)
	}
	gotF, err := o.b.GetRX1FrequencyForUplinkFrequency(uc.Frequency)
	if err != nil {
		return evid.Fail("%s: GetRX1FrequencyForUplinkFrequency(%d): %v", c.Cfg, uc.Frequency, err)
	}
	if gotF != wantF || gotF != dc.Frequency {
		return evid.Fail("%s: GetRX1FrequencyForUplinkFrequency(%d)=%d, RX1 channel index %d has %d, regional rule gives %d", c.Cfg, uc.Frequency, gotF, gotIdx, dc.Frequency, wantF)
	}
	cls := c.Band + "/same"
	nt := c.Index >= len(r.Uplink) // custom channel of a dynamic plan
	if !r.Dynamic {
		cls = c.Band + "/unwrapped"
		if wantIdx != c.Index {
			cls, nt = c.Band+"/wrapped", true
		}
	} else if nt {
		cls = c.Band + "/same-custom"
	}
	return evid.Outcome{NonTrivial: nt, Class: cls}
}

// --- sub-checks: RX1 data-rate ---

type drCase struct {
	Cfg
	DR  int `json:"uplink_dr"`
	Off int `json:"rx1_dr_offset"`
}

// callRX1 turns a panic into text: the property demands "an error rather than a panic".
func callRX1(b band.Band, dr, off int) (got int, err error, panicked string) {
	defer func() {
		if p := recover(); p != nil {
			panicked = fmt.Sprint(p)
		}
	}()
	got, err = b.GetRX1DataRateIndex(dr, off)
	return
}

func checkDR(c drCase) evid.Outcome {
	o, err := c.open()
	if err != nil {
		return evid.Fail("%s: %v", c.Cfg, err)
	}
	want, kind, why := o.rules.RX1DataRate(c.DR, c.Off, c.Dwell)
	got, err, panicked := callRX1(o.b, c.DR, c.Off)
	call := fmt.Sprintf("%s: GetRX1DataRateIndex(uplinkDR=%d, rx1DROffset=%d)", c.Cfg, c.DR, c.Off)
	if panicked != "" {
		exp := "an error"
		if kind == ref.RX1Rule {
			exp = fmt.Sprintf("%v", want)
		}
		return evid.Fail("%s panicked (%s); expected %s, never a panic", call, panicked, exp)
	}
	switch kind {
	case ref.RX1Invalid:
		if err == nil {
			extra := ""
			if !o.downlinkDR(got) {
				extra = " (not even a downlink data-rate of the band)"
			}
			return evid.Fail("%s accepted the pair and returned %d%s; %s: an error is required", call, got, extra, why)
		}
		// non-trivial: exactly one coordinate is invalid, the other one would be accepted
		_, k1, _ := o.rules.RX1DataRate(c.DR, 0, c.Dwell)
		_, k2, _ := o.rules.RX1DataRate(0, c.Off, c.Dwell)
		cls := "both-invalid"
		if k1 != ref.RX1Invalid {
			cls = "offset-invalid"
			if c.Off < 0 {
				cls = "offset-negative"
			}
		} else if k2 != ref.RX1Invalid {
			cls = "dr-invalid"
			if c.DR < 0 {
				cls = "dr-negative"
			}
		}
		return evid.Outcome{NonTrivial: cls != "both-invalid", Class: c.Band + "/" + cls}
	case ref.RX1Rule:
		if err != nil {
			return evid.Fail("%s failed (%v); regional rule %s gives %v", call, err, why, want)
		}
		ok := false
		for _, w := range want {
			ok = ok || w == got
		}
		if !ok {
			return evid.Fail("%s=%d, regional rule %s gives %v", call, got, why, want)
		}
		if !o.downlinkDR(got) {
			return evid.Fail("%s=%d, which is not a downlink data-rate of the band", call, got)
		}
		cls := "offset0"
		switch {
		case c.Off > o.rules.RX1MonotonicMaxOffset:
			cls = "raising-offset"
		case c.Off > 0:
			cls = "positive-offset"
		}
		return evid.Outcome{NonTrivial: got != c.DR, Class: c.Band + "/" + cls}
	default: // data-rate of the region without a row in the region's rule
		if err != nil {
			return evid.Outcome{Class: c.Band + "/extra-rejected"}
		}
		if !o.downlinkDR(got) {
			return evid.Fail("%s=%d, which is not a downlink data-rate of the band (the pair is outside the regional rule, accepted by the implementation)", call, got)
		}
		return evid.Outcome{NonTrivial: true, Class: c.Band + "/extra-accepted"}
	}
}

func enumDR(kind ref.RX1Kind) func(emit func(drCase)) {
	return func(emit func(drCase)) {
		allCfgs(func(cfg Cfg) {
			r := ref.Band(cfg.Band)
			for dr := -2; dr <= 16; dr++ {
				for off := -2; off <= 9; off++ {
					if _, k, _ := r.RX1DataRate(dr, off, cfg.Dwell); k == kind {
						emit(drCase{Cfg: cfg, DR: dr, Off: off})
					}
				}
			}
		})
	}
}

// --- sub-check: monotonicity of a row over the region's positive offsets ---

type rowCase struct {
	Cfg
	DR int `json:"uplink_dr"`
}

func checkRow(c rowCase) evid.Outcome {
	o, err := c.open()
	if err != nil {
		return evid.Fail("%s: %v", c.Cfg, err)
	}
	prev, havePrev := 0, false
	accepted, drops := 0, 0
	for off := 0; off <= o.rules.RX1MonotonicMaxOffset; off++ {
		got, err, panicked := callRX1(o.b, c.DR, off)
		if panicked != "" {
			return evid.Fail("%s: GetRX1DataRateIndex(uplinkDR=%d, rx1DROffset=%d) panicked (%s)", c.Cfg, c.DR, off, panicked)
		}
		if err != nil {
			havePrev = false
			continue
		}
		accepted++
		if havePrev {
			if got > prev {
				return evid.Fail("%s: uplink DR%d: RX1 data-rate rises from %d at offset %d to %d at offset %d; it must never increase over the positive offsets", c.Cfg, c.DR, prev, off-1, got, off)
			}
			steps := 0
			for d := got; d < prev; d++ {
				if dd, ok := o.snap.DataRates[d]; ok && dd.Downlink {
					steps++
				}
			}
			if steps > 1 {
				return evid.Fail("%s: uplink DR%d: RX1 data-rate drops from %d at offset %d to %d at offset %d, that is %d defined downlink data-rates in one offset unit; at most 1 expected", c.Cfg, c.DR, prev, off-1, got, off, steps)
			}
			if got < prev {
				drops++
			}
		}
		prev, havePrev = got, true
	}
	cls := "rejected"
	if accepted > 0 {
		cls = "flat"
		if drops > 0 {
			cls = "descending"
		}
	}
	return evid.Outcome{NonTrivial: drops > 0, Class: c.Band + "/" + cls}
}

// --- sub-check: RX2 defaults and delays ---

type cfgCase struct {
	Cfg
}

func checkDefaults(c cfgCase) evid.Outcome {
	o, err := c.open()
	if err != nil {
		return evid.Fail("%s: %v", c.Cfg, err)
	}
	r := o.rules
	if o.b.Name() != c.Band {
		return evid.Fail("%s: Name()=%q", c.Cfg, o.b.Name())
	}
	d := o.b.GetDefaults()
	if d.RX2Frequency != r.RX2Frequency || d.RX2DataRate != r.RX2DataRate {
		return evid.Fail("%s: RX2 default is %d Hz / DR%d, Regional Parameters say %d Hz / DR%d", c.Cfg, d.RX2Frequency, d.RX2DataRate, r.RX2Frequency, r.RX2DataRate)
	}
	if !o.downlinkDR(d.RX2DataRate) {
		return evid.Fail("%s: RX2 default DR%d is not a downlink data-rate of the band", c.Cfg, d.RX2DataRate)
	}
	sec := func(n int) time.Duration { return time.Duration(n) * time.Second }
	if d.ReceiveDelay1 != sec(r.ReceiveDelay1) || d.ReceiveDelay2 != sec(r.ReceiveDelay2) || d.JoinAcceptDelay1 != sec(r.JoinAcceptDelay1) || d.JoinAcceptDelay2 != sec(r.JoinAcceptDelay2) {
		return evid.Fail("%s: delays %v/%v/%v/%v, Regional Parameters say %d/%d/%d/%d s", c.Cfg, d.ReceiveDelay1, d.ReceiveDelay2, d.JoinAcceptDelay1, d.JoinAcceptDelay2, r.ReceiveDelay1, r.ReceiveDelay2, r.JoinAcceptDelay1, r.JoinAcceptDelay2)
	}
	return evid.Outcome{NonTrivial: true, Class: c.Band}
}

// --- sub-check: ping-slot frequency ---

type pingCase struct {
	Cfg
	DevAddr uint32 `json:"devaddr"`
	Beacon  uint64 `json:"beacon_time_s"`
	Nanos   uint32 `json:"beacon_time_ns,omitempty"` // 0..999999999 on top of the seconds: a time.Duration is finer than a second
}

var hopping = []string{"US915", "AU915", "CN470"}

func genPing(t *rapid.T) pingCase {
	var c pingCase
	if rapid.IntRange(0, 9).Draw(t, "hopping") < 7 {
		c.Band = rapid.SampledFrom(hopping).Draw(t, "band")
	} else {
		c.Band = rapid.SampledFrom(ref.BandNames()).Draw(t, "band")
	}
	c.Rep = rapid.Bool().Draw(t, "repeater")
	c.Dwell = rapid.Bool().Draw(t, "dwell")
	// uniform bits for the address and the beacon period number
	raw := rapid.SliceOfN(rapid.Byte(), 8, 8).Draw(t, "bits")
	c.DevAddr = binary.BigEndian.Uint32(raw[:4])
	period := uint64(binary.BigEndian.Uint32(raw[4:]) >> 7) // 0 .. 2^25-1
	switch rapid.IntRange(0, 9).Draw(t, "edge") {
	case 0:
		period = 0
	case 1:
		period = 1 << 25
	case 2:
		period = uint64(rapid.IntRange(0, 64).Draw(t, "small"))
	}
	sec := int64(period)*128 + int64(rapid.IntRange(-1, 1).Draw(t, "delta"))
	if sec < 0 {
		sec = 0
	}
	if sec > 1<<32 {
		sec = 1 << 32
	}
	c.Beacon = uint64(sec)
	// the caller's beacon time is a time.Duration: the period number is floor(t / 128 s) for sub-second parts too
	switch rapid.IntRange(0, 7).Draw(t, "subsecond") {
	case 0:
		c.Nanos = 999999999
	case 1:
		c.Nanos = uint32(rapid.IntRange(999999000, 999999999).Draw(t, "lastmicro"))
	case 2:
		c.Nanos = uint32(rapid.IntRange(1, 999999998).Draw(t, "nanos"))
	}
	return c
}

func checkPing(c pingCase) evid.Outcome {
	o, err := c.open()
	if err != nil {
		return evid.Fail("%s: %v", c.Cfg, err)
	}
	var a lorawan.DevAddr
	binary.BigEndian.PutUint32(a[:], c.DevAddr)
	got, err := o.b.GetPingSlotFrequency(a, time.Duration(c.Beacon)*time.Second+time.Duration(c.Nanos))
	want := o.rules.PingSlotFrequency(c.DevAddr, c.Beacon)
	if err != nil {
		return evid.Fail("%s: GetPingSlotFrequency(%08x, %d s + %d ns): %v; regional rule gives %d", c.Cfg, c.DevAddr, c.Beacon, c.Nanos, err, want)
	}
	if got != want {
		return evid.Fail("%s: GetPingSlotFrequency(DevAddr %08x, beacon time %d s + %d ns)=%d, regional rule gives %d (channel (DevAddr + floor(t/128)) mod 8 = %d)", c.Cfg, c.DevAddr, c.Beacon, c.Nanos, got, want, ref.PingSlotChannel(c.DevAddr, c.Beacon))
	}
	if o.rules.PingSlotFixed != 0 {
		return evid.Outcome{Class: c.Band + "/fixed"}
	}
	found := false
	for _, dc := range o.snap.DownlinkChannels {
		found = found || dc.Frequency == got
	}
	if !found {
		return evid.Fail("%s: ping-slot frequency %d is not the frequency of a downlink channel", c.Cfg, got)
	}
	key := make([]byte, 0, 32)
	key = append(key, c.Band...)
	key = binary.BigEndian.AppendUint32(key, c.DevAddr)
	key = binary.BigEndian.AppendUint64(key, c.Beacon)
	key = binary.BigEndian.AppendUint32(key, c.Nanos)
	return evid.Outcome{NonTrivial: true, Class: fmt.Sprintf("%s/ch%d", c.Band, ref.PingSlotChannel(c.DevAddr, c.Beacon)), Key: key}
}

// TestListViolations prints every violating case of the enumerated sub-checks
// (the driver stops a shard at the first one). Diagnostic only: VERIF_LIST=1
// go test -tags verif -run TestListViolations ./c12/
func TestListViolations(t *testing.T) {
	if os.Getenv("VERIF_LIST") == "" {
		t.Skip("diagnostic listing; set VERIF_LIST=1")
	}
	n := 0
	report := func(sub string, o evid.Outcome) {
		if o.Violation != "" {
			n++
			fmt.Printf("[%s] %s\n", sub, o.Violation)
		}
	}
	for _, k := range []ref.RX1Kind{ref.RX1Rule, ref.RX1Invalid, ref.RX1Unspecified} {
		enumDR(k)(func(c drCase) { report("rx1-dr", checkDR(c)) })
	}
	allCfgs(func(cfg Cfg) {
		for dr := -2; dr <= 16; dr++ {
			report("rx1-dr-monotonic", checkRow(rowCase{Cfg: cfg, DR: dr}))
		}
		report("rx2-defaults", checkDefaults(cfgCase{cfg}))
	})
	fmt.Printf("%d violating cases\n", n)
}

func TestProp(t *testing.T) {
	r := evid.Begin(t, "C12")
	defer r.Finish()

	evid.Exhaustive(r, t, "rx1-channel",
		"56 configurations (14 names x repeater x dwell) x every uplink channel index of the plan; dynamic plans additionally with 13 custom channels added (indices up to 15). Oracle: bandrules (same index / mod 8 / mod 48; frequency of that downlink channel by the regional plan); the index variant, the frequency variant and GetDownlinkChannel must agree with it and with each other. Non-trivial: the index wraps (fixed plans) or the channel is a custom one (dynamic plans).",
		true,
		func(emit func(chanCase)) {
			allCfgs(func(cfg Cfg) {
				rl := ref.Band(cfg.Band)
				extras := []int{0}
				if rl.Dynamic {
					extras = []int{0, 13}
				}
				for _, e := range extras {
					for i := 0; i < len(rl.Uplink)+e; i++ {
						emit(chanCase{Cfg: cfg, Extra: e, Index: i})
					}
				}
			})
		}, checkChan)

	evid.Exhaustive(r, t, "rx1-dr-rule",
		"56 configurations x every (uplink DR, RX1DROffset) pair of -2..16 x -2..9 inside the domain of the region's rule. Oracle: bandrules formula (max(DR-o,0); min(13,max(8,DR+10-o)); min(13,max(8,DR+8-o)); min(5,max(floor,DR-eff(o))); IN865 mapping with FSK row; LR-FHSS rows as their LoRa row); the result must also carry the downlink flag. Non-trivial: the result differs from the uplink DR.",
		true, enumDR(ref.RX1Rule), checkDR)

	evid.Exhaustive(r, t, "rx1-dr-invalid",
		"56 configurations x every pair of -2..16 x -2..9 with a negative coordinate, an offset above the region's maximum or an index that is not a data-rate of the region: an error is required, never a panic and never a value. Non-trivial: exactly one coordinate is invalid.",
		true, enumDR(ref.RX1Invalid), checkDR)

	evid.Exhaustive(r, t, "rx1-dr-extra",
		"56 configurations x the remaining pairs of -2..16 x -2..9 (data-rates of the region without a row in the region's rule, e.g. downlink-only data-rates): either an error or a data-rate with the downlink flag; never a panic. Non-trivial: the implementation accepts the pair.",
		true, enumDR(ref.RX1Unspecified), checkDR)

	evid.Exhaustive(r, t, "rx1-dr-monotonic",
		"56 configurations x uplink DR -2..16: over the region's positive offsets (0..3 US915, 0..5 elsewhere; AS923/IN865 offsets 6,7 excluded) the accepted results never increase and drop by at most one defined downlink data-rate (snapshot flags) per offset unit; applies to every accepted row, also outside the rule's domain. Non-trivial: the row is accepted and strictly descends somewhere.",
		true,
		func(emit func(rowCase)) {
			allCfgs(func(cfg Cfg) {
				for dr := -2; dr <= 16; dr++ {
					emit(rowCase{Cfg: cfg, DR: dr})
				}
			})
		}, checkRow)

	evid.Exhaustive(r, t, "rx2-defaults",
		"56 configurations: GetDefaults RX2 frequency / data-rate and the four delays equal bandrules; the RX2 data-rate carries the downlink flag. Every case is non-trivial.",
		true,
		func(emit func(cfgCase)) { allCfgs(func(cfg Cfg) { emit(cfgCase{cfg}) }) }, checkDefaults)

	evid.Rapid(r, t, "ping-slot",
		"random configuration (70% of the cases one of the hopping regions US915/AU915/CN470) x DevAddr (uniform 32 bits) x beacon time = 128 s x period (uniform 0..2^25, edges 0 / 2^25 / small) + {-1,0,+1} s clipped to 0..2^32 s, three times in eight plus a sub-second part (the last nanosecond, the last microsecond, any) - the argument is a time.Duration and the period number its floor. Oracle: bandrules (fixed frequency, or base + step x ((DevAddr + floor(t/128)) mod 8)); a hopping result must be a downlink channel frequency. Non-trivial: hopping region.",
		160000, 3200000, genPing, checkPing)
}
