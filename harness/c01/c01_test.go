//go:build verif

// C01: frame encode/decode round trip for every message type.
package c01

import (
	"bytes"
	"encoding/base64"
	"fmt"
	"testing"

	"github.com/brocaar/lorawan"
	"pgregory.net/rapid"

	"verif/harness/internal/evid"
	"verif/harness/internal/gen"
	"verif/harness/internal/ref"
)

type frameCase struct {
	F   ref.Frame `json:"frame"`
	Key evid.Hex  `json:"key"` // join-accept encryption key
	// data frames: after decoding, the FOpts of the decoded value are replaced by these commands (another length)
	// and the value is encoded again: a decoded frame is a frame value like any other
	AltFOpts evid.Hex `json:"alt_fopts,omitempty"`
}

// dirty frames: what a receive loop that reuses one PHYPayload variable has decoded before
var dirty = [][]byte{
	{0x40, 4, 3, 2, 1, 0x83, 0x34, 0x12, 0x02, 0x03, 0x05, 0x2a, 0xde, 0xad, 0xbe, 0xef, 1, 2, 3, 4}, // uplink, 3 FOpts bytes, FPort 42, payload
	{0x60, 4, 3, 2, 1, 0x20, 0x01, 0x00, 0x00, 0x06, 9, 9, 9, 9},                                     // downlink, FPort 0 with a command
	{0x00, 1, 2, 3, 4, 5, 6, 7, 8, 8, 7, 6, 5, 4, 3, 2, 1, 0x34, 0x12, 1, 2, 3, 4},                   // join-request
}

func decodeBack(b []byte, text bool) (*ref.Frame, error) {
	f1, err := decodeBackInto(b, text, -1)
	if err != nil {
		return nil, err
	}
	// the same decode into a value that decoded another frame before must give the same frame
	for i := range dirty {
		f2, err := decodeBackInto(b, text, i)
		if err != nil {
			return nil, fmt.Errorf("into a PHYPayload that decoded %x before: %v", dirty[i], err)
		}
		if f1.FPort != f2.FPort || !bytes.Equal(f1.Encode(), f2.Encode()) {
			return nil, fmt.Errorf("decoding into a PHYPayload that decoded %x before gives a frame standing for %x (FPort %d), into a fresh one %x (FPort %d)", dirty[i], f2.Encode(), f2.FPort, f1.Encode(), f1.FPort)
		}
	}
	// a receive loop: one variable, results kept by value while the variable decodes the next frame
	if !text {
		f3, err := decodeBackInto(b, false, -2)
		if err != nil {
			return nil, fmt.Errorf("decoded in a receive loop (one PHYPayload variable, the result kept by value, the variable then decodes %x): %v", gen.Decoy(b), err)
		}
		if f1.FPort != f3.FPort || !bytes.Equal(f1.Encode(), f3.Encode()) {
			return nil, fmt.Errorf("the value kept from decoding %x stands for %x (FPort %d) after the same variable decoded %x; a fresh decode gives %x (FPort %d)", b, f3.Encode(), f3.FPort, gen.Decoy(b), f1.Encode(), f1.FPort)
		}
	}
	return f1, nil
}

func decodeBackInto(b []byte, text bool, dirtyIdx int) (*ref.Frame, error) {
	var q lorawan.PHYPayload
	if dirtyIdx >= 0 {
		if err := q.UnmarshalBinary(append([]byte{}, dirty[dirtyIdx]...)); err != nil {
			return nil, fmt.Errorf("harness: dirty frame %d does not decode: %v", dirtyIdx, err)
		}
		_ = q.DecodeFOptsToMACCommands()
	}
	if text {
		txt := []byte(base64.StdEncoding.EncodeToString(b))
		if err := q.UnmarshalText(txt); err != nil {
			return nil, fmt.Errorf("UnmarshalText: %v", err)
		}
		if string(txt) != base64.StdEncoding.EncodeToString(b) {
			return nil, fmt.Errorf("UnmarshalText overwrote the text it was given: %q became %q", base64.StdEncoding.EncodeToString(b), txt)
		}
	} else if dirtyIdx == -2 {
		kept, err := gen.Receive(b, true)
		if err != nil {
			return nil, fmt.Errorf("UnmarshalBinary: %v", err)
		}
		q = kept
	} else {
		buf := append([]byte{}, b...)
		if err := q.UnmarshalBinary(buf); err != nil {
			return nil, fmt.Errorf("UnmarshalBinary: %v", err)
		}
		// the caller's receive buffer is reused for the next frame: the decoded frame must not change with it
		for i := range buf {
			buf[i] = ^buf[i]
		}
	}
	// a receiver logs what it received before it works with it: formatting a frame is not an operation on it
	_ = fmt.Sprintf("%v %s %+v", q, q, &q)
	if m, ok := q.MACPayload.(*lorawan.MACPayload); ok {
		if err := q.DecodeFOptsToMACCommands(); err != nil {
			return nil, fmt.Errorf("DecodeFOptsToMACCommands (after the decoded frame was formatted with %%v / %%s for a log line): %v", err)
		}
		if m.FPort != nil && *m.FPort == 0 && len(m.FRMPayload) > 0 {
			if err := q.DecodeFRMPayloadToMACCommands(); err != nil {
				return nil, fmt.Errorf("DecodeFRMPayloadToMACCommands: %v", err)
			}
		}
	}
	g, err := gen.FromLib(&q)
	if err != nil {
		return nil, err
	}
	if m, ok := q.MACPayload.(*lorawan.MACPayload); ok {
		up := ref.IsUplinkMType(g.MType)
		if err := gen.CmdsMatch(up, m.FHDR.FOpts, g.FOpts, "FOpts after DecodeFOptsToMACCommands"); err != nil {
			return nil, err
		}
		if m.FPort != nil && *m.FPort == 0 && len(g.FRM) > 0 {
			if err := gen.CmdsMatch(up, m.FRMPayload, g.FRM, "FRMPayload (port 0) after DecodeFRMPayloadToMACCommands"); err != nil {
				return nil, err
			}
		}
	}
	return g, nil
}

func sameFrame(f, g *ref.Frame) string {
	if f.FPort != g.FPort {
		return fmt.Sprintf("FPort %d became %d", f.FPort, g.FPort)
	}
	if w, h := f.Encode(), g.Encode(); !bytes.Equal(w, h) {
		return fmt.Sprintf("decoded frame stands for %x, original is %x", h, w)
	}
	return ""
}

func checkFrame(c frameCase) evid.Outcome {
	f := &c.F
	want := f.Encode()
	cls := fmt.Sprintf("mtype%d", f.MType)
	nt := false
	if ref.IsData(f.MType) {
		pc := "absent"
		if f.FPort == 0 {
			pc = "port0"
		} else if f.FPort > 0 {
			pc = "app"
		}
		cls = fmt.Sprintf("data/fopts%s/%s/frm%s", bucket(len(f.FOpts), 0, 1, 15), pc, bucket(len(f.FRM), 0, 17, 223))
		nt = len(f.FOpts) > 0 && f.FPort >= 0 && len(f.FRM) > 16
	} else if f.MType == ref.MTJoinAccept {
		nt = f.CFList != nil
		if nt {
			cls += fmt.Sprintf("/cflist%d", f.CFList.Type)
		}
	} else if f.MType != ref.MTProprietary {
		nt = true
	}
	// results the caller keeps: every slice an encoder returned is held until the end of the case
	type heldOut struct {
		what string
		b    []byte
		c    []byte
	}
	var held []heldOut
	for variant := 0; variant < 4; variant++ {
		asCmds := variant != 1 && variant != 3
		// variant 2: absent FOpts / FRMPayload given as empty non-nil slices (the same frame value)
		p, err := gen.ToLibOpt(f, asCmds, variant == 2)
		if err != nil {
			return evid.Outcome{Skip: true}
		}
		if variant == 3 {
			// the bytes of FOpts / FRMPayload handed over in two pieces (header + body built separately)
			m, ok := p.MACPayload.(*lorawan.MACPayload)
			if !ok || len(f.FOpts) < 2 && len(f.FRM) < 2 {
				continue
			}
			split := func(b []byte) []lorawan.Payload {
				k := 1 + (len(b)+int(f.FCnt))%(len(b)-1)
				return []lorawan.Payload{&lorawan.DataPayload{Bytes: append([]byte{}, b[:k]...)}, &lorawan.DataPayload{Bytes: append([]byte{}, b[k:]...)}}
			}
			if len(f.FOpts) >= 2 {
				m.FHDR.FOpts = split(f.FOpts)
			}
			if len(f.FRM) >= 2 {
				m.FRMPayload = split(f.FRM)
			}
		}
		b, err := p.MarshalBinary()
		if err != nil {
			return evid.Fail("MarshalBinary refuses a spec-valid frame (commands as values: %v, empty lists as non-nil empty slices: %v, bytes in two pieces: %v): %v; frame bytes per spec: %x", asCmds, variant == 2, variant == 3, err, want)
		}
		if !bytes.Equal(b, want) {
			return evid.Fail("MarshalBinary (commands as values: %v, FOpts / FRMPayload bytes in two pieces: %v) gives %x, wire model gives %x", asCmds, variant == 3, b, want)
		}
		txt, err := p.MarshalText()
		if err != nil || string(txt) != base64.StdEncoding.EncodeToString(want) {
			return evid.Fail("MarshalText gives %q (err %v), want base64 of %x", txt, err, want)
		}
		held = append(held, heldOut{"MarshalBinary", b, append([]byte{}, b...)}, heldOut{"MarshalText", txt, append([]byte{}, txt...)})
		if f.MType == ref.MTJoinAccept {
			continue // decoded below, through the encrypted form
		}
		for _, text := range []bool{false, true} {
			g, err := decodeBack(b, text)
			if err != nil {
				return evid.Fail("decoding the encoder's own output %x fails: %v", b, err)
			}
			if d := sameFrame(f, g); d != "" {
				return evid.Fail("round trip (text=%v): %s", text, d)
			}
		}
	}
	if ref.IsData(f.MType) && c.AltFOpts != nil && !(f.FPort == 0 && len(c.AltFOpts) > 0) {
		// decode, change the FOpts of the decoded value, encode again
		var q lorawan.PHYPayload
		if err := q.UnmarshalBinary(append([]byte{}, want...)); err != nil {
			return evid.Fail("decoding the encoder's own output %x fails: %v", want, err)
		}
		g := *f
		g.FOpts = c.AltFOpts
		g.FCnt &= 0xffff
		alt, err := gen.ToLib(&g, true)
		if err != nil {
			return evid.Outcome{Skip: true}
		}
		q.MACPayload.(*lorawan.MACPayload).FHDR.FOpts = alt.MACPayload.(*lorawan.MACPayload).FHDR.FOpts
		b, err := q.MarshalBinary()
		if err != nil {
			return evid.Fail("a decoded frame whose FOpts were replaced (%d -> %d bytes) cannot be encoded: %v", len(f.FOpts), len(g.FOpts), err)
		}
		if w := g.Encode(); !bytes.Equal(b, w) {
			return evid.Fail("a frame decoded from %x whose FOpts were then replaced by %x (%d -> %d bytes) encodes to %x, wire model gives %x", want, []byte(c.AltFOpts), len(f.FOpts), len(g.FOpts), b, w)
		}
	}
	if f.MType == ref.MTJoinAccept {
		var key lorawan.AES128Key
		copy(key[:], c.Key)
		p, _ := gen.ToLib(f, true)
		if err := p.EncryptJoinAcceptPayload(key); err != nil {
			return evid.Fail("EncryptJoinAcceptPayload: %v", err)
		}
		b, err := p.MarshalBinary()
		if err != nil {
			return evid.Fail("MarshalBinary of the encrypted join-accept: %v", err)
		}
		for _, text := range []bool{false, true} {
			var q lorawan.PHYPayload
			if text {
				err = q.UnmarshalText([]byte(base64.StdEncoding.EncodeToString(b)))
			} else {
				err = q.UnmarshalBinary(append([]byte{}, b...))
			}
			if err != nil {
				return evid.Fail("decoding the encrypted join-accept %x: %v", b, err)
			}
			if err := q.DecryptJoinAcceptPayload(key); err != nil {
				return evid.Fail("DecryptJoinAcceptPayload of %x: %v", b, err)
			}
			g, err := gen.FromLib(&q)
			if err != nil {
				return evid.Fail("join-accept read back: %v", err)
			}
			if d := sameFrame(f, g); d != "" {
				return evid.Fail("join-accept round trip: %s", d)
			}
		}
	}
	// other frames are encoded (binary and text) while the caller still holds the results from above
	for i := range dirty {
		var q lorawan.PHYPayload
		if err := q.UnmarshalBinary(append([]byte{}, dirty[i]...)); err != nil {
			return evid.Fail("harness: dirty frame %d does not decode: %v", i, err)
		}
		if ob, err := q.MarshalBinary(); err != nil || !bytes.Equal(ob, dirty[i]) {
			return evid.Fail("the frame decoded from %x encodes to %x (err %v) right after the frame %x was encoded", dirty[i], ob, err, want)
		}
		if _, err := q.MarshalText(); err != nil {
			return evid.Fail("MarshalText of the frame decoded from %x: %v", dirty[i], err)
		}
		for _, h := range held {
			if !bytes.Equal(h.b, h.c) {
				return evid.Fail("the slice returned by %s read %x; after the frame %x was encoded it reads %x (an earlier result changes under a later call)", h.what, h.c, dirty[i], h.b)
			}
		}
	}
	return evid.Outcome{NonTrivial: nt, Class: cls, Key: want}
}

func bucket(n int, cuts ...int) string {
	// cuts a,b,c -> "0" (n<=a) "1-(b-1)" ...
	if n <= cuts[0] {
		return fmt.Sprintf("%d", cuts[0])
	}
	for i := 1; i < len(cuts); i++ {
		if n < cuts[i] {
			return fmt.Sprintf("%d-%d", cuts[i-1]+boolInt(i == 1), cuts[i]-1)
		}
	}
	return fmt.Sprintf(">=%d", cuts[len(cuts)-1])
}

func boolInt(b bool) int {
	if b {
		return 1
	}
	return 0
}

func genFrame(t *rapid.T) frameCase {
	c := frameCase{F: *gen.AnyFrame(t), Key: gen.Bytes(t, "key", 16)}
	if ref.IsData(c.F.MType) {
		c.AltFOpts = gen.CmdBytes(t, "altfopts", ref.IsUplinkMType(c.F.MType), rapid.IntRange(0, 15).Draw(t, "altlen"))
		if c.AltFOpts == nil {
			c.AltFOpts = evid.Hex{}
		}
	}
	return c
}

// fillCmds gives n bytes of valid commands for the direction without randomness.
func fillCmds(up bool, n, salt int) []byte {
	var b []byte
	for len(b) < n {
		rem := n - len(b)
		switch {
		case up && rem >= 3 && (salt+len(b))%3 == 0:
			b = append(b, 0x06, byte(salt), byte(len(b))&0x3f) // DevStatusAns
		case up && rem >= 2 && (salt+len(b))%2 == 0:
			b = append(b, 0x03, byte(salt)&7) // LinkADRAns
		case up:
			b = append(b, 0x02) // LinkCheckReq
		case rem >= 5 && (salt+len(b))%3 == 0:
			b = append(b, 0x03, byte(salt), byte(len(b)), 0x00, byte(salt)&0x7f) // LinkADRReq
		case rem >= 3 && (salt+len(b))%2 == 0:
			b = append(b, 0x02, byte(salt), byte(len(b))) // LinkCheckAns
		default:
			b = append(b, 0x06) // DevStatusReq
		}
	}
	return b
}

func TestProp(t *testing.T) {
	r := evid.Begin(t, "C01")
	defer r.Finish()

	evid.Exhaustive(r, t, "length-grid",
		"complete grid FOptsLen 0..15 x FPort {absent, 0 (only without FOpts), >0} x FRMPayload length 0..242 for each of the 4 data MTypes, deterministic contents (valid command sequences / counting bytes). Oracle: wire model bytes + decode back. Non-trivial: FOptsLen>0 and FPort present and FRMPayload longer than 16 bytes.",
		true,
		func(emit func(frameCase)) {
			for mt := byte(ref.MTUnconfUp); mt <= ref.MTConfDown; mt++ {
				up := ref.IsUplinkMType(mt)
				for ol := 0; ol <= 15; ol++ {
					base := ref.Frame{MType: mt, DevAddr: 0x01020304 * uint32(ol+1), FCnt: uint32(ol)*0x1357 + 0x0102, ACK: ol%2 == 0, ADR: ol%3 == 0, FOpts: fillCmds(up, ol, ol), FPort: -1}
					emit(frameCase{F: base, AltFOpts: fillCmds(up, (ol+7)%16, ol+1)})
					for n := 0; n <= 242; n++ {
						f := base
						f.FPort = 1 + (n+ol)%255
						f.FRM = make([]byte, n)
						for i := range f.FRM {
							f.FRM[i] = byte(i + n)
						}
						emit(frameCase{F: f, AltFOpts: append(evid.Hex{}, fillCmds(up, (ol+n)%16, n)...)})
						if ol == 0 {
							g := base
							g.FPort = 0
							g.FRM = fillCmds(up, n, n)
							emit(frameCase{F: g})
						}
					}
				}
			}
		}, checkFrame)

	evid.Rapid(r, t, "frames",
		"rapid: MType uniform over the 8 types; data frames with all FCtrl flags, boundary-biased 32-bit FCnt, FOpts = generated command sequence of a drawn exact length 0..15, FPort absent/0/1..255, FRMPayload 0..242 bytes (commands on port 0); join-request, rejoin 0/1/2, join-accept (CFList absent/channels/masks, through encrypt->decode->decrypt), proprietary. Oracle: encoder output == wire model (commands as values, as bytes, as bytes in two pieces, absent lists as empty non-nil slices); decode (binary and base64) + command decode gives a frame standing for the same bytes whose FOpts / port-0 FRMPayload hold exactly the commands of the model, also when decoded into a PHYPayload variable that decoded another frame before, and when the decoded value is kept by value while its variable decodes the next frame; a decoded data frame whose FOpts are then replaced by another command sequence (another length) encodes to the wire model of the changed frame; every slice MarshalBinary / MarshalText returned is kept while three other frames are encoded and must still read what it read. Non-trivial: data frame with FOpts, FPort and >16 payload bytes, or join/rejoin, or join-accept with CFList.",
		120000, 6000000, genFrame, checkFrame)
}
