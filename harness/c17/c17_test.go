//go:build verif

// C17: backend-interface JSON types and key envelopes round-trip without loss.
//
// Sub-checks
//
//	frequency-sweep / frequency-random   Frequency (Hz <-> JSON number in MHz)
//	percentage-all / percentage-wide     Percentage (percent <-> JSON fraction)
//	hexbytes                             HEXBytes (bytes <-> JSON hex string, accepted input forms)
//	iso8601                              ISO8601Time (instant <-> RFC 3339 text, to one second)
//	payload-structs                      the 20 request/answer payloads and their 11 building blocks, filled reflectively
//	client-exchange                      payloads through backend.NewClient's synchronous calls (in-process transport)
//	key-envelope                         NewKeyEnvelope / Unwrap against the RFC 3394 reference model
//
// Every oracle is either the round trip the property states or an independent
// model (float arithmetic on the JSON number, own civil-date arithmetic, own
// member-name table, ref.KeyWrap / ref.KeyUnwrap); none of them calls the
// library function it judges.
package c17

import (
	"bytes"
	"encoding/binary"
	"encoding/hex"
	"encoding/json"
	"flag"
	"fmt"
	"math"
	"reflect"
	"sort"
	"strconv"
	"strings"
	"testing"
	"time"

	"github.com/brocaar/lorawan"
	"github.com/brocaar/lorawan/backend"
	"pgregory.net/rapid"

	"verif/harness/internal/evid"
	"verif/harness/internal/ref"
)

// ---------------------------------------------------------------------------
// A. Frequency
// ---------------------------------------------------------------------------

const maxHz = int64(1) << 32

type freqCase struct {
	Hz int64 `json:"hz"`
}

// productClass tells how the float product (x/scale)*scale relates to x: the
// decoder has to turn exactly this product back into the integer.
func productClass(x int64, scale float64) (class string, inexact bool) {
	p := float64(x) / scale * scale
	switch {
	case p == float64(x):
		return "product-exact", false
	case p < float64(x):
		return "product-below", true
	default:
		return "product-above", true
	}
}

func u64key(v int64) []byte {
	var k [8]byte
	binary.BigEndian.PutUint64(k[:], uint64(v))
	return k[:]
}

func checkFreq(c freqCase) evid.Outcome {
	if c.Hz < 0 || c.Hz > maxHz {
		return evid.Outcome{Skip: true}
	}
	f := backend.Frequency(c.Hz)
	b, err := json.Marshal(f)
	if err != nil {
		return evid.Fail("Frequency %d Hz: json.Marshal: %v", c.Hz, err)
	}
	// the wire form is a JSON number in MHz (independent reading of the encoder output)
	x, err := strconv.ParseFloat(string(b), 64)
	if err != nil || math.Abs(x*1e6-float64(c.Hz)) >= 0.5 {
		return evid.Fail("Frequency %d Hz is encoded as %s, which is not that frequency in MHz (parse error: %v)", c.Hz, b, err)
	}
	var g backend.Frequency
	if err := json.Unmarshal(b, &g); err != nil {
		return evid.Fail("Frequency %d Hz: its own encoding %s does not decode: %v", c.Hz, b, err)
	}
	if g != f {
		return evid.Fail("Frequency %d Hz is encoded as %s (MHz) and decodes as %d Hz, expected %d Hz", c.Hz, b, int64(g), c.Hz)
	}
	// a payload struct is reused for the next message: the variable holds another value when it decodes
	if used := backend.Frequency(868100000); json.Unmarshal(b, &used) != nil || used != f {
		return evid.Fail("Frequency: %s decoded into a variable that held 868100000 gives %d, into a fresh one %d", b, int64(used), int64(g))
	}
	cls, nt := productClass(c.Hz, 1e6)
	return evid.Outcome{NonTrivial: nt, Class: cls, Key: u64key(c.Hz)}
}

type segment struct{ lo, hi, step int64 } // inclusive bounds

// LoRa bands in Hz (EU433, CN470, CN779, EU868, US915/AU915/AS923 range, 2.4 GHz ISM)
var loraBands = [][2]int64{
	{433000000, 435000000}, {470000000, 510000000}, {779000000, 787000000}, {863000000, 870000000},
	{902000000, 928000000} /* contains 915-928 */, {2400000000, 2483500000},
}

// freqSweep enumerates pairwise disjoint value sets, so that all emitted cases are distinct.
func freqSweep(thorough bool, emit func(freqCase)) {
	run := func(s segment, skip100 bool) {
		for hz := s.lo; hz <= s.hi; hz += s.step {
			if skip100 && hz%100 == 0 {
				continue
			}
			emit(freqCase{Hz: hz})
		}
	}
	top := maxHz - 2000
	if !thorough {
		run(segment{0, 2000000, 1}, false)
		run(segment{2000100, 199999900, 100}, false)
		for _, b := range loraBands {
			run(segment{b[0], b[1], 100}, false)
		}
		run(segment{top, maxHz, 1}, false)
		return
	}
	run(segment{0, 20000000, 1}, false)
	run(segment{20000100, top - 96, 100}, false) // every multiple of 100 Hz up to 2^32 (top = 2^32-2000 is = 96 mod 100)
	for _, b := range loraBands {
		run(segment{b[0], b[1], 1}, true) // every Hz of the bands that is not a multiple of 100
	}
	run(segment{top, maxHz, 1}, false)
}

func genFreq(t *rapid.T) freqCase {
	switch rapid.IntRange(0, 3).Draw(t, "how") {
	case 0: // uniform 32 bit
		b := rapid.SliceOfN(rapid.Byte(), 4, 4).Draw(t, "bytes")
		return freqCase{Hz: int64(binary.BigEndian.Uint32(b))}
	case 1: // uniform inside a band
		band := rapid.SampledFrom(loraBands).Draw(t, "band")
		return freqCase{Hz: rapid.Int64Range(band[0], band[1]).Draw(t, "hz")}
	case 2: // uniform bit width
		w := rapid.UintRange(0, 32).Draw(t, "width")
		return freqCase{Hz: rapid.Int64Range(0, int64(1)<<w).Draw(t, "hz")}
	default:
		return freqCase{Hz: rapid.Int64Range(0, maxHz).Draw(t, "hz")}
	}
}

// ---------------------------------------------------------------------------
// B. Percentage
// ---------------------------------------------------------------------------

type percCase struct {
	P int64 `json:"percent"`
}

func checkPerc(c percCase) evid.Outcome {
	p := backend.Percentage(c.P)
	b, err := json.Marshal(p)
	if err != nil {
		return evid.Fail("Percentage %d: json.Marshal: %v", c.P, err)
	}
	x, err := strconv.ParseFloat(string(b), 64)
	if err != nil || math.Abs(x*100-float64(c.P)) >= 0.5 {
		return evid.Fail("Percentage %d is encoded as %s, which is not that percentage as a fraction (parse error: %v)", c.P, b, err)
	}
	var g backend.Percentage
	if err := json.Unmarshal(b, &g); err != nil {
		return evid.Fail("Percentage %d: its own encoding %s does not decode: %v", c.P, b, err)
	}
	if g != p {
		return evid.Fail("Percentage %d is encoded as %s (fraction) and decodes as %d, expected %d", c.P, b, int64(g), c.P)
	}
	if used := backend.Percentage(77); json.Unmarshal(b, &used) != nil || used != p {
		return evid.Fail("Percentage: %s decoded into a variable that held 77 gives %d, into a fresh one %d", b, int64(used), int64(g))
	}
	cls, nt := productClass(c.P, 100)
	if c.P < 0 {
		cls = "negative/" + cls
	}
	return evid.Outcome{NonTrivial: nt, Class: cls, Key: u64key(c.P)}
}

// ---------------------------------------------------------------------------
// C. HEXBytes
// ---------------------------------------------------------------------------

type hexCase struct {
	Bytes evid.Hex `json:"bytes"`
	Form  string   `json:"form"` // input form that is decoded in addition to the encoder's own output
}

var hexForms = []string{"lower", "upper", "0x-lower", "0x-upper"}

func genHex(t *rapid.T) hexCase {
	n := rapid.SampledFrom([]int{0, 1, 2, 3, 4, 8, 16, 23, 64, 255}).Draw(t, "len")
	return hexCase{Bytes: rapid.SliceOfN(rapid.Byte(), n, n).Draw(t, "bytes"), Form: rapid.SampledFrom(hexForms).Draw(t, "form")}
}

func checkHex(c hexCase) evid.Outcome {
	v := backend.HEXBytes(c.Bytes)
	b, err := json.Marshal(v)
	if err != nil {
		return evid.Fail("HEXBytes %s: json.Marshal: %v", c.Bytes, err)
	}
	// wire: a JSON string of hexadecimal digits standing for the bytes (either case: the case is not specified)
	var s string
	if err := json.Unmarshal(b, &s); err != nil {
		return evid.Fail("HEXBytes %s is encoded as %s, which is not a JSON string: %v", c.Bytes, b, err)
	}
	if d, err := hex.DecodeString(s); err != nil || !bytes.Equal(d, c.Bytes) {
		return evid.Fail("HEXBytes %s is encoded as %s, which is not the hexadecimal form of the bytes", c.Bytes, b)
	}
	var g backend.HEXBytes
	if err := json.Unmarshal(b, &g); err != nil {
		return evid.Fail("HEXBytes %s: its own encoding %s does not decode: %v", c.Bytes, b, err)
	}
	if !bytes.Equal(g, c.Bytes) {
		return evid.Fail("HEXBytes %s is encoded as %s and decodes as %x", c.Bytes, b, []byte(g))
	}
	for _, prev := range [][]byte{{0xde, 0xad}, bytes.Repeat([]byte{0x5a}, 300)} {
		used := backend.HEXBytes(append([]byte{}, prev...))
		if err := json.Unmarshal(b, &used); err != nil || !bytes.Equal(used, c.Bytes) {
			return evid.Fail("HEXBytes: %s decoded into a variable that held %d other bytes gives %x (err %v), into a fresh one %x", b, len(prev), []byte(used), err, []byte(g))
		}
	}
	text := hex.EncodeToString(c.Bytes)
	if strings.HasSuffix(c.Form, "upper") {
		text = strings.ToUpper(text)
	}
	if strings.HasPrefix(c.Form, "0x") {
		text = "0x" + text
	}
	var h backend.HEXBytes
	if err := json.Unmarshal([]byte(`"`+text+`"`), &h); err != nil {
		return evid.Fail("HEXBytes: input %q (%s) is rejected: %v", text, c.Form, err)
	}
	if !bytes.Equal(h, c.Bytes) {
		return evid.Fail("HEXBytes: input %q (%s) decodes as %x, expected %s", text, c.Form, []byte(h), c.Bytes)
	}
	letters := strings.ContainsAny(hex.EncodeToString(c.Bytes), "abcdef")
	cls := c.Form + "/digits-only"
	if letters {
		cls = c.Form + "/letters"
	}
	if len(c.Bytes) == 0 {
		cls = c.Form + "/empty"
	}
	return evid.Outcome{NonTrivial: letters, Class: cls}
}

// ---------------------------------------------------------------------------
// D. ISO8601Time
// ---------------------------------------------------------------------------

type timeCase struct {
	Y   int `json:"year"`
	Mo  int `json:"month"`
	D   int `json:"day"`
	H   int `json:"hour"`
	Mi  int `json:"minute"`
	S   int `json:"second"`
	Ns  int `json:"nanos"`
	Off int `json:"offset_min"` // zone offset east of UTC in minutes
}

func leap(y int) bool { return y%4 == 0 && (y%100 != 0 || y%400 == 0) }

func daysIn(y, m int) int {
	switch m {
	case 2:
		if leap(y) {
			return 29
		}
		return 28
	case 4, 6, 9, 11:
		return 30
	}
	return 31
}

// daysFromCivil: days since 1970-01-01 of a proleptic Gregorian date (own arithmetic, no package time).
func daysFromCivil(y, m, d int) int64 {
	yy := int64(y)
	if m <= 2 {
		yy--
	}
	era := yy / 400
	if yy < 0 {
		era = (yy - 399) / 400
	}
	yoe := yy - era*400
	mp := int64((m + 9) % 12)
	doy := (153*mp+2)/5 + int64(d) - 1
	doe := yoe*365 + yoe/4 - yoe/100 + doy
	return era*146097 + doe - 719468
}

func (c timeCase) valid() bool {
	return c.Y >= 1 && c.Y <= 9999 && c.Mo >= 1 && c.Mo <= 12 && c.D >= 1 && c.D <= daysIn(c.Y, c.Mo) &&
		c.H >= 0 && c.H <= 23 && c.Mi >= 0 && c.Mi <= 59 && c.S >= 0 && c.S <= 59 && c.Ns >= 0 && c.Ns < 1e9 &&
		c.Off > -24*60 && c.Off < 24*60
}

func (c timeCase) unix() int64 {
	return daysFromCivil(c.Y, c.Mo, c.D)*86400 + int64(c.H)*3600 + int64(c.Mi)*60 + int64(c.S) - int64(c.Off)*60
}

// text is the RFC 3339 form with second precision, written from the fields.
func (c timeCase) text() string {
	z := "Z"
	if c.Off != 0 {
		sign, o := '+', c.Off
		if o < 0 {
			sign, o = '-', -o
		}
		z = fmt.Sprintf("%c%02d:%02d", sign, o/60, o%60)
	}
	return fmt.Sprintf("%04d-%02d-%02dT%02d:%02d:%02d%s", c.Y, c.Mo, c.D, c.H, c.Mi, c.S, z)
}

func (c timeCase) value() time.Time {
	return time.Date(c.Y, time.Month(c.Mo), c.D, c.H, c.Mi, c.S, c.Ns, time.FixedZone("", c.Off*60))
}

func genTime(t *rapid.T) timeCase {
	var c timeCase
	if rapid.IntRange(0, 3).Draw(t, "yearEdge") == 0 {
		c.Y = rapid.SampledFrom([]int{1, 2, 99, 100, 999, 1000, 1582, 1899, 1900, 1969, 1970, 1999, 2000, 2024, 2038, 2100, 2262, 2400, 9998, 9999}).Draw(t, "year")
	} else {
		c.Y = rapid.IntRange(1, 9999).Draw(t, "year")
	}
	c.Mo = rapid.IntRange(1, 12).Draw(t, "month")
	c.D = daysIn(c.Y, c.Mo) - rapid.IntRange(0, daysIn(c.Y, c.Mo)-1).Draw(t, "dayFromEnd")
	c.H = rapid.IntRange(0, 23).Draw(t, "hour")
	c.Mi = rapid.IntRange(0, 59).Draw(t, "minute")
	c.S = rapid.IntRange(0, 59).Draw(t, "second")
	switch rapid.IntRange(0, 3).Draw(t, "nsHow") {
	case 0:
		c.Ns = 0
	case 1:
		c.Ns = rapid.SampledFrom([]int{1, 499999999, 500000000, 999999999, 1000000, 123000000}).Draw(t, "ns")
	default:
		c.Ns = rapid.IntRange(0, 999999999).Draw(t, "ns")
	}
	switch rapid.IntRange(0, 3).Draw(t, "offHow") {
	case 0:
		c.Off = 0
	case 1:
		c.Off = rapid.SampledFrom([]int{60, -60, 120, 330, 345, 525, 570, -210, -300, -480, 720, 765, 840, -720, 1439, -1439, 1, -1}).Draw(t, "off")
	default:
		c.Off = rapid.IntRange(-1439, 1439).Draw(t, "off")
	}
	return c
}

func checkTime(c timeCase) evid.Outcome {
	if !c.valid() {
		return evid.Outcome{Skip: true}
	}
	v := backend.ISO8601Time(c.value())
	b, err := json.Marshal(v)
	if err != nil {
		return evid.Fail("ISO8601Time %s (+%d ns): json.Marshal: %v", c.text(), c.Ns, err)
	}
	// wire form: the RFC 3339 / ISO 8601 text of the instant with second precision in the value's own zone
	// The exact text (second precision or more digits) is not part of the property: only the round trip to one
	// second is asserted below; the text form is recorded as a class label.
	textCls := "/text=seconds"
	if want := `"` + c.text() + `"`; string(b) != want {
		textCls = "/text=other"
	}
	var g backend.ISO8601Time
	if err := json.Unmarshal(b, &g); err != nil {
		return evid.Fail("ISO8601Time: its own encoding %s does not decode: %v", b, err)
	}
	got := time.Time(g)
	if !got.Truncate(time.Second).Equal(time.Time(v).Truncate(time.Second)) || got.Unix() != c.unix() {
		return evid.Fail("ISO8601Time %s (+%d ns) decodes as %s (unix %d), expected the same instant to one second (unix %d)",
			c.text(), c.Ns, got.Format(time.RFC3339Nano), got.Unix(), c.unix())
	}
	if _, off := got.Zone(); off != c.Off*60 {
		return evid.Fail("ISO8601Time %s decodes with zone offset %d s, expected %d s", c.text(), off, c.Off*60)
	}
	// a payload struct is reused for the next message: the variable holds another timestamp when it decodes - this
	// one into a variable that held a fixed other instant, and the unset timestamp into a variable that held this one
	used := backend.ISO8601Time(time.Date(2001, 2, 3, 4, 5, 6, 0, time.FixedZone("", 7*3600)))
	if err := json.Unmarshal(b, &used); err != nil || !time.Time(used).Equal(got) {
		return evid.Fail("ISO8601Time: %s decoded into a variable that held 2001-02-03T04:05:06+07:00 gives %s (err %v), into a fresh one %s", b, time.Time(used).Format(time.RFC3339Nano), err, got.Format(time.RFC3339Nano))
	}
	zb, err := json.Marshal(backend.ISO8601Time{})
	if err != nil {
		return evid.Fail("ISO8601Time: the zero value does not encode: %v", err)
	}
	var zf backend.ISO8601Time
	zu := v
	if e1, e2 := json.Unmarshal(zb, &zf), json.Unmarshal(zb, &zu); e1 != nil || e2 != nil || !time.Time(zu).Equal(time.Time(zf)) {
		return evid.Fail("ISO8601Time: the encoding %s of the unset timestamp decodes into a fresh variable as %s (err %v) and into a variable that held %s as %s (err %v)", zb, time.Time(zf).Format(time.RFC3339Nano), e1, c.text(), time.Time(zu).Format(time.RFC3339Nano), e2)
	}
	cls := "utc"
	if c.Off != 0 {
		cls = "offset"
	}
	if c.Ns != 0 {
		cls += "/subsecond"
	}
	return evid.Outcome{NonTrivial: c.Ns != 0 || c.Off != 0, Class: cls + textCls}
}

// ---------------------------------------------------------------------------
// E. payload structs
// ---------------------------------------------------------------------------

// wireSchema pins the JSON member names of the backend structs and which of
// them are optional on the wire (marked ?: absent when unset). It is a
// transcription made independently of the struct tags it judges; + marks an
// embedded struct whose members are inlined; Go=JSON gives a differing name.
const wireSchema = `
BasePayload: ProtocolVersion SenderID ReceiverID TransactionID MessageType SenderToken? ReceiverToken? VSExtension?
BasePayloadResult: +BasePayload Result
Result: ResultCode Description
KeyEnvelope: KEKLabel AESKey
VSExtension: VendorID? Object?
GWInfoElement: ID? FineRecvTime? RFRegion? RSSI? SNR? Lat? Lon? ULToken? DLAllowed?
ULMetaData: DevEUI? DevAddr? FPort? FCntDown? FCntUp? Confirmed? DataRate? ULFreq? Margin? Battery? FNSULToken? RecvTime RFRegion? GWCnt? GWInfo?
DLMetaData: DevEUI? FPort? FCntDown? Confirmed? DLFreq1? DLFreq2? RXDelay1? ClassMode? DataRate1? DataRate2? FNSULToken? GWInfo HiPriorityFlag?
ServiceProfile: ServiceProfileID=ServiceProfile ULRate ULBucketSize ULRatePolicy DLRate DLBucketSize DLRatePolicy AddGWMetadata DevStatusReqFreq ReportDevStatusBattery=ReportDevStatusBatery ReportDevStatusMargin DRMin DRMax ChannelMask PRAllowed HRAllowed RAAllowed=RAAAllowed NwkGeoLoc TargetPER MinGWDiversity
DeviceProfile: DeviceProfileID SupportsClassB ClassBTimeout PingSlotPeriod PingSlotDR=PingSLotDR PingSlotFreq SupportsClassC ClassCTimeout MACVersion RegParamsRevision RXDelay1 RXDROffset1 RXDataRate2 RXFreq2 FactoryPresetFreqs MaxEIRP MaxDutyCycle SupportsJoin RFRegion Supports32bitFCnt
RoutingProfile: RoutingProfileID ASID=AS-ID
JoinReqPayload: +BasePayload MACVersion PHYPayload DevEUI DevAddr DLSettings RxDelay CFList?
JoinAnsPayload: +BasePayloadResult PHYPayload? Lifetime? SNwkSIntKey? FNwkSIntKey? NwkSEncKey? NwkSKey? AppSKey? SessionKeyID?
RejoinReqPayload: +BasePayload MACVersion PHYPayload DevEUI DevAddr DLSettings RxDelay CFList?
RejoinAnsPayload: +BasePayloadResult PHYPayload? Lifetime? SNwkSIntKey? FNwkSIntKey? NwkSEncKey? NwkSKey? AppSKey? SessionKeyID?
AppSKeyReqPayload: +BasePayload DevEUI SessionKeyID
AppSKeyAnsPayload: +BasePayloadResult DevEUI AppSKey? SessionKeyID
PRStartReqPayload: +BasePayload PHYPayload? ULMetaData
PRStartAnsPayload: +BasePayloadResult PHYPayload? DevEUI? Lifetime? FNwkSIntKey? NwkSKey? FCntUp? ServiceProfile? DLMetaData? DevAddr?
PRStopReqPayload: +BasePayload DevEUI Lifetime?
PRStopAnsPayload: +BasePayloadResult
HRStartReqPayload: +BasePayload MACVersion PHYPayload DevAddr DeviceProfile ULMetaData DLSettings RxDelay CFList? DeviceProfileTimestamp
HRStartAnsPayload: +BasePayloadResult PHYPayload? Lifetime? SNwkSIntKey? FNwkSIntKey? NwkSEncKey? NwkSKey? DeviceProfile? ServiceProfile? DLMetaData? DeviceProfileTimestamp?
HRStopReqPayload: +BasePayload DevEUI
HRStopAnsPayload: +BasePayloadResult
HomeNSReqPayload: +BasePayload DevEUI
HomeNSAnsPayload: +BasePayloadResult HNetID
ProfileReqPayload: +BasePayload DevEUI
ProfileAnsPayload: +BasePayloadResult DeviceProfile? DeviceProfileTimestamp? RoamingActivationType
XmitDataReqPayload: +BasePayload PHYPayload? FRMPayload? ULMetaData? DLMetaData?
XmitDataAnsPayload: +BasePayloadResult DLFreq1? DLFreq2?
`

type fieldSpec struct {
	Go, JSON string
	Opt      bool
	Embedded bool
}

var schema = func() map[string][]fieldSpec {
	m := map[string][]fieldSpec{}
	for _, line := range strings.Split(strings.TrimSpace(wireSchema), "\n") {
		name, rest, _ := strings.Cut(line, ":")
		for _, it := range strings.Fields(rest) {
			var f fieldSpec
			if strings.HasPrefix(it, "+") {
				f.Go, f.Embedded = it[1:], true
			} else {
				f.Opt = strings.HasSuffix(it, "?")
				it = strings.TrimSuffix(it, "?")
				f.Go, f.JSON, _ = strings.Cut(it, "=")
				if f.JSON == "" {
					f.JSON = f.Go
				}
			}
			m[name] = append(m[name], f)
		}
		if _, ok := m[name]; !ok {
			m[name] = nil
		}
	}
	return m
}()

// structTypes: the 20 request/answer payloads first, then their building blocks.
var structTypes = []reflect.Type{
	reflect.TypeOf(backend.JoinReqPayload{}), reflect.TypeOf(backend.JoinAnsPayload{}),
	reflect.TypeOf(backend.RejoinReqPayload{}), reflect.TypeOf(backend.RejoinAnsPayload{}),
	reflect.TypeOf(backend.AppSKeyReqPayload{}), reflect.TypeOf(backend.AppSKeyAnsPayload{}),
	reflect.TypeOf(backend.PRStartReqPayload{}), reflect.TypeOf(backend.PRStartAnsPayload{}),
	reflect.TypeOf(backend.PRStopReqPayload{}), reflect.TypeOf(backend.PRStopAnsPayload{}),
	reflect.TypeOf(backend.HRStartReqPayload{}), reflect.TypeOf(backend.HRStartAnsPayload{}),
	reflect.TypeOf(backend.HRStopReqPayload{}), reflect.TypeOf(backend.HRStopAnsPayload{}),
	reflect.TypeOf(backend.HomeNSReqPayload{}), reflect.TypeOf(backend.HomeNSAnsPayload{}),
	reflect.TypeOf(backend.ProfileReqPayload{}), reflect.TypeOf(backend.ProfileAnsPayload{}),
	reflect.TypeOf(backend.XmitDataReqPayload{}), reflect.TypeOf(backend.XmitDataAnsPayload{}),
	reflect.TypeOf(backend.BasePayload{}), reflect.TypeOf(backend.BasePayloadResult{}), reflect.TypeOf(backend.Result{}),
	reflect.TypeOf(backend.KeyEnvelope{}), reflect.TypeOf(backend.VSExtension{}), reflect.TypeOf(backend.GWInfoElement{}),
	reflect.TypeOf(backend.ULMetaData{}), reflect.TypeOf(backend.DLMetaData{}), reflect.TypeOf(backend.ServiceProfile{}),
	reflect.TypeOf(backend.DeviceProfile{}), reflect.TypeOf(backend.RoutingProfile{}),
}

const nPayloadTypes = 20

var structByName = func() map[string]reflect.Type {
	m := map[string]reflect.Type{}
	for _, t := range structTypes {
		m[t.Name()] = t
	}
	return m
}()

var (
	tISO        = reflect.TypeOf(backend.ISO8601Time{})
	tRaw        = reflect.TypeOf(json.RawMessage{})
	tFreq       = reflect.TypeOf(backend.Frequency(0))
	tPerc       = reflect.TypeOf(backend.Percentage(0))
	tDLSettings = reflect.TypeOf(lorawan.DLSettings{})
	namedStrs   = map[reflect.Type][]string{
		reflect.TypeOf(backend.MessageType("")): {"JoinReq", "JoinAns", "RejoinReq", "RejoinAns", "AppSKeyReq", "AppSKeyAns", "PRStartReq", "PRStartAns", "PRStopReq", "PRStopAns",
			"HRStartReq", "HRStartAns", "HRStopReq", "HRStopAns", "HomeNSReq", "HomeNSAns", "ProfileReq", "ProfileAns", "XmitDataReq", "XmitDataAns"},
		reflect.TypeOf(backend.ResultCode("")):  {"Success", "MICFailed", "JoinReqFailed", "NoRoamingAgreement", "UnknownDevEUI", "Deferred", "XmitFailed", "MalformedRequest", "Other"},
		reflect.TypeOf(backend.RatePolicy("")):  {"Drop", "Mark"},
		reflect.TypeOf(backend.RoamingType("")): {"Passive", "Handover"},
	}
)

// tape is the byte string a value is built from; an exhausted tape yields zeros
// (nil pointers, empty strings), so shorter tapes give simpler values.
type tape struct {
	b []byte
	i int
}

func (t *tape) byte() byte {
	if t.i < len(t.b) {
		x := t.b[t.i]
		t.i++
		return x
	}
	return 0
}
func (t *tape) n(k int) int { return int(t.byte()) % k }
func (t *tape) u64() uint64 {
	var v uint64
	for i := 0; i < 8; i++ {
		v = v<<8 | uint64(t.byte())
	}
	return v
}

var strAtoms = []string{"a", "Z", "0", " ", "-", "1.0.2", "EU868", "\"", "\\", "/", "<", ">", "&", "\n", "\t", "\x00", "\x7f", "é", "€", "\U0001F600", " ", "�", "{}", "null"}

func (t *tape) str() string {
	n := t.n(5)
	var sb strings.Builder
	for i := 0; i < n; i++ {
		sb.WriteString(strAtoms[t.n(len(strAtoms))])
	}
	return sb.String()
}

func (t *tape) bytesN(max int) []byte {
	switch t.n(6) {
	case 0:
		return nil
	case 1:
		return []byte{}
	}
	b := make([]byte, 1+t.n(max))
	for i := range b {
		b[i] = t.byte()
	}
	return b
}

func (t *tape) int64() int64 {
	switch t.n(8) {
	case 0:
		return 0
	case 1:
		return 1
	case 2:
		return -1
	case 3:
		return math.MaxInt64
	case 4:
		return math.MinInt64
	case 5:
		return int64(int8(t.byte()))
	default:
		return int64(t.u64())
	}
}

func (t *tape) uint64() uint64 {
	switch t.n(6) {
	case 0:
		return 0
	case 1:
		return 1
	case 2:
		return math.MaxUint64
	case 3:
		return uint64(t.byte())
	default:
		return t.u64()
	}
}

func (t *tape) float() float64 {
	switch t.n(6) {
	case 0:
		return 0
	case 1:
		return float64(int16(t.u64())) / 4 // quarters
	case 2:
		return float64(t.u64()%30000000) / 10000 // MHz with 100 Hz resolution
	case 3:
		return []float64{math.MaxFloat64, -math.MaxFloat64, math.SmallestNonzeroFloat64, 1e21, 1e-7, 0.1, -0.3, 868.1, 1 << 53}[t.n(9)]
	default: // any finite double
		u := t.u64()
		if u>>52&0x7ff == 0x7ff {
			u &^= 1 << 52
		}
		return math.Float64frombits(u)
	}
}

func (t *tape) frequency() int64 {
	switch t.n(5) {
	case 0:
		return 0
	case 1: // channel raster of a band
		b := loraBands[t.n(len(loraBands))]
		return b[0] + int64(t.u64()%uint64((b[1]-b[0])/100+1))*100
	case 2:
		return int64(t.u64() % uint64(maxHz+1))
	case 3:
		return []int64{868100000, 869525000, 923300000, 433175000, 2403000000, 15700, 128200000, 1, maxHz}[t.n(9)]
	default:
		return int64(t.u64()%20000000) * 100
	}
}

func (t *tape) time() time.Time {
	if t.n(4) == 0 {
		return time.Time{}
	}
	var c timeCase
	c.Y = 1 + int(t.u64()%9999)
	c.Mo = 1 + t.n(12)
	c.D = 1 + t.n(daysIn(c.Y, c.Mo))
	c.H, c.Mi, c.S = t.n(24), t.n(60), t.n(60)
	if t.n(2) == 1 {
		c.Ns = int(t.u64() % 1e9)
	}
	if t.n(2) == 1 {
		c.Off = int(t.u64()%2879) - 1439
	}
	return c.value()
}

// jsonValue writes a compact JSON value.
func (t *tape) jsonValue(sb *strings.Builder, depth int) {
	k := t.n(8)
	if depth >= 3 && k >= 6 {
		k -= 6
	}
	switch k {
	case 0:
		sb.WriteString("null")
	case 1:
		sb.WriteString([]string{"true", "false"}[t.n(2)])
	case 2:
		sb.WriteString(strconv.FormatInt(t.int64(), 10))
	case 3:
		sb.WriteString([]string{"1.5", "-0", "1e3", "1E-2", "0.10", "123456789012345678901234567890", "868.1"}[t.n(7)])
	case 4, 5:
		b, _ := json.Marshal(t.str())
		sb.Write(b)
	case 6:
		sb.WriteByte('[')
		for i, n := 0, t.n(4); i < n; i++ {
			if i > 0 {
				sb.WriteByte(',')
			}
			t.jsonValue(sb, depth+1)
		}
		sb.WriteByte(']')
	default:
		sb.WriteByte('{')
		for i, n := 0, t.n(4); i < n; i++ {
			if i > 0 {
				sb.WriteByte(',')
			}
			kb, _ := json.Marshal(fmt.Sprintf("%s%d", t.str(), i)) // distinct member names
			sb.Write(kb)
			sb.WriteByte(':')
			t.jsonValue(sb, depth+1)
		}
		sb.WriteByte('}')
	}
}

// fill builds a value of any of the backend types from the tape.
func fill(v reflect.Value, t *tape) {
	ty := v.Type()
	switch ty {
	case tISO:
		v.Set(reflect.ValueOf(backend.ISO8601Time(t.time())))
		return
	case tRaw:
		if t.n(4) == 0 {
			if t.n(2) == 1 {
				v.Set(reflect.ValueOf(json.RawMessage{}))
			}
			return
		}
		var sb strings.Builder
		t.jsonValue(&sb, 0)
		v.Set(reflect.ValueOf(json.RawMessage(sb.String())))
		return
	case tFreq:
		v.SetInt(t.frequency())
		return
	case tPerc:
		v.SetInt(int64(t.n(101)))
		return
	case tDLSettings: // the encoder documents RX2DataRate <= 15 and RX1DROffset <= 7
		v.Set(reflect.ValueOf(lorawan.DLSettings{OptNeg: t.n(2) == 1, RX2DataRate: uint8(t.n(16)), RX1DROffset: uint8(t.n(8))}))
		return
	}
	switch ty.Kind() {
	case reflect.Struct:
		for i := 0; i < ty.NumField(); i++ {
			if ty.Field(i).IsExported() {
				fill(v.Field(i), t)
			}
		}
	case reflect.Ptr:
		if t.n(2) == 1 {
			p := reflect.New(ty.Elem())
			fill(p.Elem(), t)
			v.Set(p)
		}
	case reflect.Slice:
		if ty.Elem().Kind() == reflect.Uint8 {
			if b := t.bytesN(24); b != nil {
				v.Set(reflect.ValueOf(b).Convert(ty))
			}
			return
		}
		switch k := t.n(5); k {
		case 0:
		case 1:
			v.Set(reflect.MakeSlice(ty, 0, 0))
		default:
			s := reflect.MakeSlice(ty, k-1, k-1)
			for i := 0; i < k-1; i++ {
				fill(s.Index(i), t)
			}
			v.Set(s)
		}
	case reflect.Array:
		for i := 0; i < v.Len(); i++ {
			fill(v.Index(i), t)
		}
	case reflect.String:
		if vals := namedStrs[ty]; vals != nil && t.n(2) == 1 {
			v.SetString(vals[t.n(len(vals))])
		} else {
			v.SetString(t.str())
		}
	case reflect.Bool:
		v.SetBool(t.n(2) == 1)
	case reflect.Int, reflect.Int8, reflect.Int16, reflect.Int32, reflect.Int64:
		x := t.int64()
		bits := uint(ty.Bits())
		v.SetInt(x << (64 - bits) >> (64 - bits))
	case reflect.Uint, reflect.Uint8, reflect.Uint16, reflect.Uint32, reflect.Uint64:
		x := t.uint64()
		bits := uint(ty.Bits())
		v.SetUint(x << (64 - bits) >> (64 - bits))
	case reflect.Float64, reflect.Float32:
		v.SetFloat(t.float())
	default:
		panic(fmt.Sprintf("harness: no generator for %s", ty))
	}
}

func jsonSame(a, b []byte) bool {
	dec := func(x []byte) (any, error) {
		d := json.NewDecoder(bytes.NewReader(x))
		d.UseNumber()
		var v any
		err := d.Decode(&v)
		return v, err
	}
	va, ea := dec(a)
	vb, eb := dec(b)
	return ea == nil && eb == nil && reflect.DeepEqual(va, vb)
}

func show(v reflect.Value) string {
	for v.Kind() == reflect.Ptr && !v.IsNil() {
		v = v.Elem()
	}
	switch {
	case v.Type() == tISO:
		return time.Time(v.Interface().(backend.ISO8601Time)).Format(time.RFC3339Nano)
	case v.Kind() == reflect.Slice && v.Type().Elem().Kind() == reflect.Uint8:
		if v.IsNil() {
			return "nil"
		}
		if v.Type() == tRaw {
			return fmt.Sprintf("%q", v.Bytes())
		}
		return fmt.Sprintf("hex %x", v.Bytes())
	case v.Kind() == reflect.String:
		return fmt.Sprintf("%q", v.String())
	}
	return fmt.Sprintf("%v", v.Interface())
}

// diff returns "" when decoded value b stands for original a, else the path and the two values.
// Equivalences: nil == empty for slices and byte strings (JSON has one empty
// form), JSON-semantic equality for RawMessage, instants to one second (with
// equal zone offset) for ISO8601Time. Pointers must agree in nil-ness: the
// encoder omits (or writes null for) a nil pointer only, a pointer to a zero
// value is written out and therefore has to come back as non-nil.
func diff(path string, a, b reflect.Value) string {
	ty := a.Type()
	switch ty {
	case tISO:
		x, y := time.Time(a.Interface().(backend.ISO8601Time)), time.Time(b.Interface().(backend.ISO8601Time))
		_, ox := x.Zone()
		_, oy := y.Zone()
		if !x.Truncate(time.Second).Equal(y.Truncate(time.Second)) || ox != oy {
			return fmt.Sprintf("%s: %s came back as %s (expected the same instant to one second and the same zone offset)", path, show(a), show(b))
		}
		return ""
	case tRaw:
		if a.Len() == 0 && b.Len() == 0 {
			return ""
		}
		if a.Len() == 0 || b.Len() == 0 || !jsonSame(a.Bytes(), b.Bytes()) {
			return fmt.Sprintf("%s: raw JSON %s came back as %s", path, show(a), show(b))
		}
		return ""
	}
	switch ty.Kind() {
	case reflect.Struct:
		for i := 0; i < ty.NumField(); i++ {
			if !ty.Field(i).IsExported() {
				continue
			}
			if d := diff(path+"."+ty.Field(i).Name, a.Field(i), b.Field(i)); d != "" {
				return d
			}
		}
		return ""
	case reflect.Ptr:
		if a.IsNil() != b.IsNil() {
			return fmt.Sprintf("%s: pointer %s came back as %s", path, nilness(a), nilness(b))
		}
		if a.IsNil() {
			return ""
		}
		return diff(path, a.Elem(), b.Elem())
	case reflect.Slice:
		if ty.Elem().Kind() == reflect.Uint8 {
			if !bytes.Equal(a.Bytes(), b.Bytes()) {
				return fmt.Sprintf("%s: %s came back as %s", path, show(a), show(b))
			}
			return ""
		}
		if a.Len() != b.Len() {
			return fmt.Sprintf("%s: %d elements came back as %d", path, a.Len(), b.Len())
		}
		for i := 0; i < a.Len(); i++ {
			if d := diff(fmt.Sprintf("%s[%d]", path, i), a.Index(i), b.Index(i)); d != "" {
				return d
			}
		}
		return ""
	case reflect.Float32, reflect.Float64:
		if math.Float64bits(a.Float()) != math.Float64bits(b.Float()) {
			return fmt.Sprintf("%s: %v (%016x) came back as %v (%016x)", path, a.Float(), math.Float64bits(a.Float()), b.Float(), math.Float64bits(b.Float()))
		}
		return ""
	default: // strings, booleans, integers, byte arrays
		if !reflect.DeepEqual(a.Interface(), b.Interface()) {
			if ty == tFreq {
				return fmt.Sprintf("%s: Frequency %d Hz came back as %d Hz", path, a.Int(), b.Int())
			}
			if ty == tPerc {
				return fmt.Sprintf("%s: Percentage %d came back as %d", path, a.Int(), b.Int())
			}
			return fmt.Sprintf("%s: %s came back as %s", path, show(a), show(b))
		}
		return ""
	}
}

func nilness(v reflect.Value) string {
	if v.IsNil() {
		return "nil"
	}
	return "non-nil (" + show(v) + ")"
}

// unset is Go's notion of an empty value, which is also the only notion of an
// absent optional member the types can express.
func unset(v reflect.Value) bool {
	switch v.Kind() {
	case reflect.Array, reflect.Map, reflect.Slice, reflect.String:
		return v.Len() == 0
	case reflect.Bool:
		return !v.Bool()
	case reflect.Int, reflect.Int8, reflect.Int16, reflect.Int32, reflect.Int64:
		return v.Int() == 0
	case reflect.Uint, reflect.Uint8, reflect.Uint16, reflect.Uint32, reflect.Uint64:
		return v.Uint() == 0
	case reflect.Float32, reflect.Float64:
		return v.Float() == 0
	case reflect.Interface, reflect.Ptr:
		return v.IsNil()
	}
	return false
}

type optCount struct{ set, unset int }

// wire compares the members of the encoded object with the pinned table:
// mandatory members present, optional members present exactly when set, no
// other members; it recurses into nested objects and arrays of objects.
func wire(path string, v reflect.Value, obj map[string]any, oc *optCount) string {
	seen := map[string]bool{}
	if d := wireMembers(path, v, obj, seen, oc); d != "" {
		return d
	}
	var extra []string
	for k := range obj {
		if !seen[k] {
			extra = append(extra, k)
		}
	}
	if len(extra) > 0 {
		sort.Strings(extra)
		return fmt.Sprintf("%s: the encoded object has members %q that the interface does not define", path, extra)
	}
	return ""
}

func wireMembers(path string, v reflect.Value, obj map[string]any, seen map[string]bool, oc *optCount) string {
	ty := v.Type()
	specs, ok := schema[ty.Name()]
	if !ok {
		return fmt.Sprintf("harness: no member table for %s", ty.Name())
	}
	if ty.NumField() != len(specs) {
		return fmt.Sprintf("%s: struct %s has %d fields, the pinned member table has %d (table out of date or a member was added/removed)", path, ty.Name(), ty.NumField(), len(specs))
	}
	for i, sp := range specs {
		if ty.Field(i).Name != sp.Go {
			return fmt.Sprintf("%s: field %d of %s is %s, the pinned member table says %s", path, i, ty.Name(), ty.Field(i).Name, sp.Go)
		}
		fv := v.Field(i)
		if sp.Embedded {
			if d := wireMembers(path, fv, obj, seen, oc); d != "" {
				return d
			}
			continue
		}
		fp := path + "." + sp.Go
		seen[sp.JSON] = true
		want := true
		if sp.Opt && fv.Kind() != reflect.Struct {
			want = !unset(fv)
			if want {
				oc.set++
			} else {
				oc.unset++
			}
		}
		got, present := obj[sp.JSON]
		if present != want {
			if want {
				return fmt.Sprintf("%s (%s): member %q is missing from the encoded object", fp, show(fv), sp.JSON)
			}
			gb, _ := json.Marshal(got)
			return fmt.Sprintf("%s: optional member %q is unset but the encoded object carries it (as %s); an absent optional member must not be sent", fp, sp.JSON, gb)
		}
		if !present {
			continue
		}
		// nested objects
		ev := fv
		if ev.Kind() == reflect.Ptr {
			if ev.IsNil() {
				continue
			}
			ev = ev.Elem()
		}
		if _, nested := schema[ev.Type().Name()]; nested && ev.Kind() == reflect.Struct {
			m, ok := got.(map[string]any)
			if !ok {
				return fmt.Sprintf("%s: member %q is not a JSON object but %v", fp, sp.JSON, got)
			}
			if d := wire(fp, ev, m, oc); d != "" {
				return d
			}
		}
		if ev.Kind() == reflect.Slice && ev.Type().Elem().Kind() == reflect.Struct {
			if ev.IsNil() && got == nil {
				continue
			}
			arr, ok := got.([]any)
			if !ok || len(arr) != ev.Len() {
				return fmt.Sprintf("%s: member %q is not an array of %d objects but %v", fp, sp.JSON, ev.Len(), got)
			}
			for j := range arr {
				m, ok := arr[j].(map[string]any)
				if !ok {
					return fmt.Sprintf("%s[%d]: not a JSON object but %v", fp, j, arr[j])
				}
				if d := wire(fmt.Sprintf("%s[%d]", fp, j), ev.Index(j), m, oc); d != "" {
					return d
				}
			}
		}
	}
	return ""
}

type structCase struct {
	Type string   `json:"type"`
	Tape evid.Hex `json:"tape"`
}

// typeNames lists the payloads twice, so that they are drawn twice as often as the building blocks.
var typeNames = func() []string {
	var n []string
	for i, t := range structTypes {
		n = append(n, t.Name())
		if i < nPayloadTypes {
			n = append(n, t.Name())
		}
	}
	return n
}()

func genStruct(t *rapid.T) structCase {
	name := rapid.SampledFrom(typeNames).Draw(t, "type")
	n := rapid.SampledFrom([]int{24, 96, 300, 700, 1200}).Draw(t, "tapeLen")
	return structCase{Type: name, Tape: rapid.SliceOfN(rapid.Byte(), n, n).Draw(t, "tape")}
}

func checkStruct(c structCase) evid.Outcome {
	ty, ok := structByName[c.Type]
	if !ok {
		return evid.Outcome{Skip: true}
	}
	orig := reflect.New(ty)
	fill(orig.Elem(), &tape{b: c.Tape})
	b, err := json.Marshal(orig.Interface())
	if err != nil {
		return evid.Fail("%s %+v: json.Marshal: %v", c.Type, orig.Elem().Interface(), err)
	}
	back := reflect.New(ty)
	if err := json.Unmarshal(b, back.Interface()); err != nil {
		return evid.Fail("%s: its own encoding does not decode: %v; encoding: %s", c.Type, err, b)
	}
	if d := diff(c.Type, orig.Elem(), back.Elem()); d != "" {
		return evid.Fail("round trip changes %s; encoding: %s", d, clip(b))
	}
	var obj map[string]any
	if err := json.Unmarshal(b, &obj); err != nil {
		return evid.Fail("%s: the encoding is not a JSON object: %v; encoding: %s", c.Type, err, clip(b))
	}
	var oc optCount
	// The member names and the omission of unset optional members are not part of the property (it states the
	// round trip only): a difference from the pinned table is recorded as a class label, never reported.
	cls := c.Type
	if d := wire(c.Type, orig.Elem(), obj, &oc); d != "" {
		cls += "/wire-form-differs-from-table"
	}
	return evid.Outcome{NonTrivial: oc.set >= 1 && oc.unset >= 1, Class: cls}
}

func clip(b []byte) string {
	if len(b) > 700 {
		return string(b[:700]) + "..."
	}
	return string(b)
}

// ---------------------------------------------------------------------------
// F. key envelopes
// ---------------------------------------------------------------------------

type envCase struct {
	KEK   evid.Hex `json:"kek"`
	Key   evid.Hex `json:"key"`
	Label string   `json:"label"`
	KEK2  evid.Hex `json:"other_kek"`
}

func genEnv(t *rapid.T) envCase {
	lens := []int{16, 24, 32}
	n := rapid.SampledFrom(lens).Draw(t, "kekLen")
	n2 := rapid.SampledFrom(lens).Draw(t, "kek2Len")
	c := envCase{
		KEK:  rapid.SliceOfN(rapid.Byte(), n, n).Draw(t, "kek"),
		Key:  rapid.SliceOfN(rapid.Byte(), 16, 16).Draw(t, "key"),
		KEK2: rapid.SliceOfN(rapid.Byte(), n2, n2).Draw(t, "kek2"),
	}
	switch rapid.IntRange(0, 5).Draw(t, "labelHow") {
	case 0:
		c.Label = ""
	case 1:
		c.Label = rapid.StringMatching(`[ -~]{1,12}`).Draw(t, "label")
	default:
		c.Label = rapid.SampledFrom([]string{"kek-1", "lora-app", "010203", "é€", "x"}).Draw(t, "label")
	}
	return c
}

func validKEK(n int) bool { return n == 16 || n == 24 || n == 32 }

func envRoundTrip(e *backend.KeyEnvelope) (*backend.KeyEnvelope, string) {
	b, err := json.Marshal(e)
	if err != nil {
		return nil, fmt.Sprintf("json.Marshal of the envelope: %v", err)
	}
	var g backend.KeyEnvelope
	if err := json.Unmarshal(b, &g); err != nil {
		return nil, fmt.Sprintf("the envelope's own encoding %s does not decode: %v", b, err)
	}
	if g.KEKLabel != e.KEKLabel || !bytes.Equal(g.AESKey, e.AESKey) {
		return nil, fmt.Sprintf("envelope {%q %x} is encoded as %s and decodes as {%q %x}", e.KEKLabel, []byte(e.AESKey), b, g.KEKLabel, []byte(g.AESKey))
	}
	return &g, ""
}

func checkEnv(c envCase) evid.Outcome {
	if !validKEK(len(c.KEK)) || !validKEK(len(c.KEK2)) || len(c.Key) != 16 {
		return evid.Outcome{Skip: true}
	}
	var key lorawan.AES128Key
	copy(key[:], c.Key)
	id := fmt.Sprintf("kek %s key %s label %q", c.KEK, c.Key, c.Label)
	env, err := backend.NewKeyEnvelope(c.Label, append([]byte{}, c.KEK...), key)
	if err != nil || env == nil {
		return evid.Fail("NewKeyEnvelope(%s): %v", id, err)
	}
	if env.KEKLabel != c.Label {
		return evid.Fail("NewKeyEnvelope(%s): KEKLabel is %q", id, env.KEKLabel)
	}
	if c.Label == "" {
		if !bytes.Equal(env.AESKey, c.Key) {
			return evid.Fail("NewKeyEnvelope without label (%s): AESKey is %x, expected the key in clear", id, []byte(env.AESKey))
		}
		if _, d := envRoundTrip(env); d != "" {
			return evid.Fail("%s: %s", id, d)
		}
		return evid.Outcome{Class: fmt.Sprintf("clear/kek%d", len(c.KEK)*8)}
	}
	want, err := ref.KeyWrap(c.KEK, c.Key)
	if err != nil {
		return evid.Fail("harness: reference wrap: %v", err)
	}
	if !bytes.Equal(env.AESKey, want) {
		return evid.Fail("NewKeyEnvelope(%s): AESKey is %x, RFC 3394 wrap gives %x", id, []byte(env.AESKey), want)
	}
	dec, d := envRoundTrip(env)
	if d != "" {
		return evid.Fail("%s: %s", id, d)
	}
	for _, e := range []*backend.KeyEnvelope{env, dec} {
		got, err := e.Unwrap(append([]byte{}, c.KEK...))
		if err != nil || got != key {
			return evid.Fail("%s: Unwrap with the wrapping KEK gives %s, error %v; expected the key", id, got, err)
		}
	}
	// unwrapping succeeds exactly when the RFC 3394 integrity check passes
	agree := func(what string, kek, wrapped []byte) string {
		got, err := backend.KeyEnvelope{KEKLabel: c.Label, AESKey: backend.HEXBytes(append([]byte{}, wrapped...))}.Unwrap(append([]byte{}, kek...))
		var refKey []byte
		refErr := fmt.Errorf("a KEK of %d bytes is no AES key", len(kek))
		if validKEK(len(kek)) {
			refKey, refErr = ref.KeyUnwrap(kek, wrapped)
		}
		if (err == nil) != (refErr == nil) {
			return fmt.Sprintf("%s, %s (wrapped bytes %x, kek %x): Unwrap error is %v, the RFC 3394 integrity check says %v", id, what, wrapped, kek, err, refErr)
		}
		if err == nil && !bytes.Equal(got[:], refKey) {
			return fmt.Sprintf("%s, %s: Unwrap gives %s, RFC 3394 gives %x", id, what, got, refKey)
		}
		return ""
	}
	for bit := 0; bit < 8*len(want); bit++ {
		bad := append([]byte{}, want...)
		bad[bit/8] ^= 0x80 >> uint(bit%8)
		if d := agree(fmt.Sprintf("bit %d of the envelope flipped", bit), c.KEK, bad); d != "" {
			return evid.Fail("%s", d)
		}
	}
	// envelopes made with another initial value than A6A6A6A6A6A6A6A6 - every single bit, either half, the RFC 5649
	// value: the integrity register the unwrap recovers is wrong in exactly those bits, everything else is in order
	ivs := [][]byte{{0x01, 0x23, 0x45, 0x67, 0xa6, 0xa6, 0xa6, 0xa6}, {0xa6, 0xa6, 0xa6, 0xa6, 0x01, 0x23, 0x45, 0x67}, {0xa6, 0x59, 0x59, 0xa6, 0, 0, 0, 16}, {0, 0, 0, 0, 0, 0, 0, 0}}
	for bit := 0; bit < 64; bit++ {
		iv := []byte{0xa6, 0xa6, 0xa6, 0xa6, 0xa6, 0xa6, 0xa6, 0xa6}
		iv[bit/8] ^= 0x80 >> uint(bit%8)
		ivs = append(ivs, iv)
	}
	for _, iv := range ivs {
		forged, err := ref.KeyWrapIV(c.KEK, c.Key, iv)
		if err != nil {
			return evid.Fail("harness: reference wrap: %v", err)
		}
		if d := agree(fmt.Sprintf("an envelope wrapped with the initial value %x instead of a6a6a6a6a6a6a6a6", iv), c.KEK, forged); d != "" {
			return evid.Fail("%s", d)
		}
	}
	// length corruptions: a truncated or extended envelope cannot pass the integrity check of a wrapped 128 bit key
	for n := 0; n < len(want); n++ {
		if d := agree(fmt.Sprintf("the envelope truncated to %d bytes", n), c.KEK, want[:n]); d != "" {
			return evid.Fail("%s", d)
		}
	}
	for extra := 1; extra <= 16; extra++ {
		long := append(append([]byte{}, want...), c.KEK2[:extra]...)
		if d := agree(fmt.Sprintf("the envelope followed by %d more bytes", extra), c.KEK, long); d != "" {
			return evid.Fail("%s", d)
		}
	}
	other := append([]byte{}, c.KEK2...)
	if bytes.Equal(other, c.KEK) {
		other[0] ^= 1
	}
	if d := agree("another KEK", other, want); d != "" {
		return evid.Fail("%s", d)
	}
	oneBit := append([]byte{}, c.KEK...)
	oneBit[int(c.Key[0])%len(oneBit)] ^= 1 << (c.Key[1] % 8)
	if d := agree("the KEK with one bit flipped", oneBit, want); d != "" {
		return evid.Fail("%s", d)
	}
	// a receiver that has no KEK for the label, or something that is no AES key: nothing to check the integrity with
	for _, n := range []int{0, 1, 15, 17, 31, 33} {
		var kek []byte
		if n > 0 {
			pool := append(append(append([]byte{}, c.KEK...), c.KEK2...), c.Key...) // at least 48 bytes
			kek = append([]byte{}, pool[:n]...)
		}
		if d := agree(fmt.Sprintf("a KEK of %d bytes", n), kek, want); d != "" {
			return evid.Fail("%s", d)
		}
	}
	if got, err := (backend.KeyEnvelope{KEKLabel: c.Label, AESKey: backend.HEXBytes(append([]byte{}, want...))}).Unwrap(nil); err == nil {
		return evid.Fail("%s: Unwrap(nil) of the labelled (wrapped) envelope succeeds with %s; without the KEK the integrity check cannot pass", id, got)
	}
	return evid.Outcome{NonTrivial: true, Class: fmt.Sprintf("wrapped/kek%d", len(c.KEK)*8)}
}

// ---------------------------------------------------------------------------

func TestProp(t *testing.T) {
	r := evid.Begin(t, "C17")
	defer r.Finish()
	if err := ref.SelfTest(); err != nil {
		t.Fatal(err)
	}
	// the struct cases carry tapes of up to 1200 bytes: bound the time rapid spends minimising a failure (default 30 s)
	_ = flag.Set("rapid.shrinktime", "6s")

	evid.Exhaustive(r, t, "frequency-sweep",
		"Frequency, enumerated: quick = every Hz in [0, 2 MHz], every multiple of 100 Hz below 200 MHz and in the LoRa bands 433-435, 470-510, 779-787, 863-870, 902-928, 2400-2483.5 MHz, every Hz in [2^32-2000, 2^32]; thorough = every Hz in [0, 20 MHz], every multiple of 100 Hz up to 2^32, every Hz of the listed bands, every Hz in [2^32-2000, 2^32]. Oracle: the JSON number times 10^6 is the value to within 0.5 Hz (MHz on the wire) and Unmarshal(Marshal(f)) == f, also into a variable that held another frequency. Non-trivial: the float product (f/10^6)*10^6 is not exactly f, so that the decoder has to round.",
		false,
		func(emit func(freqCase)) { freqSweep(r.Thorough(), emit) }, checkFreq)

	evid.Rapid(r, t, "frequency-random",
		"Frequency, rapid: uniform 32-bit values, uniform values inside the LoRa bands, uniform bit width 0..32, boundary-biased 0..2^32. Oracle and non-trivial rule as in frequency-sweep.",
		400000, 16000000, genFreq, checkFreq)

	evid.Exhaustive(r, t, "percentage-all",
		"Percentage, every integer -10..200. Oracle: the JSON number times 100 is the value to within 0.5 (fraction on the wire) and Unmarshal(Marshal(p)) == p. Non-trivial: the float product (p/100)*100 is not exactly p.",
		true,
		func(emit func(percCase)) {
			for p := int64(-10); p <= 200; p++ {
				emit(percCase{P: p})
			}
		}, checkPerc)

	evid.Exhaustive(r, t, "percentage-wide",
		"Percentage beyond the meaningful range: every integer in [-100000, -11] and [201, 1000000]; oracle and non-trivial rule as in percentage-all.",
		false,
		func(emit func(percCase)) {
			for p := int64(-100000); p <= 1000000; p++ {
				if p < -10 || p > 200 {
					emit(percCase{P: p})
				}
			}
		}, checkPerc)

	evid.Rapid(r, t, "hexbytes",
		"HEXBytes of 0..255 random bytes. Oracle: the encoding is a JSON string that an independent hexadecimal decoder turns into the bytes; Unmarshal(Marshal(b)) == b; one further input form per case (lower case, upper case, each with and without the 0x prefix the decoder strips) decodes to the bytes; decoding into a variable that held 2 or 300 other bytes gives the same. Non-trivial: the hexadecimal form contains a letter (case matters).",
		160000, 4000000, genHex, checkHex)

	evid.Rapid(r, t, "iso8601",
		"ISO8601Time built from civil fields: year 1..9999 (edge years 1/4 of the time), valid day of month, zone offset 0 / common / any whole minute within +-23:59, sub-second part 0 / edge / random. Oracle: own civil-date arithmetic (days-from-civil): the decoded value is the same instant to one second (time.Equal after truncation, and Unix seconds equal to the model's) with the same zone offset; decoding into a variable that held another timestamp gives the same, and the encoding of the unset timestamp decodes into a variable that held this one exactly as into a fresh one. Non-trivial: non-zero sub-second part or non-zero offset.",
		240000, 6000000, genTime, checkTime)

	evid.Rapid(r, t, "payload-structs",
		"each of the 20 request/answer payload structs (weight 2) and their 11 building blocks (weight 1), filled reflectively from a random byte tape of 24..1200 bytes: pointers nil/non-nil, slices nil/empty/1..3 elements, byte strings nil/empty/1..24 bytes, strings with quotes, control characters, HTML characters and non-ASCII, integers at the type bounds, any finite float64, EUI64/DevAddr/NetID arrays, DLSettings inside its documented ranges, ISO8601Time zero or years 1..9999 with offset and sub-second part, Frequency 0..2^32 (band rasters, arbitrary), Percentage 0..100, RawMessage absent or compact valid JSON (nested, big numbers, escapes). Oracle: Unmarshal(Marshal(v)) equals v field by field with nil == empty for slices and byte strings, JSON-semantic equality for RawMessage, instants to one second with equal offset, pointers agreeing in nil-ness (a nil pointer is the only thing the encoder omits, a pointer to a zero value is written and must come back non-nil; non-pointer omitempty members are omitted exactly when they are the zero value the decoder restores); the wire form (member names, omission of unset optional members) is compared with a pinned table only to label classes and count set/unset optional members - it is not asserted, the property states the round trip only. Non-trivial: at least one optional member set and at least one unset in the value tree. A failure names the field path.",
		50000, 2000000, genStruct, checkStruct)

	evid.Rapid(r, t, "client-exchange",
		"the seven synchronous client calls (JoinReq, RejoinReq, PRStartReq, PRStopReq, XmitDataReq, ProfileReq, HomeNSReq) of backend.NewClient with the network replaced by an in-process http.RoundTripper: request and answer payloads filled reflectively from tapes of 0..700 bytes as in payload-structs, the answer's Result.Description a text of 0 / 1..600 / 2^k-400..2^k+200 (k = 9..16) / up to 300000 characters, a request byte string of up to 40000 bytes in 1/4 of the cases, TransactionID 0 or set; the answer body is served in reads of 1, 7, 100, 512, 1460, 4096 bytes or in one piece. the answer's result code is Success (3/4) or a refusal (Deferred, MICFailed, UnknownDevEUI, ...). Oracle: with Success the call returns no error; with any result code it returns field by field what a plain json.Unmarshal of the served body gives; the body the peer received decodes to the caller's payload with the configured SenderID/ReceiverID, the call's MessageType and the caller's TransactionID when set. Non-trivial: the body needs more than one read.",
		12000, 300000, genClient, checkClient)

	evid.Rapid(r, t, "key-envelope",
		"KEK of 16/24/32 random bytes, 16-byte key, label empty (1/6) or not. With label: AESKey == reference RFC 3394 wrap (internal/ref, checked against the RFC vectors), the envelope survives JSON, Unwrap with the KEK gives the key before and after JSON; for each of the 192 single-bit corruptions of the wrapped bytes, for another KEK (any of the three lengths), for the KEK with one bit flipped and for KEKs of 0, 1, 15, 17, 31, 33 bytes (and nil), Unwrap succeeds exactly when the reference integrity check passes (and then gives the reference's key). Without label: KEKLabel empty and AESKey == key in clear, surviving JSON. Non-trivial: every labelled case (194 corrupted unwraps each).",
		6000, 200000, genEnv, checkEnv)
}
