//go:build verif

// client-exchange: the payload structs as they travel through the backend
// client (backend/client.go): request encoded and posted, answer read and
// decoded. The network is replaced by an in-process http.RoundTripper that
// records the posted body and serves the answer body in reads of a chosen size.
package c17

import (
	"bytes"
	"context"
	"encoding/json"
	"fmt"
	"io"
	"net/http"
	"net/http/httptest"
	"reflect"
	"strings"
	"sync"

	"github.com/brocaar/lorawan/backend"
	"pgregory.net/rapid"

	"verif/harness/internal/evid"
)

type clientCase struct {
	Method string   `json:"method"`
	Req    evid.Hex `json:"req"`  // tape of the request payload
	Ans    evid.Hex `json:"ans"`  // tape of the answer payload
	Desc   int      `json:"desc"` // > 0: the answer's Result.Description is a text of this many characters
	Blob   int      `json:"blob"` // > 0: the first byte-string field of the request gets this many bytes
	Chunk  int      `json:"chunk"`
	TxID   uint32   `json:"txid"`
	Code   string   `json:"code,omitempty"` // result code of the answer ("" = Success)
}

var clientMethods = []string{"JoinReq", "RejoinReq", "PRStartReq", "PRStopReq", "XmitDataReq", "ProfileReq", "HomeNSReq"}

// chunkReader hands out at most n bytes per Read, as a network connection does.
type chunkReader struct {
	b []byte
	n int
}

func (c *chunkReader) Read(p []byte) (int, error) {
	if len(c.b) == 0 {
		return 0, io.EOF
	}
	k := c.n
	if k > len(p) {
		k = len(p)
	}
	if k > len(c.b) {
		k = len(c.b)
	}
	copy(p, c.b[:k])
	c.b = c.b[k:]
	return k, nil
}

// the loopback peer (started once per process; unused while the client goes through http.DefaultClient)
var (
	peerOnce   sync.Once
	peerAddr   = "http://js.invalid/api"
	peerMu     sync.Mutex
	peerBody   []byte
	peerChunk  int
	peerPosted []byte
	peerErr    error
)

func peerURL() string {
	peerOnce.Do(func() {
		defer func() { _ = recover() }() // no loopback interface: the in-process transport alone is used
		srv := httptest.NewServer(http.HandlerFunc(func(w http.ResponseWriter, r *http.Request) {
			b, err := io.ReadAll(r.Body)
			peerMu.Lock()
			peerPosted, peerErr = b, err
			body, chunk := append([]byte{}, peerBody...), peerChunk
			peerMu.Unlock()
			if chunk < 512 {
				chunk = 512
			}
			w.Header().Set("Content-Type", "application/json")
			for len(body) > 0 {
				k := chunk
				if k > len(body) {
					k = len(body)
				}
				_, _ = w.Write(body[:k])
				body = body[k:]
				if f, ok := w.(http.Flusher); ok {
					f.Flush()
				}
			}
		}))
		peerAddr = srv.URL + "/api"
	})
	return peerAddr
}

type rtFunc func(*http.Request) (*http.Response, error)

func (f rtFunc) RoundTrip(r *http.Request) (*http.Response, error) { return f(r) }

// firstBytesField finds the first settable []byte-kind field (HEXBytes) of a struct, not descending into pointers.
func firstBytesField(v reflect.Value) (reflect.Value, bool) {
	for i := 0; i < v.NumField(); i++ {
		f := v.Field(i)
		if !v.Type().Field(i).IsExported() {
			continue
		}
		if f.Kind() == reflect.Slice && f.Type().Elem().Kind() == reflect.Uint8 && f.Type() != tRaw {
			return f, true
		}
	}
	return reflect.Value{}, false
}

func checkClient(c clientCase) evid.Outcome {
	if c.Chunk < 1 || c.Desc < 0 || c.Desc > 1<<20 || c.Blob < 0 || c.Blob > 1<<20 {
		return evid.Outcome{Skip: true}
	}
	cl, err := backend.NewClient(backend.ClientConfig{SenderID: "010203", ReceiverID: "0807060504030201", Server: peerURL()})
	if err != nil {
		return evid.Fail("NewClient: %v", err)
	}
	m := reflect.ValueOf(cl).MethodByName(c.Method)
	if !m.IsValid() {
		return evid.Outcome{Skip: true}
	}
	reqT, ansT := m.Type().In(1), m.Type().Out(0)

	req := reflect.New(reqT).Elem()
	fill(req, &tape{b: c.Req})
	if c.Blob > 0 {
		if f, ok := firstBytesField(req); ok {
			b := make([]byte, c.Blob)
			for i := range b {
				b[i] = byte(i*7 + 1)
			}
			f.Set(reflect.ValueOf(b).Convert(f.Type()))
		}
	}
	base := req.FieldByName("BasePayload")
	base.FieldByName("TransactionID").SetUint(uint64(c.TxID))

	ans := reflect.New(ansT).Elem()
	fill(ans, &tape{b: c.Ans})
	res := ans.FieldByName("BasePayloadResult").FieldByName("Result")
	code := c.Code
	if code == "" {
		code = string(backend.Success)
	}
	res.FieldByName("ResultCode").SetString(code)
	if c.Desc > 0 {
		res.FieldByName("Description").SetString(strings.Repeat("answer text ", c.Desc/12+1)[:c.Desc])
	}
	body, err := json.Marshal(ans.Interface())
	if err != nil {
		return evid.Fail("%s: json.Marshal of the answer: %v", ansT.Name(), err)
	}
	// what a plain decoder makes of the body is what the client has to return
	want := reflect.New(ansT)
	if err := json.Unmarshal(body, want.Interface()); err != nil {
		return evid.Fail("%s: its own encoding does not decode: %v; encoding: %s", ansT.Name(), err, clip(body))
	}

	var posted []byte
	var postErr error
	// Two transports carry the same exchange: an in-process RoundTripper on http.DefaultClient (exact read sizes), and -
	// for a client that brings its own http.Client - a loopback server that serves the same body in flushed pieces.
	peerMu.Lock()
	peerBody, peerChunk, peerPosted, peerErr = body, c.Chunk, nil, nil
	peerMu.Unlock()
	old := http.DefaultClient.Transport
	http.DefaultClient.Transport = rtFunc(func(r *http.Request) (*http.Response, error) {
		posted, postErr = io.ReadAll(r.Body)
		return &http.Response{StatusCode: 200, Status: "200 OK", Proto: "HTTP/1.1", ProtoMajor: 1, ProtoMinor: 1, Header: http.Header{"Content-Type": {"application/json"}},
			Body: io.NopCloser(&chunkReader{b: append([]byte{}, body...), n: c.Chunk}), ContentLength: int64(len(body)), Request: r}, nil
	})
	var out []reflect.Value
	p := func() (p any) {
		defer func() { p = recover() }()
		out = m.Call([]reflect.Value{reflect.ValueOf(context.Background()), req})
		return nil
	}()
	http.DefaultClient.Transport = old
	peerMu.Lock()
	if posted == nil && peerPosted != nil {
		posted, postErr = peerPosted, peerErr // the exchange went over the loopback server
	}
	peerMu.Unlock()
	if p != nil {
		return evid.Fail("client.%s panics: %v", c.Method, p)
	}
	where := fmt.Sprintf("client.%s with an answer body of %d bytes served in reads of %d bytes", c.Method, len(body), c.Chunk)
	if e, _ := out[1].Interface().(error); e != nil && code == string(backend.Success) {
		return evid.Fail("%s: error %v; a plain json.Unmarshal of the same body succeeds. Body: %s", where, e, clip(body))
	}
	// whatever the result code (the caller needs Deferred / Lifetime, the description, the transaction id of a refusal):
	// the answer handed back is the answer that was sent
	if d := diff(ansT.Name(), want.Elem(), out[0]); d != "" {
		return evid.Fail("%s (result code %s) returns an answer that differs from the body it was sent: %s. Body: %s", where, code, d, clip(body))
	}
	// the request as the peer receives it
	if postErr != nil || len(posted) == 0 {
		return evid.Fail("%s: the peer received no request body (%v)", where, postErr)
	}
	got := reflect.New(reqT)
	if err := json.Unmarshal(posted, got.Interface()); err != nil {
		return evid.Fail("client.%s posts %s which does not decode as %s: %v", c.Method, clip(posted), reqT.Name(), err)
	}
	// the client fills in the base fields; everything else is the caller's payload
	exp := reflect.New(reqT).Elem()
	exp.Set(req)
	eb, gb := exp.FieldByName("BasePayload"), got.Elem().FieldByName("BasePayload")
	if s := gb.FieldByName("SenderID").String(); s != "010203" {
		return evid.Fail("client.%s posts SenderID %q, configured 010203", c.Method, s)
	}
	if s := gb.FieldByName("ReceiverID").String(); s != "0807060504030201" {
		return evid.Fail("client.%s posts ReceiverID %q, configured 0807060504030201", c.Method, s)
	}
	if s := gb.FieldByName("MessageType").String(); s != c.Method {
		return evid.Fail("client.%s posts MessageType %q", c.Method, s)
	}
	if tx := gb.FieldByName("TransactionID").Uint(); c.TxID != 0 && tx != uint64(c.TxID) {
		return evid.Fail("client.%s posts TransactionID %d, the caller set %d", c.Method, tx, c.TxID)
	}
	for _, f := range []string{"ProtocolVersion", "SenderID", "ReceiverID", "MessageType", "TransactionID"} {
		eb.FieldByName(f).Set(gb.FieldByName(f))
	}
	if d := diff(reqT.Name(), exp, got.Elem()); d != "" {
		return evid.Fail("client.%s: the request the peer decodes differs from the caller's payload: %s. Posted: %s", c.Method, d, clip(posted))
	}
	size := "le4096"
	switch {
	case len(body) > 65536:
		size = "gt65536"
	case len(body) > 4096:
		size = "gt4096"
	}
	if code != string(backend.Success) {
		size += "/refusal"
	}
	return evid.Outcome{NonTrivial: len(body) > c.Chunk, Class: c.Method + "/body-" + size, Key: bytes.Join([][]byte{[]byte(c.Method), c.Req, c.Ans, []byte(fmt.Sprint(c.Desc, c.Blob, c.Chunk, c.Code))}, nil)}
}

func genClient(t *rapid.T) clientCase {
	n := rapid.SampledFrom([]int{0, 24, 96, 300, 700}).Draw(t, "tapeLen")
	c := clientCase{Method: rapid.SampledFrom(clientMethods).Draw(t, "method"),
		Req: rapid.SliceOfN(rapid.Byte(), n, n).Draw(t, "req"), Ans: rapid.SliceOfN(rapid.Byte(), n, n).Draw(t, "ans"),
		TxID: uint32(rapid.SampledFrom([]uint64{0, 1, 0xffffffff, 0x12345678}).Draw(t, "txid"))}
	// body sizes around the powers of two a buffer would have
	switch rapid.IntRange(0, 5).Draw(t, "desc") {
	case 0, 1:
	case 2:
		c.Desc = rapid.IntRange(1, 600).Draw(t, "d")
	case 3:
		c.Desc = rapid.SampledFrom([]int{512, 1024, 2048, 4096, 8192, 16384, 32768, 65536}).Draw(t, "pow") + rapid.IntRange(-400, 200).Draw(t, "off")
	case 4:
		c.Desc = rapid.IntRange(600, 20000).Draw(t, "d")
	default:
		c.Desc = rapid.IntRange(20000, 300000).Draw(t, "d")
	}
	if rapid.IntRange(0, 3).Draw(t, "blob") == 0 {
		c.Blob = rapid.SampledFrom([]int{255, 256, 1024, 4096, 40000}).Draw(t, "b") + rapid.IntRange(-3, 3).Draw(t, "boff")
	}
	if rapid.IntRange(0, 3).Draw(t, "refusal") == 0 {
		c.Code = rapid.SampledFrom([]string{"Deferred", "MICFailed", "UnknownDevEUI", "NoRoamingAgreement", "XmitFailed", "Other", "JoinReqFailed", "MalformedRequest"}).Draw(t, "code")
	}
	c.Chunk = rapid.SampledFrom([]int{1 << 30, 1 << 30, 4096, 1460, 512, 100, 7, 1}).Draw(t, "chunk")
	if c.Chunk < 100 && c.Desc > 20000 {
		c.Chunk = 1460
	}
	return c
}
