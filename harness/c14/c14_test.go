//go:build verif

// C14: the LinkADRReq payloads a band plans, applied to the device's channel
// set by an independent model of LinkADRReq channel-mask application, reach
// exactly the network's enabled channels restricted to what the device can know.
package c14

import (
	"fmt"
	"math/bits"
	"sort"
	"testing"

	"github.com/brocaar/lorawan"
	"github.com/brocaar/lorawan/band"
	"pgregory.net/rapid"

	"verif/harness/internal/evid"
)

// ---------------------------------------------------------------- the case

// Op is one step of the network-side history.
//
//	add          AddChannel(F, A, B)
//	disable      DisableUplinkChannelIndex(A)
//	enable       EnableUplinkChannelIndex(A)
//	disable-run  DisableUplinkChannelIndex(A) ... (A+B-1), clipped to the plan
//	enable-run   EnableUplinkChannelIndex(A) ... (A+B-1), clipped to the plan
type Op struct {
	Op string `json:"op"`
	F  uint32 `json:"f,omitempty"`
	A  int    `json:"a"`
	B  int    `json:"b,omitempty"`
}

type Case struct {
	Band     string `json:"band"`
	Repeater bool   `json:"repeater"`
	Dwell    int    `json:"dwell"`
	Ops      []Op   `json:"ops"`
	// Probe: the network also asks the band for its enabled set and for a plan after every step of the history (as a
	// server that re-plans on every change does), not only at the end
	Probe  bool   `json:"probe,omitempty"`
	Device []int  `json:"device"` // channels currently enabled on the device, any order, no duplicates
	Pat    string `json:"pat"`    // label of the device pattern (statistics only)
}

var allBands = []string{"EU868", "US915", "CN779", "EU433", "AU915", "CN470", "AS923", "AS923-2", "AS923-3", "AS923-4", "KR920", "IN865", "RU864", "ISM2400"}
var dynBands = []string{"EU868", "CN779", "EU433", "AS923", "AS923-2", "AS923-3", "AS923-4", "KR920", "IN865", "RU864", "ISM2400"}

// planKind: "sub72" = 64 x 125 kHz + 8 x 500 kHz fixed plan (US915, AU915),
// "fixed96" = CN470, "dyn" = default channels + NewChannelReq/CFList channels.
func planKind(name string) string {
	switch name {
	case "US915", "AU915":
		return "sub72"
	case "CN470":
		return "fixed96"
	}
	return "dyn"
}

// default number of uplink channels per band (Regional Parameters; DESIGN appendix C)
var defaultChannels = map[string]int{"EU868": 3, "US915": 72, "CN779": 3, "EU433": 3, "AU915": 72, "CN470": 96, "AS923": 2, "AS923-2": 2,
	"AS923-3": 2, "AS923-4": 2, "KR920": 3, "IN865": 3, "RU864": 2, "ISM2400": 3}

// ---------------------------------------------------------------- model of the history

type chState struct{ enabled, custom bool }

// replayHistory builds the band and the harness's own record of the channel flags.
func replayHistory(c Case) (band.Band, []chState, *evid.Outcome) {
	skip := &evid.Outcome{Skip: true}
	n0, ok := defaultChannels[c.Band]
	if !ok || c.Dwell < 0 || c.Dwell > 1 {
		return nil, nil, skip
	}
	b, err := band.GetConfig(band.Name(c.Band), c.Repeater, lorawan.DwellTime(c.Dwell))
	if err != nil {
		o := evid.Fail("GetConfig(%s): %v", c.Band, err)
		return nil, nil, &o
	}
	st := make([]chState, n0)
	for i := range st {
		st[i].enabled = true
	}
	dyn := planKind(c.Band) == "dyn"
	if c.Probe {
		_ = b.GetEnabledUplinkChannelIndices()
		_ = b.GetLinkADRReqPayloadsForEnabledUplinkChannelIndices([]int{0, 1, 2})
	}
	for k, op := range c.Ops {
		switch op.Op {
		case "add":
			if !dyn || len(st) >= 40 {
				return nil, nil, skip
			}
			if err := b.AddChannel(op.F, op.A, op.B); err != nil {
				o := evid.Fail("%s: op %d AddChannel(%d,%d,%d) on a plan with extra channels: %v", c.Band, k, op.F, op.A, op.B, err)
				return nil, nil, &o
			}
			st = append(st, chState{enabled: op.F != 0, custom: true})
		case "disable", "enable":
			if op.A < 0 || op.A >= len(st) {
				return nil, nil, skip
			}
			if op.Op == "disable" {
				err = b.DisableUplinkChannelIndex(op.A)
			} else {
				err = b.EnableUplinkChannelIndex(op.A)
			}
			if err != nil {
				o := evid.Fail("%s: op %d %s(%d) with %d channels: %v", c.Band, k, op.Op, op.A, len(st), err)
				return nil, nil, &o
			}
			st[op.A].enabled = op.Op == "enable"
		case "disable-run", "enable-run":
			if op.A < 0 || op.B < 0 || op.A >= len(st) {
				return nil, nil, skip
			}
			for i := op.A; i < op.A+op.B && i < len(st); i++ {
				if op.Op == "disable-run" {
					err = b.DisableUplinkChannelIndex(i)
				} else {
					err = b.EnableUplinkChannelIndex(i)
				}
				if err != nil {
					o := evid.Fail("%s: op %d %s index %d with %d channels: %v", c.Band, k, op.Op, i, len(st), err)
					return nil, nil, &o
				}
				st[i].enabled = op.Op == "enable-run"
			}
		default:
			return nil, nil, skip
		}
		if c.Probe {
			_ = b.GetEnabledUplinkChannelIndices()
			_ = b.GetLinkADRReqPayloadsForEnabledUplinkChannelIndices([]int{0, 1, 2})
			_ = b.GetCFList("1.0.3")
		}
	}
	// the band's own flags must be the ones the history implies (this is C15's subject; here it
	// only makes sure that the oracle below speaks about the same network state as the planner)
	snap, ok := band.VerifSnapshot(b)
	if !ok {
		o := evid.Fail("%s: no snapshot", c.Band)
		return nil, nil, &o
	}
	if len(snap.UplinkChannels) != len(st) {
		o := evid.Fail("%s: after the history the band has %d uplink channels, the history implies %d", c.Band, len(snap.UplinkChannels), len(st))
		return nil, nil, &o
	}
	for i, ch := range snap.UplinkChannels {
		if ch.Enabled != st[i].enabled || ch.Custom != st[i].custom {
			o := evid.Fail("%s: after the history channel %d is enabled=%v custom=%v, the history implies enabled=%v custom=%v", c.Band, i, ch.Enabled, ch.Custom, st[i].enabled, st[i].custom)
			return nil, nil, &o
		}
	}
	return b, st, nil
}

// ---------------------------------------------------------------- executable specification: a device applies LinkADRReq masks

// applyMasks is the harness's own statement of how an end-device applies the
// channel masks of a sequence of LinkADRReq commands (LoRaWAN 1.0.x/1.1 §5.2 +
// Regional Parameters "LinkAdrReq command" tables):
//
//	dynamic plans   ChMaskCntl 0..5: the 16 mask bits replace channels 16k..16k+15; 6: all defined channels on
//	CN470 (96 ch)   ChMaskCntl 0..5: block k; 6: all channels on
//	US915 / AU915   ChMaskCntl 0..4: block k (block 4 = the eight 500 kHz channels 64..71);
//	                6: all 125 kHz channels on, mask bits 0..7 apply to 64..71;
//	                7: all 125 kHz channels off, mask bits 0..7 apply to 64..71
//
// n is the number of channels the network has defined. A mask bit that is set
// for a channel that does not exist, and a control value outside the table, make
// the device refuse the command: reported as an error.
func applyMasks(kind string, n int, device map[int]bool, pls []lorawan.LinkADRReqPayload) (map[int]bool, error) {
	out := map[int]bool{}
	for c := range device {
		out[c] = true
	}
	block := func(k int, m lorawan.ChMask) error {
		for i, on := range m {
			idx := 16*k + i
			if on {
				if idx >= n {
					return fmt.Errorf("ChMaskCntl %d sets mask bit %d = channel %d, the plan has %d channels", k, i, idx, n)
				}
				out[idx] = true
			} else {
				delete(out, idx)
			}
		}
		return nil
	}
	for j, pl := range pls {
		cntl := int(pl.Redundancy.ChMaskCntl)
		switch {
		case kind == "sub72" && (cntl == 6 || cntl == 7):
			for i := 0; i < 64; i++ {
				if cntl == 6 {
					out[i] = true
				} else {
					delete(out, i)
				}
			}
			for i, on := range pl.ChMask {
				if i >= 8 {
					if on {
						return nil, fmt.Errorf("payload %d: ChMaskCntl %d with RFU mask bit %d set", j, cntl, i)
					}
					continue
				}
				if on {
					out[64+i] = true
				} else {
					delete(out, 64+i)
				}
			}
		case kind == "sub72" && cntl <= 4, kind != "sub72" && cntl <= 5:
			if err := block(cntl, pl.ChMask); err != nil {
				return nil, fmt.Errorf("payload %d: %v", j, err)
			}
		case kind != "sub72" && cntl == 6:
			for i := 0; i < n; i++ {
				out[i] = true
			}
		default:
			return nil, fmt.Errorf("payload %d: ChMaskCntl %d is not defined for this channel plan", j, cntl)
		}
	}
	return out, nil
}

func setOf(l []int) map[int]bool {
	m := make(map[int]bool, len(l))
	for _, c := range l {
		m[c] = true
	}
	return m
}

func sorted(m map[int]bool) []int {
	out := make([]int, 0, len(m))
	for c := range m {
		out = append(out, c)
	}
	sort.Ints(out)
	return out
}

func equalInts(a, b []int) bool {
	if len(a) != len(b) {
		return false
	}
	for i := range a {
		if a[i] != b[i] {
			return false
		}
	}
	return true
}

func describe(pls []lorawan.LinkADRReqPayload) string {
	s := "["
	for i, pl := range pls {
		if i > 0 {
			s += " "
		}
		var m uint16
		for k, on := range pl.ChMask {
			if on {
				m |= 1 << uint(k)
			}
		}
		s += fmt.Sprintf("{cntl %d mask %04x}", pl.Redundancy.ChMaskCntl, m)
	}
	return s + "]"
}

// ---------------------------------------------------------------- the check

func checkCase(c Case) evid.Outcome {
	b, st, o := replayHistory(c)
	if o != nil {
		return *o
	}
	kind := planKind(c.Band)
	n := len(st)
	limit := n
	if kind == "dyn" && limit < 16 {
		limit = 16
	}
	// domain: indices a device of this plan can report (DESIGN §C14 soundness)
	dev := map[int]bool{}
	for _, d := range c.Device {
		if d < 0 || d >= limit || dev[d] {
			return evid.Outcome{Skip: true}
		}
		dev[d] = true
	}
	// target: network-enabled channels the device can know
	want := map[int]bool{}
	customInactive := false
	for i, s := range st {
		if !s.enabled {
			continue
		}
		if !s.custom || dev[i] {
			want[i] = true
		} else {
			customInactive = true
		}
	}
	wantL, devL := sorted(want), sorted(dev)
	ctx := func() string {
		return fmt.Sprintf("%s, %d channels, history %v, device %v", c.Band, n, c.Ops, devL)
	}

	in := append([]int(nil), c.Device...)
	pls := b.GetLinkADRReqPayloadsForEnabledUplinkChannelIndices(in)
	if !equalInts(in, c.Device) {
		return evid.Fail("%s: the planner reordered the caller's device channel list to %v", ctx(), in)
	}

	// every payload is encodable (and decodes to itself)
	for j, pl := range pls {
		bin, err := pl.MarshalBinary()
		if err != nil {
			return evid.Fail("%s: planned payload %d of %s cannot be encoded: %v", ctx(), j, describe(pls), err)
		}
		var back lorawan.LinkADRReqPayload
		if err := back.UnmarshalBinary(bin); err != nil || back != pl {
			return evid.Fail("%s: planned payload %d of %s encodes to %x which decodes to %+v (err %v)", ctx(), j, describe(pls), bin, back, err)
		}
	}
	// count bound
	blocks := (n + 15) / 16
	if len(pls) > blocks+1 {
		return evid.Fail("%s: %d payloads %s planned, bound is %d blocks + 1", ctx(), len(pls), describe(pls), blocks)
	}
	// nothing when the device already matches
	if equalInts(devL, wantL) && len(pls) != 0 {
		return evid.Fail("%s: device already has the target set %v, yet %s is planned", ctx(), wantL, describe(pls))
	}
	// the device model reaches the target
	got, err := applyMasks(kind, n, dev, pls)
	if err != nil {
		return evid.Fail("%s: a device cannot apply the planned %s: %v", ctx(), describe(pls), err)
	}
	if gotL := sorted(got); !equalInts(gotL, wantL) {
		return evid.Fail("%s: applying the planned %s gives %v, target (network-enabled, standard or custom active on the device) is %v", ctx(), describe(pls), gotL, wantL)
	}
	// the library's own apply function agrees with the device model
	lib, err := b.GetEnabledUplinkChannelIndicesForLinkADRReqPayloads(append([]int(nil), c.Device...), pls)
	if err != nil {
		return evid.Fail("%s: the library's apply function refuses the planned %s: %v", ctx(), describe(pls), err)
	}
	sort.Ints(lib)
	if !equalInts(lib, wantL) {
		return evid.Fail("%s: the library's apply function turns %s into %v, the device model gives %v", ctx(), describe(pls), lib, wantL)
	}

	// statistics
	net := map[int]bool{}
	for i, s := range st {
		if s.enabled {
			net[i] = true
		}
	}
	diffBlocks := map[int]bool{}
	for i := 0; i < limit; i++ {
		if net[i] != dev[i] {
			diffBlocks[i/16] = true
		}
	}
	plan := "blocks"
	if len(pls) == 0 {
		plan = "none"
	} else if pls[0].Redundancy.ChMaskCntl == 7 {
		plan = "cntl7"
	}
	nt := len(diffBlocks) >= 2 || customInactive || plan == "cntl7"
	return evid.Outcome{NonTrivial: nt, Class: fmt.Sprintf("%s/%s/%s", kind, c.Pat, plan)}
}

// ---------------------------------------------------------------- generators

func bitsToList(bs []byte, n int) []int {
	var out []int
	for i := 0; i < n; i++ {
		if bs[i/8]&(1<<uint(i%8)) != 0 {
			out = append(out, i)
		}
	}
	return out
}

func rangeList(a, b int) []int { // [a,b)
	var out []int
	for i := a; i < b; i++ {
		out = append(out, i)
	}
	return out
}

func genFreq(t *rapid.T, bandName string) uint32 {
	switch rapid.IntRange(0, 9).Draw(t, "fkind") {
	case 0:
		return 0 // AddChannel documents: enabled = frequency != 0
	case 1:
		return rapid.Uint32().Draw(t, "f")
	}
	base := uint32(863000000)
	if bandName == "ISM2400" {
		base = 2400000000
	}
	return base + 100000*rapid.Uint32Range(0, 800).Draw(t, "fstep")
}

// genHistory constructs a history that is valid for the band: AddChannel only on
// dynamic plans and at most 40 channels, indices inside the plan.
func genHistory(t *rapid.T, name string) ([]Op, []chState) {
	kind := planKind(name)
	n := defaultChannels[name]
	st := make([]chState, n)
	for i := range st {
		st[i].enabled = true
	}
	var ops []Op
	apply := func(op Op) {
		ops = append(ops, op)
		switch op.Op {
		case "add":
			st = append(st, chState{enabled: op.F != 0, custom: true})
		case "disable", "enable":
			st[op.A].enabled = op.Op == "enable"
		default:
			for i := op.A; i < op.A+op.B && i < len(st); i++ {
				st[i].enabled = op.Op == "enable-run"
			}
		}
	}
	if kind == "dyn" {
		var adds int
		switch rapid.IntRange(0, 5).Draw(t, "size") {
		case 0:
			adds = 0
		case 1, 2:
			adds = rapid.IntRange(1, 13).Draw(t, "adds") // one block
		case 3:
			adds = 16 - n + rapid.IntRange(-1, 1).Draw(t, "edge") // around the block boundary
		default:
			adds = rapid.IntRange(14, 40-n).Draw(t, "adds") // two or three blocks
		}
		toggles := rapid.IntRange(0, 8).Draw(t, "toggles")
		for adds > 0 || toggles > 0 {
			if adds > 0 && (toggles == 0 || rapid.IntRange(0, 3).Draw(t, "which") != 0) {
				apply(Op{Op: "add", F: genFreq(t, name), A: rapid.IntRange(0, 7).Draw(t, "min"), B: rapid.IntRange(0, 7).Draw(t, "max")})
				adds--
				continue
			}
			toggles--
			switch rapid.IntRange(0, 5).Draw(t, "tk") {
			case 0, 1, 2:
				apply(Op{Op: "disable", A: rapid.IntRange(0, len(st)-1).Draw(t, "i")})
			case 3:
				apply(Op{Op: "enable", A: rapid.IntRange(0, len(st)-1).Draw(t, "i")})
			case 4:
				apply(Op{Op: "disable-run", A: rapid.IntRange(0, len(st)-1).Draw(t, "i"), B: rapid.SampledFrom([]int{2, 8, 16}).Draw(t, "len")})
			default:
				apply(Op{Op: "enable-run", A: rapid.IntRange(0, len(st)-1).Draw(t, "i"), B: rapid.SampledFrom([]int{2, 8, 16}).Draw(t, "len")})
			}
		}
		return ops, st
	}
	// fixed plans: sub-band shaped histories and single toggles
	sub8 := n / 8
	switch rapid.IntRange(0, 7).Draw(t, "shape") {
	case 0: // untouched
	case 1, 2: // one or two 8-channel sub-bands (+ their 500 kHz channel on the 72-channel plans)
		apply(Op{Op: "disable-run", A: 0, B: n})
		for k := rapid.IntRange(1, 2).Draw(t, "nsub"); k > 0; k-- {
			j := rapid.IntRange(0, 7).Draw(t, "sub")
			if kind == "fixed96" {
				j = rapid.IntRange(0, sub8-1).Draw(t, "sub96")
			}
			apply(Op{Op: "enable-run", A: 8 * j, B: 8})
			if kind == "sub72" && rapid.IntRange(0, 3).Draw(t, "with500") != 0 {
				apply(Op{Op: "enable", A: 64 + j})
			}
		}
	case 3: // 16-channel runs
		apply(Op{Op: "disable-run", A: 0, B: n})
		for k := rapid.IntRange(1, 3).Draw(t, "nblk"); k > 0; k-- {
			apply(Op{Op: "enable-run", A: 16 * rapid.IntRange(0, (n-1)/16).Draw(t, "blk"), B: 16})
		}
	case 4: // 500 kHz only / 125 kHz only
		if kind == "sub72" {
			if rapid.Bool().Draw(t, "only500") {
				apply(Op{Op: "disable-run", A: 0, B: 64})
			} else {
				apply(Op{Op: "disable-run", A: 64, B: 8})
			}
		} else {
			apply(Op{Op: "disable-run", A: 48, B: 48})
		}
	default: // free mixture
	}
	for k := rapid.IntRange(0, 6).Draw(t, "toggles"); k > 0; k-- {
		switch rapid.IntRange(0, 5).Draw(t, "tk") {
		case 0, 1:
			apply(Op{Op: "disable", A: rapid.IntRange(0, n-1).Draw(t, "i")})
		case 2:
			apply(Op{Op: "enable", A: rapid.IntRange(0, n-1).Draw(t, "i")})
		case 3, 4:
			apply(Op{Op: "disable-run", A: 8 * rapid.IntRange(0, sub8-1).Draw(t, "s"), B: rapid.SampledFrom([]int{8, 16}).Draw(t, "len")})
		default:
			apply(Op{Op: "enable-run", A: 8 * rapid.IntRange(0, sub8-1).Draw(t, "s"), B: rapid.SampledFrom([]int{8, 16}).Draw(t, "len")})
		}
	}
	return ops, st
}

func genDevice(t *rapid.T, name string, st []chState) ([]int, string) {
	kind := planKind(name)
	n := len(st)
	limit := n
	if kind == "dyn" && limit < 16 {
		limit = 16
	}
	var net, std []int
	for i, s := range st {
		if s.enabled {
			net = append(net, i)
		}
		if !s.custom {
			std = append(std, i)
		}
	}
	random := func() []int {
		return bitsToList(rapid.SliceOfN(rapid.Byte(), (limit+7)/8, (limit+7)/8).Draw(t, "bits"), limit)
	}
	flip := func(base []int, k int) []int {
		m := setOf(base)
		for ; k > 0; k-- {
			i := rapid.IntRange(0, limit-1).Draw(t, "flip")
			if m[i] {
				delete(m, i)
			} else {
				m[i] = true
			}
		}
		return sorted(m)
	}
	pats := []string{"random", "all", "none", "sub8", "run16", "complement", "network", "near", "near", "netplus", "standard"}
	if kind == "sub72" {
		pats = append(pats, "only500", "sub8+500", "random", "near")
	}
	pat := rapid.SampledFrom(pats).Draw(t, "pat")
	var dev []int
	switch pat {
	case "random":
		dev = random()
	case "all":
		dev = rangeList(0, limit)
	case "none":
	case "sub8":
		j := rapid.IntRange(0, (limit-1)/8).Draw(t, "j")
		dev = rangeList(8*j, min(8*j+8, limit))
	case "sub8+500":
		j := rapid.IntRange(0, 7).Draw(t, "j")
		dev = append(rangeList(8*j, 8*j+8), 64+j)
	case "run16":
		j := rapid.IntRange(0, (limit-1)/16).Draw(t, "j")
		dev = rangeList(16*j, min(16*j+16, limit))
	case "only500":
		dev = rangeList(64, 72)
	case "complement":
		m := setOf(net)
		for i := 0; i < limit; i++ {
			if !m[i] {
				dev = append(dev, i)
			}
		}
	case "network":
		dev = append(dev, net...)
	case "near":
		dev = flip(net, rapid.IntRange(1, 4).Draw(t, "k"))
	case "netplus":
		m := setOf(net)
		for _, i := range random() {
			m[i] = true
		}
		dev = sorted(m)
	case "standard": // the state right after activation without CFList
		dev = append(dev, std...)
	}
	if len(dev) > 1 {
		dev = rapid.Permutation(dev).Draw(t, "order")
	}
	return dev, pat
}

func genCase(t *rapid.T) Case {
	var name string
	switch k := rapid.IntRange(0, 19).Draw(t, "bandkind"); {
	case k < 6:
		name = "US915"
	case k < 11:
		name = "AU915"
	case k < 14:
		name = "CN470"
	default:
		name = rapid.SampledFrom(dynBands).Draw(t, "band")
	}
	c := Case{Band: name, Repeater: rapid.Bool().Draw(t, "repeater"), Dwell: rapid.IntRange(0, 1).Draw(t, "dwell"), Probe: rapid.Bool().Draw(t, "probe")}
	ops, st := genHistory(t, name)
	c.Ops = ops
	c.Device, c.Pat = genDevice(t, name, st)
	return c
}

// ---------------------------------------------------------------- enumerated domains

// histories for the 2^16 sweep: per dynamic band a plan of at most 16 channels
func sweepHistories(name string) [][]Op {
	n0 := defaultChannels[name]
	f := uint32(867100000)
	if name == "ISM2400" {
		f = 2450000000
	}
	// H0: default channels only
	h0 := []Op{}
	// H1: five CFList channels, the second one and default channel 1 disabled
	h1 := []Op{}
	for i := 0; i < 5; i++ {
		h1 = append(h1, Op{Op: "add", F: f + uint32(i)*200000, A: 0, B: 5})
	}
	h1 = append(h1, Op{Op: "disable", A: n0 + 1}, Op{Op: "disable", A: 1})
	// H2: full block of 16 channels, one zero-frequency (disabled) custom channel, two disabled
	h2 := []Op{}
	for i := 0; n0+i < 16; i++ {
		fr := f + uint32(i)*200000
		if i == 3 {
			fr = 0
		}
		h2 = append(h2, Op{Op: "add", F: fr, A: 0, B: 5})
	}
	h2 = append(h2, Op{Op: "disable", A: 0}, Op{Op: "disable", A: 15})
	return [][]Op{h0, h1, h2}
}

func orderVariant(l []int, v int) []int {
	out := append([]int(nil), l...)
	switch v % 3 {
	case 1:
		for i, j := 0, len(out)-1; i < j; i, j = i+1, j-1 {
			out[i], out[j] = out[j], out[i]
		}
	case 2:
		if len(out) > 1 {
			k := v % len(out)
			out = append(out[k:], out[:k]...)
		}
	}
	return out
}

// patterns of the 72/96-channel plans for the structured grid
type pattern struct {
	name string
	set  []int
}

func gridPatterns(name string) []pattern {
	n := defaultChannels[name]
	var ps []pattern
	ps = append(ps, pattern{"all", rangeList(0, n)}, pattern{"none", nil})
	subs := 8
	if name == "CN470" {
		subs = 12
	}
	for j := 0; j < subs; j++ {
		s := rangeList(8*j, 8*j+8)
		if name != "CN470" {
			ps = append(ps, pattern{fmt.Sprintf("sub%d", j), append([]int(nil), s...)})
			s = append(s, 64+j)
			ps = append(ps, pattern{fmt.Sprintf("sub%d+500", j), s})
		} else {
			ps = append(ps, pattern{fmt.Sprintf("sub%d", j), s})
		}
		// everything but this sub-band
		var rest []int
		for i := 0; i < n; i++ {
			if i/8 != j {
				rest = append(rest, i)
			}
		}
		ps = append(ps, pattern{fmt.Sprintf("allbut%d", j), rest})
	}
	for k := 0; 16*k < n; k++ {
		ps = append(ps, pattern{fmt.Sprintf("blk%d", k), rangeList(16*k, min(16*k+16, n))})
	}
	if name != "CN470" {
		ps = append(ps, pattern{"only500", rangeList(64, 72)}, pattern{"only125", rangeList(0, 64)})
		for j1 := 0; j1 < 8; j1++ {
			for j2 := j1 + 1; j2 < 8; j2++ {
				s := append(rangeList(8*j1, 8*j1+8), rangeList(8*j2, 8*j2+8)...)
				s = append(s, 64+j1, 64+j2)
				ps = append(ps, pattern{fmt.Sprintf("sub%d+%d", j1, j2), s})
			}
		}
	} else {
		ps = append(ps, pattern{"low48", rangeList(0, 48)}, pattern{"high48", rangeList(48, 96)})
	}
	// one single channel per block and the checkerboard
	var one, odd []int
	for i := 0; i < n; i++ {
		if i%16 == 5 {
			one = append(one, i)
		}
		if i%2 == 1 {
			odd = append(odd, i)
		}
	}
	ps = append(ps, pattern{"one-per-block", one}, pattern{"odd", odd})
	return ps
}

// network pattern -> history: everything off, then the runs of the pattern on
func historyFor(n int, set []int) []Op {
	if len(set) == n {
		return []Op{}
	}
	ops := []Op{{Op: "disable-run", A: 0, B: n}}
	for i := 0; i < len(set); {
		j := i
		for j+1 < len(set) && set[j+1] == set[j]+1 {
			j++
		}
		if j == i {
			ops = append(ops, Op{Op: "enable", A: set[i]})
		} else {
			ops = append(ops, Op{Op: "enable-run", A: set[i], B: j - i + 1})
		}
		i = j + 1
	}
	return ops
}

func TestProp(t *testing.T) {
	r := evid.Begin(t, "C14")
	defer r.Finish()

	evid.Rapid(r, t, "plan",
		"rapid: band (US915 30%, AU915 25%, CN470 15%, the 11 dynamic plans 30%) x repeater x dwell x history (dynamic: 0..38 AddChannel with in-band / zero / arbitrary frequency up to 40 channels in total, interleaved with Disable/Enable/8-16-channel runs of valid indices; fixed plans: one or two sub-bands, 16-channel blocks, 500-kHz-only, 125-kHz-only, plus single and sub-band toggles) x device channel set (random bits, all, none, one 8-run, one 16-run, 500 kHz only, sub-band + its 500 kHz channel, complement of the network set, the network set itself, the network set with 1-4 flips, network set plus random, standard channels only), indices inside [0,n) resp. [0,max(n,16)) for dynamic plans, shuffled. Oracle: the harness's own LinkADRReq application model (ChMaskCntl 0-5 block masks; US915/AU915 6/7 = all 125 kHz on/off + mask on 64-71) applied to the device set must give {network-enabled} ∩ ({standard} ∪ {custom active on the device}) computed from the harness's own replay of the history; the library's apply function must give the same; every payload marshals and decodes to itself; count <= ceil(n/16)+1; no payload when the device already equals the target. Non-trivial: device and network sets differ in >= 2 sixteen-channel blocks, or an enabled custom channel is inactive on the device, or the ChMaskCntl-7 plan is chosen.",
		100000, 3000000, genCase, checkCase)

	evid.Exhaustive(r, t, "subsets-16",
		"11 dynamic plans x 3 histories of at most 16 channels (defaults only; five CFList channels with one custom and one default channel disabled; a full block of 16 with a zero-frequency custom channel and two disabled) x device subsets of [0,16): all 2^16 in the thorough tier, in the quick tier the subsets of weight 0,1,15,16 plus a fixed 1/16 hash sample; three list orders. Same oracle and non-trivial rule as 'plan'.",
		r.Thorough(),
		func(emit func(Case)) {
			for _, name := range dynBands {
				for hi, h := range sweepHistories(name) {
					for v := 0; v < 1<<16; v++ {
						if !r.Thorough() {
							w := bits.OnesCount16(uint16(v))
							if !(w <= 1 || w >= 15 || evid.Splitmix(uint64(v))%16 == 0) {
								continue
							}
						}
						dev := bitsToList([]byte{byte(v), byte(v >> 8)}, 16)
						emit(Case{Band: name, Ops: h, Device: orderVariant(dev, v), Pat: fmt.Sprintf("sweep-h%d", hi), Probe: v%2 == 1})
					}
				}
			}
		}, checkCase)

	evid.Exhaustive(r, t, "subband-grid",
		"US915, AU915, CN470: complete grid network pattern x device pattern over the structured family {all, none, each 8-channel sub-band (with and without its 500 kHz channel), everything but one sub-band, each 16-channel block, 500 kHz only, 125 kHz only, each pair of sub-bands with their 500 kHz channels (72-channel plans), low/high half (CN470), one channel per block, odd channels}; both tiers. Same oracle and non-trivial rule as 'plan'.",
		true,
		func(emit func(Case)) {
			for _, name := range []string{"US915", "AU915", "CN470"} {
				ps := gridPatterns(name)
				for _, net := range ps {
					h := historyFor(defaultChannels[name], net.set)
					for k, dev := range ps {
						emit(Case{Band: name, Repeater: k%2 == 1, Ops: h, Device: orderVariant(dev.set, k), Pat: "grid", Probe: k%4 >= 2})
					}
				}
			}
		}, checkCase)
}
