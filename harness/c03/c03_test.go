//go:build verif

// C03: FRMPayload and FOpts encryption equal the spec keystream, are
// involutions, and never report success while leaving data untransformed.
package c03

import (
	"bytes"
	"fmt"
	"testing"

	"github.com/brocaar/lorawan"
	"pgregory.net/rapid"

	"verif/harness/internal/evid"
	"verif/harness/internal/gen"
	"verif/harness/internal/ref"
)

func toKey(h evid.Hex) (k ref.Key) { copy(k[:], h); return }

// exact returns a copy of b whose capacity equals its length.
func exact(b []byte) []byte {
	o := make([]byte, len(b))
	copy(o, b)
	return o[:len(b):len(b)]
}

// ---- exported functions ----

type fnCase struct {
	Key       evid.Hex `json:"key"`
	Uplink    bool     `json:"uplink"`
	DevAddr   uint32   `json:"devaddr"`
	FCnt      uint32   `json:"fcnt"`
	Data      evid.Hex `json:"data"`
	FOpts     bool     `json:"fopts"` // EncryptFOpts instead of EncryptFRMPayload
	AFCntDown bool     `json:"afcntdown"`
}

func checkFn(c fnCase) evid.Outcome {
	k := toKey(c.Key)
	if c.FOpts {
		out, err := lorawan.EncryptFOpts(gen.LibKey(k), c.AFCntDown, c.Uplink, gen.Addr(c.DevAddr), c.FCnt, exact(c.Data))
		if len(c.Data) > 15 {
			if err == nil {
				return evid.Fail("EncryptFOpts accepts %d bytes (max 15) and returns %x", len(c.Data), out)
			}
			return evid.Outcome{NonTrivial: true, Class: "fopts/rejected"}
		}
		if err != nil {
			return evid.Fail("EncryptFOpts(%d bytes): %v", len(c.Data), err)
		}
		want := ref.FOptsStream(k, c.AFCntDown, c.Uplink, c.DevAddr, c.FCnt, c.Data)
		if !bytes.Equal(out, want) {
			return evid.Fail("EncryptFOpts(aFCntDown=%v uplink=%v addr=%08x fcnt=%#x data=%x)=%x, specification gives %x", c.AFCntDown, c.Uplink, c.DevAddr, c.FCnt, []byte(c.Data), out, want)
		}
		back, err := lorawan.EncryptFOpts(gen.LibKey(k), c.AFCntDown, c.Uplink, gen.Addr(c.DevAddr), c.FCnt, exact(out))
		if err != nil || !bytes.Equal(back, c.Data) {
			return evid.Fail("EncryptFOpts applied twice gives %x (err %v), want the plaintext %x", back, err, []byte(c.Data))
		}
		// neighbouring calls in one process (the other counter variant, the other direction, the next counter, then
		// the original again): each is a function of its own arguments only
		for _, v := range []struct {
			a, up bool
			fcnt  uint32
		}{{!c.AFCntDown, c.Uplink, c.FCnt}, {c.AFCntDown, !c.Uplink, c.FCnt}, {c.AFCntDown, c.Uplink, c.FCnt + 1}, {c.AFCntDown, c.Uplink, c.FCnt + 1<<16}, {c.AFCntDown, c.Uplink, c.FCnt}} {
			got, err := lorawan.EncryptFOpts(gen.LibKey(k), v.a, v.up, gen.Addr(c.DevAddr), v.fcnt, exact(c.Data))
			if w := ref.FOptsStream(k, v.a, v.up, c.DevAddr, v.fcnt, c.Data); err != nil || !bytes.Equal(got, w) {
				return evid.Fail("EncryptFOpts(aFCntDown=%v uplink=%v fcnt=%#x data=%x) called right after (aFCntDown=%v uplink=%v fcnt=%#x) gives %x (err %v), specification gives %x", v.a, v.up, v.fcnt, []byte(c.Data), c.AFCntDown, c.Uplink, c.FCnt, got, err, w)
			}
		}
		if v := inArena(c.Data, want, func(b []byte) ([]byte, error) {
			return lorawan.EncryptFOpts(gen.LibKey(k), c.AFCntDown, c.Uplink, gen.Addr(c.DevAddr), c.FCnt, b)
		}); v != "" {
			return evid.Fail("EncryptFOpts(aFCntDown=%v uplink=%v addr=%08x fcnt=%#x): %s", c.AFCntDown, c.Uplink, c.DevAddr, c.FCnt, v)
		}
		return evid.Outcome{NonTrivial: len(c.Data) > 0 && c.FCnt >= 1<<16, Class: fmt.Sprintf("fopts/len%s", lb(len(c.Data)))}
	}
	out, err := lorawan.EncryptFRMPayload(gen.LibKey(k), c.Uplink, gen.Addr(c.DevAddr), c.FCnt, exact(c.Data))
	if err != nil {
		return evid.Fail("EncryptFRMPayload(%d bytes): %v", len(c.Data), err)
	}
	want := ref.Keystream(k, c.Uplink, c.DevAddr, c.FCnt, c.Data)
	if !bytes.Equal(out, want) {
		i := 0
		for i < len(out) && i < len(want) && out[i] == want[i] {
			i++
		}
		return evid.Fail("EncryptFRMPayload(uplink=%v addr=%08x fcnt=%#x, %d bytes) differs from the specification keystream at byte %d (block %d): got %x want %x", c.Uplink, c.DevAddr, c.FCnt, len(c.Data), i, i/16+1, out, want)
	}
	back, err := lorawan.EncryptFRMPayload(gen.LibKey(k), c.Uplink, gen.Addr(c.DevAddr), c.FCnt, exact(out))
	if err != nil || !bytes.Equal(back, c.Data) {
		return evid.Fail("EncryptFRMPayload applied twice does not restore the %d byte plaintext (err %v)", len(c.Data), err)
	}
	for _, v := range []struct {
		up   bool
		fcnt uint32
	}{{!c.Uplink, c.FCnt}, {c.Uplink, c.FCnt + 1}, {c.Uplink, c.FCnt}} {
		got, err := lorawan.EncryptFRMPayload(gen.LibKey(k), v.up, gen.Addr(c.DevAddr), v.fcnt, exact(c.Data))
		if w := ref.Keystream(k, v.up, c.DevAddr, v.fcnt, c.Data); err != nil || !bytes.Equal(got, w) {
			return evid.Fail("EncryptFRMPayload(uplink=%v fcnt=%#x, %d bytes) called right after (uplink=%v fcnt=%#x) differs from the specification keystream (err %v): a call depends on an earlier one", v.up, v.fcnt, len(c.Data), c.Uplink, c.FCnt, err)
		}
	}
	if v := inArena(c.Data, want, func(b []byte) ([]byte, error) {
		return lorawan.EncryptFRMPayload(gen.LibKey(k), c.Uplink, gen.Addr(c.DevAddr), c.FCnt, b)
	}); v != "" {
		return evid.Fail("EncryptFRMPayload(uplink=%v addr=%08x fcnt=%#x): %s", c.Uplink, c.DevAddr, c.FCnt, v)
	}
	return evid.Outcome{NonTrivial: len(c.Data) > 16, Class: fmt.Sprintf("frm/len%s", lb(len(c.Data)))}
}

// inArena: the payload sits inside a larger buffer (a received frame: the MIC follows; an arena: the next payload
// follows). The call gets the sub-slice - with the spare capacity such a slice has - and has to transform exactly
// those bytes: the result is the specification's, the neighbours before and behind are untouched.
func inArena(data, want []byte, f func([]byte) ([]byte, error)) string {
	arena := bytes.Repeat([]byte{0xc3}, 8+len(data)+24)
	copy(arena[8:], data)
	out, err := f(arena[8 : 8+len(data)])
	if err != nil {
		return fmt.Sprintf("%d bytes given as a sub-slice of a larger buffer: %v", len(data), err)
	}
	if !bytes.Equal(out, want) {
		return fmt.Sprintf("%d bytes given as a sub-slice of a larger buffer give %x, specification gives %x", len(data), out, want)
	}
	for i, b := range arena {
		if (i < 8 || i >= 8+len(data)) && b != 0xc3 {
			return fmt.Sprintf("%d bytes given as a sub-slice of a larger buffer: the byte at offset %d relative to the payload (outside it) changed from c3 to %02x - the length is not preserved", len(data), i-8, b)
		}
	}
	return ""
}

func lb(n int) string {
	switch {
	case n == 0:
		return "0"
	case n <= 15:
		return "1-15"
	case n == 16:
		return "16"
	case n <= 32:
		return "17-32"
	case n <= 128:
		return "33-128"
	default:
		return ">128"
	}
}

func genFn(t *rapid.T) fnCase {
	k := gen.Key(t, "key")
	c := fnCase{Key: k[:], Uplink: rapid.Bool().Draw(t, "uplink"), DevAddr: uint32(gen.U64(t, "addr")), FCnt: gen.U32(t, "fcnt")}
	c.FOpts = rapid.IntRange(0, 2).Draw(t, "which") == 0
	if c.FOpts {
		c.AFCntDown = rapid.Bool().Draw(t, "afcntdown")
		n := rapid.IntRange(0, 15).Draw(t, "n")
		if rapid.IntRange(0, 4).Draw(t, "toolong") == 0 {
			n = rapid.IntRange(16, 40).Draw(t, "n2")
		}
		c.Data = gen.Bytes(t, "data", n)
	} else {
		c.Data = gen.Bytes(t, "data", rapid.IntRange(0, 255).Draw(t, "n"))
	}
	return c
}

// ---- PHYPayload methods ----

type methodCase struct {
	F     ref.Frame `json:"frame"`
	Key   evid.Hex  `json:"key"`
	Mode  string    `json:"mode"` // frm | fopts
	Build string    `json:"build"`
}

func genMethod(t *rapid.T) methodCase {
	k := gen.Key(t, "key")
	return methodCase{F: *gen.DataFrame(t, gen.DataMType(t), gen.DataOpts{}), Key: k[:],
		Mode: rapid.SampledFrom([]string{"frm", "fopts"}).Draw(t, "mode"), Build: rapid.SampledFrom([]string{"cmds", "bytes"}).Draw(t, "build")}
}

func checkMethod(c methodCase) evid.Outcome {
	f := &c.F
	up := ref.IsUplinkMType(f.MType)
	k := toKey(c.Key)
	p, err := gen.ToLib(f, c.Build == "cmds")
	if err != nil {
		return evid.Outcome{Skip: true}
	}
	m := p.MACPayload.(*lorawan.MACPayload)
	if c.Mode == "frm" {
		if err := p.EncryptFRMPayload(gen.LibKey(k)); err != nil {
			return evid.Fail("PHYPayload.EncryptFRMPayload on a valid frame: %v", err)
		}
		got, err := gen.PayloadsToBytes(up, m.FRMPayload)
		if err != nil {
			return evid.Fail("FRMPayload after encryption: %v", err)
		}
		want := ref.Keystream(k, up, f.DevAddr, f.FCnt, f.FRM)
		if !bytes.Equal(got, want) {
			return evid.Fail("PHYPayload.EncryptFRMPayload (uplink=%v FPort=%d, %d bytes, FCnt=%#x) gives %x, specification %x", up, f.FPort, len(f.FRM), f.FCnt, got, want)
		}
		if err := p.DecryptFRMPayload(gen.LibKey(k)); err != nil {
			return evid.Fail("PHYPayload.DecryptFRMPayload: %v", err)
		}
		back, err := gen.PayloadsToBytes(up, m.FRMPayload)
		if err != nil || !bytes.Equal(back, f.FRM) {
			return evid.Fail("DecryptFRMPayload after EncryptFRMPayload gives %x (err %v), plaintext was %x", back, err, f.FRM)
		}
		if f.FPort == 0 && len(f.FRM) > 0 {
			if _, ok := m.FRMPayload[0].(*lorawan.MACCommand); !ok {
				return evid.Fail("DecryptFRMPayload on port 0 left %T instead of decoded MAC commands", m.FRMPayload[0])
			}
		}
		if f.FPort > 0 && len(f.FRM) > 0 {
			// two frames that reference ONE payload object (the same application payload for two counters / devices)
			shared := &lorawan.DataPayload{Bytes: append([]byte{}, f.FRM...)}
			for i, fcnt := range []uint32{f.FCnt, f.FCnt + 1, f.FCnt} {
				g := *f
				g.FCnt = fcnt
				q, _ := gen.ToLib(&g, false)
				qm := q.MACPayload.(*lorawan.MACPayload)
				qm.FRMPayload = []lorawan.Payload{shared}
				if err := q.EncryptFRMPayload(gen.LibKey(k)); err != nil {
					return evid.Fail("EncryptFRMPayload (shared payload object, frame %d): %v", i, err)
				}
				got, _ := gen.PayloadsToBytes(up, qm.FRMPayload)
				if want := ref.Keystream(k, up, g.DevAddr, fcnt, f.FRM); !bytes.Equal(got, want) {
					return evid.Fail("frame %d of three frames that reference one application payload object %x (FCnt %#x): EncryptFRMPayload gives %x, specification keystream gives %x (an earlier encryption changed the shared payload)", i, f.FRM, fcnt, got, want)
				}
			}
		}
		return evid.Outcome{NonTrivial: len(f.FRM) > 16, Class: fmt.Sprintf("frm/up=%v/port0=%v", up, f.FPort == 0)}
	}
	if c.Build == "cmds" && len(f.FOpts) > 0 {
		// DecryptFOpts on a frame whose FOpts are held as command structs (built in memory, or decoded before decrypting):
		// it must apply the transform or return an error, not report success with the FOpts untouched
		r, _ := gen.ToLib(f, true)
		if err := r.DecryptFOpts(gen.LibKey(k)); err == nil {
			after, _ := gen.PayloadsToBytes(up, r.MACPayload.(*lorawan.MACPayload).FHDR.FOpts)
			// what the transformed bytes stand for once decoded into commands again (reserved bits are dropped by that decode)
			want := ref.FOptsStream(k, !up && f.FPort > 0, up, f.DevAddr, f.FCnt, f.FOpts)
			var exp []byte
			if cs, derr := ref.DecodeCmds(up, want, nil); derr == nil {
				exp, _ = ref.EncodeCmds(up, cs)
			}
			if exp != nil && bytes.Equal(after, f.FOpts) && !bytes.Equal(exp, f.FOpts) {
				return evid.Fail("PHYPayload.DecryptFOpts on a frame whose FOpts are MAC-command values (%x) reports success and leaves them untransformed", f.FOpts)
			}
		}
	}
	if err := p.EncryptFOpts(gen.LibKey(k)); err != nil {
		return evid.Fail("PHYPayload.EncryptFOpts on a valid frame (%d FOpts bytes): %v", len(f.FOpts), err)
	}
	got, err := gen.PayloadsToBytes(up, m.FHDR.FOpts)
	if err != nil {
		return evid.Fail("FOpts after encryption: %v", err)
	}
	aFCntDown := !up && f.FPort > 0
	want := ref.FOptsStream(k, aFCntDown, up, f.DevAddr, f.FCnt, f.FOpts)
	if !bytes.Equal(got, want) {
		return evid.Fail("PHYPayload.EncryptFOpts (uplink=%v FPort=%d => AFCntDown variant %v, FCnt=%#x) gives %x, specification %x", up, f.FPort, aFCntDown, f.FCnt, got, want)
	}
	if len(f.FOpts) > 0 {
		// the same FOpts on a frame value whose FPort is present and 0 with nothing behind it (the frame encoder refuses that
		// combination later; this method runs before it): refused, or transformed with the variant for "FPort not above 0"
		g := *f
		g.FPort, g.FRM = 0, nil
		if q, err := gen.ToLib(&g, c.Build == "cmds"); err == nil {
			if err := q.EncryptFOpts(gen.LibKey(k)); err == nil {
				after, _ := gen.PayloadsToBytes(up, q.MACPayload.(*lorawan.MACPayload).FHDR.FOpts)
				if w := ref.FOptsStream(k, false, up, g.DevAddr, g.FCnt, g.FOpts); !bytes.Equal(after, w) {
					return evid.Fail("PHYPayload.EncryptFOpts on a frame with FOpts %x and FPort 0 (uplink=%v FCnt=%#x) reports success with %x; the AFCntDown variant is for downlinks with FPort above 0 only, the specification keystream here gives %x", g.FOpts, up, g.FCnt, after, w)
				}
			}
		}
	}
	if len(f.FOpts) > 0 {
		// and with a payload on that port 0: EncryptFRMPayload on such a value refuses, or transforms the payload with the
		// specification keystream - it never reports success with the bytes as they were
		g := *f
		g.FPort, g.FRM = 0, append([]byte{0x02, 0x03, 0x07}[:1+int(f.FCnt%3)], f.FOpts...)
		if q, err := gen.ToLib(&g, false); err == nil {
			if err := q.EncryptFRMPayload(gen.LibKey(k)); err == nil {
				after, _ := gen.PayloadsToBytes(up, q.MACPayload.(*lorawan.MACPayload).FRMPayload)
				if w := ref.Keystream(k, up, g.DevAddr, g.FCnt, g.FRM); !bytes.Equal(after, w) {
					return evid.Fail("PHYPayload.EncryptFRMPayload on a frame value with FOpts %x, FPort 0 and the payload %x (uplink=%v FCnt=%#x) reports success with %x; the specification keystream gives %x", g.FOpts, g.FRM, up, g.FCnt, after, w)
				}
			}
		}
	}
	if err := p.DecryptFOpts(gen.LibKey(k)); err != nil {
		return evid.Fail("PHYPayload.DecryptFOpts: %v", err)
	}
	back, err := gen.PayloadsToBytes(up, m.FHDR.FOpts)
	if err != nil || !bytes.Equal(back, f.FOpts) {
		return evid.Fail("DecryptFOpts after EncryptFOpts gives %x (err %v), plaintext was %x", back, err, f.FOpts)
	}
	if len(f.FOpts) > 0 {
		if _, ok := m.FHDR.FOpts[0].(*lorawan.MACCommand); !ok {
			return evid.Fail("DecryptFOpts left %T instead of decoded MAC commands", m.FHDR.FOpts[0])
		}
	}
	return evid.Outcome{NonTrivial: len(f.FOpts) > 0, Class: fmt.Sprintf("fopts/up=%v/afcntdown=%v/len%s", up, aFCntDown, lb(len(f.FOpts)))}
}

// ---- outcome contract on inputs that cannot be transformed ----

type contractCase struct {
	Kind  string   `json:"kind"` // nondata | longfopts
	MType byte     `json:"mtype"`
	FOpts evid.Hex `json:"fopts"`
	FPort int      `json:"fport"`
	Key   evid.Hex `json:"key"`
}

func genContract(t *rapid.T) contractCase {
	k := gen.Key(t, "key")
	c := contractCase{Kind: rapid.SampledFrom([]string{"nondata", "longfopts", "frm-without-fport", "unencodable-command"}).Draw(t, "kind"), Key: k[:], FPort: rapid.IntRange(-1, 255).Draw(t, "fport")}
	if c.Kind == "unencodable-command" {
		// FOpts[0] = number of valid commands (1..3), FOpts[1] = position of the bad one (0..n), FOpts[2] = which bad one
		n := rapid.IntRange(1, 3).Draw(t, "n")
		c.MType = rapid.SampledFrom([]byte{ref.MTUnconfDown, ref.MTConfDown}).Draw(t, "mtype")
		c.FOpts = evid.Hex{byte(n), byte(rapid.IntRange(0, n).Draw(t, "pos")), byte(rapid.IntRange(0, 4).Draw(t, "bad"))}
		return c
	}
	if c.Kind == "frm-without-fport" {
		c.MType = gen.DataMType(t)
		c.FOpts = gen.Bytes(t, "frm", rapid.IntRange(1, 40).Draw(t, "n")) // the field carries the FRMPayload bytes for this kind
		c.FPort = -1
		return c
	}
	if c.Kind == "nondata" {
		c.MType = rapid.SampledFrom([]byte{ref.MTJoinRequest, ref.MTJoinAccept, ref.MTRejoin, ref.MTProprietary}).Draw(t, "mtype")
	} else {
		c.MType = gen.DataMType(t)
		c.FOpts = gen.Bytes(t, "fopts", rapid.IntRange(16, 40).Draw(t, "n"))
		if c.FPort == 0 {
			c.FPort = 1
		}
	}
	return c
}

func checkContract(c contractCase) evid.Outcome {
	key := gen.LibKey(toKey(c.Key))
	if c.Kind == "nondata" {
		var p lorawan.PHYPayload
		p.MHDR.MType = lorawan.MType(c.MType)
		switch c.MType {
		case ref.MTJoinRequest:
			p.MACPayload = &lorawan.JoinRequestPayload{DevNonce: 7}
		case ref.MTRejoin:
			p.MACPayload = &lorawan.RejoinRequestType1Payload{RejoinType: 1}
		default:
			p.MACPayload = &lorawan.DataPayload{Bytes: []byte{1, 2, 3, 4, 5, 6, 7, 8}}
		}
		// closures, not method values: an optional trailing parameter added to a method must not stop the harness from building
		for name, fn := range map[string]func(lorawan.AES128Key) error{
			"EncryptFRMPayload": func(k lorawan.AES128Key) error { return p.EncryptFRMPayload(k) },
			"DecryptFRMPayload": func(k lorawan.AES128Key) error { return p.DecryptFRMPayload(k) },
			"EncryptFOpts":      func(k lorawan.AES128Key) error { return p.EncryptFOpts(k) },
			"DecryptFOpts":      func(k lorawan.AES128Key) error { return p.DecryptFOpts(k) },
		} {
			if err := fn(key); err == nil {
				return evid.Fail("PHYPayload.%s on a frame without a data MACPayload (MType %d) reports success although nothing can be transformed", name, c.MType)
			}
		}
		return evid.Outcome{NonTrivial: true, Class: "nondata"}
	}
	if c.Kind == "unencodable-command" {
		if len(c.FOpts) != 3 || c.FOpts[0] < 1 || c.FOpts[0] > 3 || c.FOpts[1] > c.FOpts[0] || c.FOpts[2] > 4 {
			return evid.Outcome{Skip: true}
		}
		bads := []lorawan.MACCommand{
			{CID: lorawan.LinkADRReq, Payload: &lorawan.LinkADRReqPayload{DataRate: 1, TXPower: 16}},
			{CID: lorawan.LinkADRReq, Payload: &lorawan.LinkADRReqPayload{DataRate: 16, TXPower: 1}},
			{CID: lorawan.DutyCycleReq, Payload: &lorawan.DutyCycleReqPayload{MaxDCycle: 200}},
			{CID: lorawan.RXTimingSetupReq, Payload: &lorawan.RXTimingSetupReqPayload{Delay: 16}},
			{CID: lorawan.NewChannelReq, Payload: &lorawan.NewChannelReqPayload{ChIndex: 3, Freq: 868100050, MaxDR: 5}},
		}
		bad := bads[c.FOpts[2]]
		if _, err := bad.MarshalBinary(); err == nil {
			return evid.Outcome{Skip: true} // the encoder accepts it: not a case of this kind
		}
		goods := []lorawan.MACCommand{{CID: lorawan.DevStatusReq}, {CID: lorawan.RXTimingSetupReq, Payload: &lorawan.RXTimingSetupReqPayload{Delay: 3}}, {CID: lorawan.DutyCycleReq, Payload: &lorawan.DutyCycleReqPayload{MaxDCycle: 4}}}
		build := func() []lorawan.Payload {
			var l []lorawan.Payload
			for i := 0; i <= int(c.FOpts[0]); i++ {
				if i == int(c.FOpts[1]) {
					b := bad
					l = append(l, &b)
				}
				if i < int(c.FOpts[0]) {
					g := goods[i]
					l = append(l, &g)
				}
			}
			return l
		}
		// in FOpts (1.1 FOpts encryption) and on port 0 (FRMPayload encryption): nothing that cannot be serialised can be transformed
		for _, name := range []string{"EncryptFOpts", "DecryptFOpts", "EncryptFRMPayload"} {
			m := &lorawan.MACPayload{FHDR: lorawan.FHDR{DevAddr: lorawan.DevAddr{1, 2, 3, 4}, FCnt: 5}}
			p := lorawan.PHYPayload{MHDR: lorawan.MHDR{MType: lorawan.MType(c.MType), Major: lorawan.LoRaWANR1}, MACPayload: m}
			var err error
			switch name {
			case "EncryptFOpts":
				m.FHDR.FOpts = build()
				err = p.EncryptFOpts(key)
			case "DecryptFOpts":
				m.FHDR.FOpts = build()
				err = p.DecryptFOpts(key)
			default:
				var zero uint8
				m.FPort, m.FRMPayload = &zero, build()
				err = p.EncryptFRMPayload(key)
			}
			if err == nil {
				fo, _ := gen.PayloadsToBytes(false, m.FHDR.FOpts)
				fr, _ := gen.PayloadsToBytes(false, m.FRMPayload)
				return evid.Fail("PHYPayload.%s on a downlink whose command list holds %d valid commands and, at position %d, the unencodable %v %+v reports success (FOpts afterwards %x, FRMPayload %x): a command list that cannot be serialised was not transformed as a whole", name, c.FOpts[0], c.FOpts[1], bad.CID, bad.Payload, fo, fr)
			}
		}
		return evid.Outcome{NonTrivial: true, Class: fmt.Sprintf("unencodable-command/pos%d-of-%d", c.FOpts[1], c.FOpts[0])}
	}
	if c.Kind == "frm-without-fport" {
		// a frame value with FRMPayload bytes but no FPort (not encodable): each method must return an error or apply the keystream
		up := ref.IsUplinkMType(c.MType)
		for _, name := range []string{"EncryptFRMPayload", "DecryptFRMPayload"} {
			m := &lorawan.MACPayload{FHDR: lorawan.FHDR{DevAddr: lorawan.DevAddr{1, 2, 3, 4}, FCnt: 5}, FRMPayload: []lorawan.Payload{&lorawan.DataPayload{Bytes: append([]byte{}, c.FOpts...)}}}
			p := lorawan.PHYPayload{MHDR: lorawan.MHDR{MType: lorawan.MType(c.MType)}, MACPayload: m}
			var err error
			if name == "EncryptFRMPayload" {
				err = p.EncryptFRMPayload(key)
			} else {
				err = p.DecryptFRMPayload(key)
			}
			if err != nil {
				continue
			}
			after, _ := gen.PayloadsToBytes(up, m.FRMPayload)
			if want := ref.Keystream(toKey(c.Key), up, 0x01020304, 5, c.FOpts); !bytes.Equal(after, want) {
				return evid.Fail("PHYPayload.%s on a frame with %d FRMPayload bytes and no FPort reports success, but the payload is %x afterwards (before %x, keystream transform %x): success without the transform", name, len(c.FOpts), after, []byte(c.FOpts), want)
			}
		}
		return evid.Outcome{NonTrivial: true, Class: "frm-without-fport"}
	}
	mk := func() (lorawan.PHYPayload, *lorawan.MACPayload) {
		m := &lorawan.MACPayload{FHDR: lorawan.FHDR{DevAddr: lorawan.DevAddr{1, 2, 3, 4}, FCnt: 5, FOpts: []lorawan.Payload{&lorawan.DataPayload{Bytes: append([]byte{}, c.FOpts...)}}}}
		if c.FPort >= 0 {
			fp := uint8(c.FPort)
			m.FPort = &fp
		}
		return lorawan.PHYPayload{MHDR: lorawan.MHDR{MType: lorawan.MType(c.MType)}, MACPayload: m}, m
	}
	for _, name := range []string{"EncryptFOpts", "DecryptFOpts"} {
		p, m := mk()
		var err error
		if name == "EncryptFOpts" {
			err = p.EncryptFOpts(key)
		} else {
			err = p.DecryptFOpts(key)
		}
		if err != nil {
			continue
		}
		// success reported: then the data must be transformed; for more than 15 bytes no transform is defined
		after, _ := gen.PayloadsToBytes(ref.IsUplinkMType(c.MType), m.FHDR.FOpts)
		return evid.Fail("PHYPayload.%s with %d bytes of FOpts (max 15) reports success; FOpts afterwards %x, before %x (untransformed=%v)", name, len(c.FOpts), after, []byte(c.FOpts), bytes.Equal(after, c.FOpts))
	}
	return evid.Outcome{NonTrivial: true, Class: "longfopts"}
}

func TestProp(t *testing.T) {
	if err := ref.SelfTest(); err != nil {
		t.Fatal(err)
	}
	r := evid.Begin(t, "C03")
	defer r.Finish()

	evid.Exhaustive(r, t, "func-all-lengths",
		"EncryptFRMPayload for every length 0..255 and EncryptFOpts for every length 0..40, each x 16 (quick) / 256 (thorough) deterministic parameter sets (key, direction, DevAddr, FCnt incl. values >= 2^16, data pattern); oracle: keystream S_i = AES(K, A_i) from crypto/aes; length preserved (also when the data is a sub-slice of a larger buffer: the bytes before and behind it stay untouched); second application restores the input; FOpts > 15 bytes rejected. Non-trivial: more than 16 bytes (keystream block index >= 2) / FOpts with FCnt >= 2^16 / rejected length.",
		true,
		func(emit func(fnCase)) {
			sets := r.N(16, 256)
			for s := 0; s < sets; s++ {
				key := make([]byte, 16)
				for i := range key {
					key[i] = byte(s*31 + i*17 + 3)
				}
				addr := uint32(s)*0x01010101 + 0x01020304
				fcnt := []uint32{0, 1, 0xffff, 0x10000, 0x12345678, 0xffffffff}[s%6] + uint32(s/6)
				for n := 0; n <= 255; n++ {
					d := make([]byte, n)
					for i := range d {
						d[i] = byte(i*7 + s + n)
					}
					emit(fnCase{Key: key, Uplink: s%2 == 0, DevAddr: addr, FCnt: fcnt, Data: d})
					if n <= 40 {
						emit(fnCase{Key: key, Uplink: s%2 == 0, DevAddr: addr, FCnt: fcnt, Data: d, FOpts: true, AFCntDown: s%4 >= 2})
					}
				}
			}
		}, checkFn)

	evid.Rapid(r, t, "func-random",
		"rapid: random key, direction, DevAddr, boundary-biased 32-bit FCnt, data 0..255 bytes (FOpts 0..15 and the rejected 16..40); same oracle as func-all-lengths",
		150000, 3000000, genFn, checkFn)

	evid.Rapid(r, t, "methods",
		"rapid: valid data frames (FPort absent / 0 with commands / >0, FOpts 0..15 bytes, both directions, FOpts/FRMPayload given as command values or as bytes); PHYPayload.EncryptFRMPayload == keystream of the serialised payload, Decrypt restores it and decodes port-0 commands; PHYPayload.EncryptFOpts == FOpts block with the AFCntDown variant exactly for downlink and FPort>0, DecryptFOpts restores the commands. Non-trivial: payload > 16 bytes / FOpts present.",
		120000, 3000000, genMethod, checkMethod)

	evid.Rapid(r, t, "outcome-contract",
		"rapid: frames on which no transform is defined - non-data MACPayload (join-request, join-accept, rejoin, proprietary), FOpts longer than 15 bytes, FRMPayload bytes without an FPort, and command lists (in FOpts and on port 0) that hold one unencodable command at a drawn position between 1..3 valid ones; every Encrypt*/Decrypt* method must return an error or apply the specification transform, never nil with untransformed data. Every case is non-trivial.",
		4000, 200000, genContract, checkContract)
}
