// Package evid is the bookkeeping layer shared by all property packages:
// tiers / seeds / shards from the environment, sub-checks driven by rapid or by
// exhaustive enumeration, counters and class labels, distinct hashes of
// non-trivial cases, samples, replay files, known-finding witnesses and the
// per-shard statistics file that the python driver merges into
// /verif/evidence/<id>.json.
//
// A sub-check is a pair (generator, check function). The check function is a
// pure function Case -> Outcome; a Case is JSON-serialisable so that a shrunk
// failure becomes a replay file that is re-checked without rapid.
package evid

import (
	"encoding/binary"
	"encoding/hex"
	"encoding/json"
	"flag"
	"fmt"
	"hash/fnv"
	"io"
	"log"
	"os"
	"path/filepath"
	"runtime/debug"
	"sort"
	"strconv"
	"strings"
	"sync"
	"testing"
	"time"

	"pgregory.net/rapid"
)

// Hex is a byte slice that is written as a hex string in JSON.
type Hex []byte

func (h Hex) MarshalJSON() ([]byte, error) { return json.Marshal(hex.EncodeToString(h)) }
func (h *Hex) UnmarshalJSON(b []byte) error {
	var s string
	if err := json.Unmarshal(b, &s); err != nil {
		return err
	}
	d, err := hex.DecodeString(s)
	if err != nil {
		return err
	}
	*h = d
	return nil
}
func (h Hex) String() string { return hex.EncodeToString(h) }

// Outcome is what a check function reports about one case.
type Outcome struct {
	NonTrivial bool   // by the sub-check's stated rule
	Class      string // label for the measured generator distribution
	Key        []byte // identity of the case for distinct counting (nil: JSON of the case)
	Violation  string // non-empty: the property is violated by this case
	Known      string // with Violation: id of the known-finding class the failing case falls in
	Skip       bool   // the case is outside the domain (counted, not evaluated)
	// Excluded counts parts of a passing case that fell in an active known-finding class and were
	// therefore not asserted (the check function asks Run.KnownActive itself and carries on).
	Excluded map[string]int
}

// OK is a helper for the common passing outcome.
func OK(nonTrivial bool, class string) Outcome { return Outcome{NonTrivial: nonTrivial, Class: class} }

// Fail is a helper for a violating outcome.
func Fail(format string, a ...any) Outcome { return Outcome{Violation: fmt.Sprintf(format, a...)} }

type subStats struct {
	Name          string         `json:"name"`
	Kind          string         `json:"kind"` // rapid | exhaustive | fuzz | race
	Evaluations   int64          `json:"evaluations"`
	NonTrivial    int64          `json:"nontrivial"`
	Skipped       int64          `json:"skipped"`
	ExcludedKnown map[string]int `json:"excluded_known,omitempty"`
	Classes       map[string]int `json:"classes,omitempty"`
	Samples       []any          `json:"samples,omitempty"`
	Exhaustive    bool           `json:"exhaustive"`
	DistinctExact bool           `json:"distinct_exact"` // cases are distinct by construction (enumeration): no hashing needed
	Rule          string         `json:"rule"`
	WallS         float64        `json:"wall_s"`
	Requested     int            `json:"requested,omitempty"`
}

type violation struct {
	Sub    string `json:"sub"`
	Replay string `json:"replay"`
	Msg    string `json:"msg"`
}

type knownLine struct {
	ID   string `json:"id"`
	What string `json:"what"`
}

// KnownEntry mirrors one record of /verif/known_findings.json.
type KnownEntry struct {
	Kind     string          `json:"kind"` // known | fixed
	Property string          `json:"property"`
	ID       string          `json:"id"`
	Sub      string          `json:"sub"`
	Case     json.RawMessage `json:"case"`
	What     string          `json:"what"`
	Commit   string          `json:"commit,omitempty"`
}

// Run is the per-process state of one property check.
type Run struct {
	Prop    string
	Tier    string // quick | thorough
	Seed    uint64
	Shard   int
	NShards int

	replayPath string
	replaySub  string
	replayCase json.RawMessage

	mu         sync.Mutex
	subs       []*subStats
	hashes     map[uint64]struct{}
	hashCap    int
	violations []violation
	known      []knownLine
	active     map[string]bool // known-finding ids whose witness still fails
	entries    []KnownEntry
	start      time.Time
	statsPath  string
	replayDir  string
	t          *testing.T
}

func envInt(k string, d int) int {
	if v := os.Getenv(k); v != "" {
		if n, err := strconv.Atoi(v); err == nil {
			return n
		}
	}
	return d
}

// Splitmix is the splitmix64 finaliser, used to derive well separated seeds.
func Splitmix(x uint64) uint64 {
	x += 0x9e3779b97f4a7c15
	x = (x ^ (x >> 30)) * 0xbf58476d1ce4e5b9
	x = (x ^ (x >> 27)) * 0x94d049bb133111eb
	return x ^ (x >> 31)
}

// Begin reads the environment and returns the run. Finish must be deferred.
func Begin(t *testing.T, prop string) *Run {
	log.SetOutput(io.Discard) // the library logs decode warnings
	r := &Run{Prop: prop, Tier: os.Getenv("VERIF_TIER"), t: t, start: time.Now()}
	if r.Tier != "thorough" {
		r.Tier = "quick"
	}
	seed, _ := strconv.ParseUint(os.Getenv("VERIF_SEED"), 10, 64)
	if seed == 0 {
		seed = 0x5eed5eed
	}
	r.Seed = seed
	r.Shard = envInt("VERIF_SHARD", 0)
	r.NShards = envInt("VERIF_NSHARDS", 1)
	r.statsPath = os.Getenv("VERIF_STATS")
	r.replayDir = os.Getenv("VERIF_REPLAY_DIR")
	if r.replayDir == "" {
		r.replayDir = filepath.Join(os.TempDir(), "verif-replays", prop)
	}
	r.hashes = map[uint64]struct{}{}
	r.hashCap = envInt("VERIF_HASHCAP", 400000)
	r.active = map[string]bool{}
	if p := os.Getenv("VERIF_REPLAY"); p != "" {
		r.replayPath = p
		b, err := os.ReadFile(p)
		if err != nil {
			t.Fatalf("replay file: %v", err)
		}
		var f struct {
			Property string          `json:"property"`
			Sub      string          `json:"sub"`
			Case     json.RawMessage `json:"case"`
		}
		if err := json.Unmarshal(b, &f); err != nil {
			t.Fatalf("replay file: %v", err)
		}
		r.replaySub, r.replayCase = f.Sub, f.Case
	}
	if kf := os.Getenv("VERIF_KNOWN"); kf != "" {
		if b, err := os.ReadFile(kf); err == nil {
			var all []KnownEntry
			if err := json.Unmarshal(b, &all); err != nil {
				t.Fatalf("known findings file: %v", err)
			}
			for _, e := range all {
				if e.Property == prop {
					r.entries = append(r.entries, e)
				}
			}
		}
	}
	return r
}

// Thorough reports whether the thorough tier was requested.
func (r *Run) Thorough() bool { return r.Tier == "thorough" }

// Replaying reports whether this process only replays a saved case.
func (r *Run) Replaying() bool { return r.replayPath != "" }

// N picks the case count for the tier (total over all shards).
func (r *Run) N(quick, thorough int) int {
	if r.Thorough() {
		return thorough
	}
	return quick
}

// Mine tells an exhaustive enumeration whether index i belongs to this shard.
func (r *Run) Mine(i int) bool { return i%r.NShards == r.Shard }

// KnownActive reports whether the witness of known finding id still fails.
func (r *Run) KnownActive(id string) bool {
	r.mu.Lock()
	defer r.mu.Unlock()
	return r.active[id]
}

func hashOf(sub string, key []byte) uint64 {
	h := fnv.New64a()
	h.Write([]byte(sub))
	h.Write([]byte{0})
	h.Write(key)
	return h.Sum64()
}

// Sub is one sub-check.
type Sub[C any] struct {
	r     *Run
	st    *subStats
	check func(C) Outcome
	last  *C // last failing case (the shrunk one, since rapid re-runs it last)
	lastO Outcome
	maxS  int
}

func newSub[C any](r *Run, name, kind, rule string, check func(C) Outcome) *Sub[C] {
	st := &subStats{Name: name, Kind: kind, Rule: rule, Classes: map[string]int{}, ExcludedKnown: map[string]int{}}
	r.mu.Lock()
	r.subs = append(r.subs, st)
	r.mu.Unlock()
	return &Sub[C]{r: r, st: st, check: check, maxS: 3}
}

// safeCheck runs the check function and turns a panic of the code under test
// (or of the harness) into a violation carrying the stack.
func (s *Sub[C]) safeCheck(c C) (o Outcome) {
	defer func() {
		if p := recover(); p != nil {
			o = Outcome{Violation: fmt.Sprintf("panic: %v\n%s", p, debug.Stack())}
		}
	}()
	return s.check(c)
}

// eval runs the check on one case and does the bookkeeping. It returns the
// violation text ("" when the case passed, was skipped, or is an excluded
// known finding).
func (s *Sub[C]) eval(c C) string {
	o := s.safeCheck(c)
	r := s.r
	r.mu.Lock()
	defer r.mu.Unlock()
	if o.Skip {
		s.st.Skipped++
		return ""
	}
	s.st.Evaluations++
	if o.Class != "" {
		s.st.Classes[o.Class]++
	}
	for k, n := range o.Excluded {
		s.st.ExcludedKnown[k] += n
	}
	if o.Violation != "" {
		if o.Known != "" && r.active[o.Known] {
			s.st.ExcludedKnown[o.Known]++
			return ""
		}
		cc := c
		s.last, s.lastO = &cc, o
		return o.Violation
	}
	if o.NonTrivial {
		s.st.NonTrivial++
		if len(s.st.Samples) < s.maxS {
			s.st.Samples = append(s.st.Samples, c)
		}
		if s.st.DistinctExact {
			return ""
		}
		key := o.Key
		if key == nil {
			key, _ = json.Marshal(c)
		}
		if len(r.hashes) < r.hashCap {
			r.hashes[hashOf(s.st.Name, key)] = struct{}{}
		}
	}
	return ""
}

func (s *Sub[C]) saveViolation() {
	if s.last == nil {
		return
	}
	r := s.r
	body := map[string]any{"property": r.Prop, "sub": s.st.Name, "case": *s.last, "message": s.lastO.Violation, "tier": r.Tier, "seed": r.Seed, "shard": r.Shard}
	b, _ := json.MarshalIndent(body, "", " ")
	cb, _ := json.Marshal(*s.last)
	name := fmt.Sprintf("%s-%016x.json", sanitize(s.st.Name), hashOf(s.st.Name, cb))
	_ = os.MkdirAll(r.replayDir, 0o755)
	p := filepath.Join(r.replayDir, name)
	_ = os.WriteFile(p, b, 0o644)
	msg := s.lastO.Violation
	if i := strings.IndexByte(msg, '\n'); i > 0 && len(msg) > 600 {
		msg = msg[:600]
	}
	r.mu.Lock()
	r.violations = append(r.violations, violation{Sub: s.st.Name, Replay: p, Msg: msg})
	r.mu.Unlock()
}

func sanitize(s string) string {
	return strings.Map(func(c rune) rune {
		if c >= 'a' && c <= 'z' || c >= 'A' && c <= 'Z' || c >= '0' && c <= '9' || c == '-' || c == '_' {
			return c
		}
		return '_'
	}, s)
}

// witnesses replays the known-finding and fixed witnesses of this sub-check.
func (s *Sub[C]) witnesses(t *testing.T) {
	r := s.r
	for _, e := range r.entries {
		if e.Sub != s.st.Name || len(e.Case) == 0 {
			continue
		}
		var c C
		if err := json.Unmarshal(e.Case, &c); err != nil {
			t.Errorf("known finding %s: cannot decode witness: %v", e.ID, err)
			continue
		}
		o := s.safeCheck(c)
		switch e.Kind {
		case "known":
			if o.Violation != "" {
				r.mu.Lock()
				r.active[e.ID] = true
				r.known = append(r.known, knownLine{ID: e.ID, What: e.What})
				r.mu.Unlock()
			}
		default: // fixed: plain regression seed, suppresses nothing
			if v := s.eval(c); v != "" {
				s.saveViolation()
				t.Errorf("regression witness %s fails again: %s", e.ID, v)
			}
		}
	}
}

// replay handles VERIF_REPLAY for this sub-check; it returns true when the
// process is in replay mode (the caller must then not generate anything).
func (s *Sub[C]) replay(t *testing.T) bool {
	r := s.r
	if !r.Replaying() {
		return false
	}
	if r.replaySub != s.st.Name {
		return true
	}
	var c C
	if err := json.Unmarshal(r.replayCase, &c); err != nil {
		t.Fatalf("replay: cannot decode case: %v", err)
	}
	s.witnesses(t) // so that a replayed case of an active known-finding class is reported as such
	if v := s.eval(c); v != "" {
		s.saveViolation()
		t.Errorf("replayed case still violates %s/%s: %s", r.Prop, s.st.Name, v)
	} else {
		t.Logf("replayed case passes")
	}
	return true
}

// Rapid runs a generated sub-check: n cases in total over all shards.
func Rapid[C any](r *Run, t *testing.T, name, rule string, nQuick, nThorough int, gen func(*rapid.T) C, check func(C) Outcome) {
	s := newSub(r, name, "rapid", rule, check)
	t.Run(sanitize(name), func(t *testing.T) {
		t0 := time.Now()
		defer func() { s.st.WallS = time.Since(t0).Seconds() }()
		if s.replay(t) {
			return
		}
		s.witnesses(t)
		if t.Failed() {
			return // a regression witness failed: already recorded as a violation (rapid refuses a failed *testing.T)
		}
		n := r.N(nQuick, nThorough) / r.NShards
		if n < 1 {
			n = 1
		}
		s.st.Requested = n
		seed := Splitmix(r.Seed ^ Splitmix(uint64(r.Shard)+1) ^ hashOf(name, nil))
		if seed == 0 {
			seed = 1
		}
		_ = flag.Set("rapid.checks", strconv.Itoa(n))
		_ = flag.Set("rapid.seed", strconv.FormatUint(seed, 10))
		_ = flag.Set("rapid.nofailfile", "true")
		defer func() {
			if s.last != nil {
				s.saveViolation()
			}
		}()
		rapid.Check(t, func(rt *rapid.T) {
			c := gen(rt)
			if v := s.eval(c); v != "" {
				rt.Fatalf("%s", v)
			}
		})
	})
}

// Exhaustive runs an enumerated sub-check. enumerate calls emit for every
// case of the finite domain; the cases are dealt round-robin to the shards.
// complete says whether the enumeration covers the whole stated domain.
func Exhaustive[C any](r *Run, t *testing.T, name, rule string, complete bool, enumerate func(emit func(C)), check func(C) Outcome) {
	s := newSub(r, name, "exhaustive", rule, check)
	s.st.Exhaustive = complete
	s.st.DistinctExact = true
	t.Run(sanitize(name), func(t *testing.T) {
		t0 := time.Now()
		defer func() { s.st.WallS = time.Since(t0).Seconds() }()
		if s.replay(t) {
			return
		}
		s.witnesses(t)
		i := 0
		failed := 0
		enumerate(func(c C) {
			mine := r.Mine(i)
			i++
			if !mine || failed >= 1 {
				return
			}
			if v := s.eval(c); v != "" {
				failed++
				s.saveViolation()
				t.Errorf("%s", v)
			}
		})
	})
}

// Manual gives a sub-check full control (race runs, fuzz corpora, ...): the
// body calls Eval for each case it executes.
type Manual[C any] struct {
	s *Sub[C]
	t *testing.T
}

// Eval checks one case; it reports whether the case passed.
func (m *Manual[C]) Eval(c C) bool {
	if v := m.s.eval(c); v != "" {
		m.s.saveViolation()
		m.t.Errorf("%s", v)
		return false
	}
	return true
}

// RunManual registers a manual sub-check and runs body unless replaying.
func RunManual[C any](r *Run, t *testing.T, name, kind, rule string, complete bool, check func(C) Outcome, body func(m *Manual[C])) {
	s := newSub(r, name, kind, rule, check)
	s.st.Exhaustive = complete
	t.Run(sanitize(name), func(t *testing.T) {
		t0 := time.Now()
		defer func() { s.st.WallS = time.Since(t0).Seconds() }()
		if s.replay(t) {
			return
		}
		s.witnesses(t)
		body(&Manual[C]{s: s, t: t})
	})
}

// Finish writes the per-shard statistics file.
func (r *Run) Finish() {
	if r.statsPath == "" {
		return
	}
	r.mu.Lock()
	defer r.mu.Unlock()
	hs := make([]uint64, 0, len(r.hashes))
	for h := range r.hashes {
		hs = append(hs, h)
	}
	sort.Slice(hs, func(i, j int) bool { return hs[i] < hs[j] })
	hb := make([]byte, 8*len(hs))
	for i, h := range hs {
		binary.LittleEndian.PutUint64(hb[8*i:], h)
	}
	_ = os.WriteFile(r.statsPath+".hashes", hb, 0o644)
	out := map[string]any{
		"property":   r.Prop,
		"tier":       r.Tier,
		"seed":       r.Seed,
		"shard":      r.Shard,
		"nshards":    r.NShards,
		"subs":       r.subs,
		"violations": r.violations,
		"known":      r.known,
		"hash_cap":   r.hashCap,
		"hashes":     len(hs),
		"wall_s":     time.Since(r.start).Seconds(),
		"replaying":  r.Replaying(),
		"failed":     r.t.Failed(),
	}
	b, _ := json.MarshalIndent(out, "", " ")
	_ = os.WriteFile(r.statsPath, b, 0o644)
}

// ---- breadcrumb: the case in flight, for faults that kill the process ----

var crumbFile *os.File

// Crumb records the input a check is about to hand to the library in the file crumb.bin of the working directory (one
// positioned write, no sync). A fault the Go runtime does not let a test recover from - stack exhaustion by unbounded
// recursion, "concurrent map writes" - kills the shard; the driver then finds the last input there and reports it.
func Crumb(entry string, in []byte) {
	if crumbFile == nil {
		f, err := os.OpenFile("crumb.bin", os.O_CREATE|os.O_WRONLY|os.O_TRUNC, 0o644)
		if err != nil {
			return
		}
		crumbFile = f
	}
	if len(in) > 4096 {
		in = in[:4096]
	}
	rec := fmt.Sprintf("%s %x\n", entry, in)
	_, _ = crumbFile.WriteAt([]byte(fmt.Sprintf("%08d\n%s", len(rec), rec)), 0)
}
