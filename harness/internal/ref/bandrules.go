package ref

// bandrules.go: the regional rules of the 14 channel plans in RULE form, written
// from the LoRaWAN Regional Parameters (RP002-1.0.3; 1.0.x / 1.1 regional
// parameters for the older CN470 plan), as summarised in DESIGN.md Appendix C.
// Nothing here is derived from the library under test and the library is not
// imported: every table of the implementation is re-stated as a formula plus a
// short list of constants.

import (
	"fmt"
	"strconv"
	"strings"
)

// BandDR is the definition of one data-rate index.
type BandDR struct {
	Modulation string // LORA | FSK | LR_FHSS
	SF         int    // LoRa spreading factor
	BW         int    // LoRa bandwidth, kHz
	BitRate    int    // FSK, bit/s
	CodingRate string // LR-FHSS, as printed in RP002 ("1/3", "2/3")
	OCW        int    // LR-FHSS occupied channel width, Hz
	Uplink     bool
	Downlink   bool
}

// BandChannel is one default channel.
type BandChannel struct {
	Frequency uint32 // Hz
	MinDR     int
	MaxDR     int
}

// RX1Kind classifies an (uplink data-rate, RX1DROffset) pair.
type RX1Kind int

const (
	// RX1Rule: the pair lies in the domain of the region's rule, the result is fixed.
	RX1Rule RX1Kind = iota
	// RX1Invalid: negative value, offset above the region's maximum, or an index
	// that is not a data-rate of the region. An error is required.
	RX1Invalid
	// RX1Unspecified: the index is a data-rate of the region but the region's RX1
	// table has no row for it (downlink-only data-rates, CN470 DR6/7 of the old
	// plan). Only the generic constraints apply.
	RX1Unspecified
)

type rx1Family int

const (
	rx1Floor0 rx1Family = iota // max(DR - off, 0)
	rx1US                      // min(13, max(8, DR + 10 - off))
	rx1AU                      // min(13, max(8, DR + 8 - off))
	rx1AS                      // min(5, max(MinDR, DR - eff(off))), MinDR = 2 under 400 ms downlink dwell time
	rx1IN                      // x = DR - eff(off); >= 7 -> 7 (FSK), 6 -> 5 (DR6 is RFU), < 0 -> 0
)

// BandRules is the rule description of one region.
type BandRules struct {
	Name string
	// Dynamic: channel plan with default channels plus channels added by the
	// network (CFList / NewChannelReq); otherwise a fixed plan.
	Dynamic  bool
	Uplink   []BandChannel
	Downlink []BandChannel

	RX2Frequency uint32
	RX2DataRate  int

	// Delays in seconds (identical in every region).
	ReceiveDelay1, ReceiveDelay2, JoinAcceptDelay1, JoinAcceptDelay2 int

	// RX1 channel: uplink index modulo RX1ChannelMod (0: same channel).
	RX1ChannelMod int

	// RX1 data-rate rule.
	rx1          rx1Family
	RX1MinDR     int         // rule domain, uplink data-rate
	RX1MaxDR     int         //
	RX1Alias     map[int]int // LR-FHSS uplink data-rates that use the row of a LoRa data-rate
	RX1MaxOffset int         // largest RX1DROffset of the region
	// RX1MonotonicMaxOffset is the largest of the region's positive offsets: the
	// offsets above it (AS923, IN865: 6 and 7) code -1 and -2.
	RX1MonotonicMaxOffset int

	// Ping slot: fixed frequency, or hopping over 8 channels.
	PingSlotFixed uint32 // 0: hopping
	PingSlotBase  uint32 // hopping: frequency of channel 0
	PingSlotStep  uint32 // hopping: channel spacing

	// TX power: index i means MaxEIRP - 2*i dB for i = 0..max. Where regional
	// parameter versions disagree on max every published value is listed.
	TXPowerMaxIndex []int

	DataRates map[int]BandDR
}

// BandNames lists the 14 band names.
func BandNames() []string {
	return []string{"EU868", "US915", "CN779", "EU433", "AU915", "CN470", "AS923", "AS923-2", "AS923-3", "AS923-4", "KR920", "IN865", "RU864", "ISM2400"}
}

func series(base, step uint32, n, minDR, maxDR int) []BandChannel {
	out := make([]BandChannel, n)
	for i := range out {
		out[i] = BandChannel{Frequency: base + uint32(i)*step, MinDR: minDR, MaxDR: maxDR}
	}
	return out
}

func khz(v ...uint32) []uint32 {
	out := make([]uint32, len(v))
	for i, x := range v {
		out[i] = x * 1000
	}
	return out
}

func channels(freqs []uint32, minDR, maxDR int) []BandChannel {
	out := make([]BandChannel, len(freqs))
	for i, f := range freqs {
		out[i] = BandChannel{Frequency: f, MinDR: minDR, MaxDR: maxDR}
	}
	return out
}

// loraRange defines data-rates first..first+n-1 as SF sfFirst, sfFirst-1, ... at bw kHz.
func loraRange(m map[int]BandDR, first, n, sfFirst, bw int, up, down bool) {
	for i := 0; i < n; i++ {
		m[first+i] = BandDR{Modulation: "LORA", SF: sfFirst - i, BW: bw, Uplink: up, Downlink: down}
	}
}

func fsk50(m map[int]BandDR, i int) {
	m[i] = BandDR{Modulation: "FSK", BitRate: 50000, Uplink: true, Downlink: true}
}

// lrfhss defines an uplink-only LR-FHSS data-rate (RP002-1.0.2 and later).
func lrfhss(m map[int]BandDR, i int, cr string, ocw int) {
	m[i] = BandDR{Modulation: "LR_FHSS", CodingRate: cr, OCW: ocw, Uplink: true}
}

func upTo(n int) []int { return []int{n} }

// dynamic builds a dynamic-plan region whose downlink channels are its uplink channels.
func dynamic(name string, freqs []uint32, chMaxDR int, rx2 uint32, rx2DR int, ping uint32, txMax int) *BandRules {
	r := &BandRules{
		Name: name, Dynamic: true,
		Uplink: channels(freqs, 0, chMaxDR), Downlink: channels(freqs, 0, chMaxDR),
		RX2Frequency: rx2, RX2DataRate: rx2DR,
		rx1: rx1Floor0, RX1MinDR: 0, RX1MaxDR: 7, RX1MaxOffset: 5, RX1MonotonicMaxOffset: 5,
		PingSlotFixed:   ping,
		TXPowerMaxIndex: upTo(txMax),
		DataRates:       map[int]BandDR{},
	}
	loraRange(r.DataRates, 0, 6, 12, 125, true, true) // DR0-5 = SF12-7 / 125 kHz
	return r
}

func buildBand(name string) *BandRules {
	var r *BandRules
	switch name {
	case "EU868":
		r = dynamic(name, khz(868100, 868300, 868500), 5, 869525000, 0, 869525000, 7)
		loraRange(r.DataRates, 6, 1, 7, 250, true, true)
		fsk50(r.DataRates, 7)
		lrfhss(r.DataRates, 8, "1/3", 137000)
		lrfhss(r.DataRates, 9, "2/3", 137000)
		lrfhss(r.DataRates, 10, "1/3", 336000)
		lrfhss(r.DataRates, 11, "2/3", 336000)
		// RP002-1.0.2: DR8 and DR10 use the RX1 row of DR1, DR9 and DR11 the row of DR2
		r.RX1Alias = map[int]int{8: 1, 9: 2, 10: 1, 11: 2}
	case "EU433":
		r = dynamic(name, khz(433175, 433375, 433575), 5, 434665000, 0, 434665000, 5)
		loraRange(r.DataRates, 6, 1, 7, 250, true, true)
		fsk50(r.DataRates, 7)
	case "CN779":
		r = dynamic(name, khz(779500, 779700, 779900), 5, 786000000, 0, 785000000, 5)
		loraRange(r.DataRates, 6, 1, 7, 250, true, true)
		fsk50(r.DataRates, 7)
	case "RU864":
		r = dynamic(name, khz(868900, 869100), 5, 869100000, 0, 868900000, 7)
		loraRange(r.DataRates, 6, 1, 7, 250, true, true)
		fsk50(r.DataRates, 7)
	case "IN865":
		r = dynamic(name, []uint32{865062500, 865402500, 865985000}, 5, 866550000, 2, 866550000, 10)
		fsk50(r.DataRates, 7) // DR6 is RFU
		r.rx1, r.RX1MaxOffset = rx1IN, 7
	case "KR920":
		r = dynamic(name, khz(922100, 922300, 922500), 5, 921900000, 0, 923100000, 7)
		r.RX1MaxDR = 5 // DR0-5 only
	case "AS923", "AS923-2", "AS923-3", "AS923-4":
		// group offsets of RP002-1.0.2+: 0, -1.80, -6.60, -5.90 MHz
		off := map[string]uint32{"AS923": 0, "AS923-2": 1800000, "AS923-3": 6600000, "AS923-4": 5900000}[name]
		r = dynamic(name, []uint32{923200000 - off, 923400000 - off}, 5, 923200000-off, 2, 923400000-off, 7)
		loraRange(r.DataRates, 6, 1, 7, 250, true, true)
		fsk50(r.DataRates, 7)
		r.rx1, r.RX1MaxOffset = rx1AS, 7
	case "ISM2400":
		r = dynamic(name, khz(2403000, 2425000, 2479000), 7, 2423000000, 0, 2424000000, 7)
		r.DataRates = map[int]BandDR{}
		loraRange(r.DataRates, 0, 8, 12, 812, true, true) // DR0-7 = SF12-5 / 812 kHz
	case "US915":
		r = &BandRules{
			Name:         name,
			Uplink:       append(series(902300000, 200000, 64, 0, 3), series(903000000, 1600000, 8, 4, 6)...), // 500 kHz channels: DR4, LR-FHSS DR5-6 (RP002-1.0.2+)
			Downlink:     series(923300000, 600000, 8, 8, 13),
			RX2Frequency: 923300000, RX2DataRate: 8,
			RX1ChannelMod: 8,
			rx1:           rx1US, RX1MinDR: 0, RX1MaxDR: 4, RX1Alias: map[int]int{5: 0, 6: 1}, RX1MaxOffset: 3, RX1MonotonicMaxOffset: 3,
			PingSlotBase: 923300000, PingSlotStep: 600000,
			// 0..10 in the 1.0.x / 1.1 regional parameters, 0..14 since RP002-1.0.0
			TXPowerMaxIndex: []int{10, 14},
			DataRates:       map[int]BandDR{},
		}
		loraRange(r.DataRates, 0, 4, 10, 125, true, false) // DR0-3 = SF10-7 / 125
		loraRange(r.DataRates, 4, 1, 8, 500, true, false)  // DR4 = SF8 / 500
		lrfhss(r.DataRates, 5, "1/3", 1523000)
		lrfhss(r.DataRates, 6, "2/3", 1523000)
		loraRange(r.DataRates, 8, 6, 12, 500, false, true) // DR8-13 = SF12-7 / 500, downlink
	case "AU915":
		r = &BandRules{
			Name:         name,
			Uplink:       append(series(915200000, 200000, 64, 0, 5), series(915900000, 1600000, 8, 6, 7)...), // 500 kHz channels: DR6, LR-FHSS DR7
			Downlink:     series(923300000, 600000, 8, 8, 13),
			RX2Frequency: 923300000, RX2DataRate: 8,
			RX1ChannelMod: 8,
			rx1:           rx1AU, RX1MinDR: 0, RX1MaxDR: 6, RX1Alias: map[int]int{7: 1}, RX1MaxOffset: 5, RX1MonotonicMaxOffset: 5,
			PingSlotBase: 923300000, PingSlotStep: 600000,
			TXPowerMaxIndex: upTo(14),
			DataRates:       map[int]BandDR{},
		}
		loraRange(r.DataRates, 0, 6, 12, 125, true, false) // DR0-5 = SF12-7 / 125
		loraRange(r.DataRates, 6, 1, 8, 500, true, false)  // DR6 = SF8 / 500
		lrfhss(r.DataRates, 7, "1/3", 1523000)
		loraRange(r.DataRates, 8, 6, 12, 500, false, true)
	case "CN470":
		// the 96 + 48 channel plan of the 1.0.x / 1.1 regional parameters
		r = &BandRules{
			Name:         name,
			Uplink:       series(470300000, 200000, 96, 0, 5),
			Downlink:     series(500300000, 200000, 48, 0, 5),
			RX2Frequency: 505300000, RX2DataRate: 0,
			RX1ChannelMod: 48,
			rx1:           rx1Floor0, RX1MinDR: 0, RX1MaxDR: 5, RX1MaxOffset: 5, RX1MonotonicMaxOffset: 5,
			PingSlotBase: 508300000, PingSlotStep: 200000,
			TXPowerMaxIndex: upTo(7),
			DataRates:       map[int]BandDR{},
		}
		loraRange(r.DataRates, 0, 6, 12, 125, true, true)
		loraRange(r.DataRates, 6, 1, 7, 500, true, true) // RP002-1.0.1+
		fsk50(r.DataRates, 7)                            // RP002-1.0.1+
	default:
		return nil
	}
	r.ReceiveDelay1, r.ReceiveDelay2, r.JoinAcceptDelay1, r.JoinAcceptDelay2 = 1, 2, 5, 6
	return r
}

var bandCache = func() map[string]*BandRules {
	m := map[string]*BandRules{}
	for _, n := range BandNames() {
		m[n] = buildBand(n)
	}
	return m
}()

// Band returns the rules of one region (nil for an unknown name). The value is shared: read only.
func Band(name string) *BandRules { return bandCache[name] }

// RX1Channel is the downlink channel index of the RX1 window for an uplink channel index.
func (r *BandRules) RX1Channel(uplink int) int {
	if r.RX1ChannelMod == 0 {
		return uplink
	}
	return uplink % r.RX1ChannelMod
}

func clamp(v, lo, hi int) int {
	if v < lo {
		return lo
	}
	if v > hi {
		return hi
	}
	return v
}

// effective offset of AS923 / IN865: 0..5, then 6 -> -1, 7 -> -2
func effOffset(off int) int {
	if off > 5 {
		return 5 - off
	}
	return off
}

// RX1DataRate classifies the pair and, for RX1Rule, returns the accepted result(s):
// a single value except for the one cell on which published sources disagree
// (IN865 DR5 / offset 7: 7 by the region's mapping table, 5 by the closed formula
// min(5, ...) used by the reference end-device stack).
func (r *BandRules) RX1DataRate(dr, off int, dwell400ms bool) (want []int, kind RX1Kind, why string) {
	switch {
	case dr < 0:
		return nil, RX1Invalid, "negative data-rate"
	case off < 0:
		return nil, RX1Invalid, "negative RX1DROffset"
	case off > r.RX1MaxOffset:
		return nil, RX1Invalid, fmt.Sprintf("RX1DROffset above the region's maximum %d", r.RX1MaxOffset)
	}
	def, ok := r.DataRates[dr]
	if !ok {
		return nil, RX1Invalid, fmt.Sprintf("DR%d is not a data-rate of %s", dr, r.Name)
	}
	row := dr
	if a, ok := r.RX1Alias[dr]; ok {
		row = a
	}
	if !def.Uplink || row < r.RX1MinDR || row > r.RX1MaxDR {
		return nil, RX1Unspecified, ""
	}
	switch r.rx1 {
	case rx1Floor0:
		return []int{clamp(row-off, 0, row)}, RX1Rule, "max(DR-offset, 0)"
	case rx1US:
		return []int{clamp(row+10-off, 8, 13)}, RX1Rule, "min(13, max(8, DR+10-offset))"
	case rx1AU:
		return []int{clamp(row+8-off, 8, 13)}, RX1Rule, "min(13, max(8, DR+8-offset))"
	case rx1AS:
		floor := 0
		if dwell400ms {
			floor = 2
		}
		return []int{clamp(row-effOffset(off), floor, 5)}, RX1Rule, fmt.Sprintf("min(5, max(%d, DR-eff(offset)))", floor)
	case rx1IN:
		x := row - effOffset(off)
		why = "DR-eff(offset), 7 and above -> 7, 6 (RFU) -> 5, below 0 -> 0"
		switch {
		case row == 5 && off == 7:
			return []int{7, 5}, RX1Rule, why + " (5 also accepted: sources disagree on this cell)"
		case x >= 7:
			return []int{7}, RX1Rule, why
		case x == 6:
			return []int{5}, RX1Rule, why
		}
		return []int{clamp(x, 0, 5)}, RX1Rule, why
	}
	return nil, RX1Unspecified, ""
}

// PingSlotChannel is the hopping channel (DevAddr + floor(beacon time / 128 s)) mod 8.
func PingSlotChannel(devAddr uint32, beaconSeconds uint64) int {
	return int((uint64(devAddr) + beaconSeconds/128) % 8)
}

// PingSlotFrequency is the Class-B ping-slot frequency.
func (r *BandRules) PingSlotFrequency(devAddr uint32, beaconSeconds uint64) uint32 {
	if r.PingSlotFixed != 0 {
		return r.PingSlotFixed
	}
	return r.PingSlotBase + uint32(PingSlotChannel(devAddr, beaconSeconds))*r.PingSlotStep
}

// TXPowerOffset is the offset in dB of TX power index i.
func TXPowerOffset(i int) int { return -2 * i }

// SameCodingRate compares two LR-FHSS coding rates as fractions ("4/6" is "2/3").
func SameCodingRate(a, b string) bool {
	if a == b {
		return true
	}
	na, da, ok1 := fraction(a)
	nb, db, ok2 := fraction(b)
	return ok1 && ok2 && na*db == nb*da
}

func fraction(s string) (n, d int, ok bool) {
	p := strings.Split(s, "/")
	if len(p) != 2 {
		return 0, 0, false
	}
	n, err1 := strconv.Atoi(p[0])
	d, err2 := strconv.Atoi(p[1])
	return n, d, err1 == nil && err2 == nil && d != 0
}
