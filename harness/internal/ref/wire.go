package ref

import (
	"encoding/binary"
	"errors"
	"fmt"
	"sort"
)

// ---------------------------------------------------------------------------
// Table-driven description of the MAC-command payloads (LoRaWAN 1.0.3 / 1.1 §5)
// ---------------------------------------------------------------------------

// Kind is the encoding of one field.
type Kind int

const (
	KBits    Kind = iota // Width bits of byte Off starting at bit Lo, unsigned
	KBool                // one bit
	KInt6                // 6-bit two's complement in bits [5:0] of byte Off
	KFreq                // 24-bit little-endian at Off, unit 100 Hz
	KFreq24G             // as KFreq, with the library's documented 2.4 GHz extension: raw >= 12 000 000 means unit 200 Hz
	KMask16              // 16-bit little-endian channel mask at Off
	KGPSTime             // 32-bit little-endian seconds at Off, then one byte of 1/256 s; value in nanoseconds
)

// Field describes where a value sits in a payload.
type Field struct {
	Name  string // path of the field in the library's payload struct (e.g. "Redundancy.ChMaskCntl")
	Off   int
	Lo    int
	Width int
	Kind  Kind
}

// Spec describes one MAC-command payload.
type Spec struct {
	Name   string
	CID    byte
	Uplink bool
	Len    int
	Fields []Field
}

func bits(name string, off, lo, width int) Field { return Field{name, off, lo, width, KBits} }
func flag(name string, off, bit int) Field       { return Field{name, off, bit, 1, KBool} }

// Specs lists every MAC command that carries a payload, per direction.
var Specs = []Spec{
	// sent by the end-device (uplink)
	{"ResetInd", 0x01, true, 1, []Field{bits("DevLoRaWANVersion.Minor", 0, 0, 4)}},
	{"LinkADRAns", 0x03, true, 1, []Field{flag("ChannelMaskACK", 0, 0), flag("DataRateACK", 0, 1), flag("PowerACK", 0, 2)}},
	{"RXParamSetupAns", 0x05, true, 1, []Field{flag("ChannelACK", 0, 0), flag("RX2DataRateACK", 0, 1), flag("RX1DROffsetACK", 0, 2)}},
	{"DevStatusAns", 0x06, true, 2, []Field{bits("Battery", 0, 0, 8), {"Margin", 1, 0, 6, KInt6}}},
	{"NewChannelAns", 0x07, true, 1, []Field{flag("ChannelFrequencyOK", 0, 0), flag("DataRateRangeOK", 0, 1)}},
	{"DLChannelAns", 0x0A, true, 1, []Field{flag("ChannelFrequencyOK", 0, 0), flag("UplinkFrequencyExists", 0, 1)}},
	{"RekeyInd", 0x0B, true, 1, []Field{bits("DevLoRaWANVersion.Minor", 0, 0, 4)}},
	{"RejoinParamSetupAns", 0x0F, true, 1, []Field{flag("TimeOK", 0, 0)}},
	{"PingSlotInfoReq", 0x10, true, 1, []Field{bits("Periodicity", 0, 0, 3)}},
	{"PingSlotChannelAns", 0x11, true, 1, []Field{flag("ChannelFrequencyOK", 0, 0), flag("DataRateOK", 0, 1)}},
	{"BeaconFreqAns", 0x13, true, 1, []Field{flag("BeaconFrequencyOK", 0, 0)}},
	{"DeviceModeInd", 0x20, true, 1, []Field{bits("Class", 0, 0, 8)}},
	// sent by the network (downlink)
	{"ResetConf", 0x01, false, 1, []Field{bits("ServLoRaWANVersion.Minor", 0, 0, 4)}},
	{"LinkCheckAns", 0x02, false, 2, []Field{bits("Margin", 0, 0, 8), bits("GwCnt", 1, 0, 8)}},
	{"LinkADRReq", 0x03, false, 4, []Field{bits("DataRate", 0, 4, 4), bits("TXPower", 0, 0, 4), {"ChMask", 1, 0, 16, KMask16}, bits("Redundancy.ChMaskCntl", 3, 4, 3), bits("Redundancy.NbRep", 3, 0, 4)}},
	{"DutyCycleReq", 0x04, false, 1, []Field{bits("MaxDCycle", 0, 0, 4)}},
	// DLSettings bit 7 is RFU in RXParamSetupReq; the library exposes the shared DLSettings type, whose bit 7 is OptNeg: modelled raw.
	{"RXParamSetupReq", 0x05, false, 4, []Field{flag("DLSettings.OptNeg", 0, 7), bits("DLSettings.RX1DROffset", 0, 4, 3), bits("DLSettings.RX2DataRate", 0, 0, 4), {"Frequency", 1, 0, 24, KFreq}}},
	{"NewChannelReq", 0x07, false, 5, []Field{bits("ChIndex", 0, 0, 8), {"Freq", 1, 0, 24, KFreq24G}, bits("MaxDR", 4, 4, 4), bits("MinDR", 4, 0, 4)}},
	{"RXTimingSetupReq", 0x08, false, 1, []Field{bits("Delay", 0, 0, 4)}},
	{"TXParamSetupReq", 0x09, false, 1, []Field{flag("DownlinkDwelltime", 0, 5), flag("UplinkDwellTime", 0, 4), bits("MaxEIRP", 0, 0, 4)}},
	{"DLChannelReq", 0x0A, false, 4, []Field{bits("ChIndex", 0, 0, 8), {"Freq", 1, 0, 24, KFreq}}},
	{"RekeyConf", 0x0B, false, 1, []Field{bits("ServLoRaWANVersion.Minor", 0, 0, 4)}},
	{"ADRParamSetupReq", 0x0C, false, 1, []Field{bits("ADRParam.LimitExp", 0, 4, 4), bits("ADRParam.DelayExp", 0, 0, 4)}},
	{"DeviceTimeAns", 0x0D, false, 5, []Field{{"TimeSinceGPSEpoch", 0, 0, 40, KGPSTime}}},
	{"ForceRejoinReq", 0x0E, false, 2, []Field{bits("RejoinType", 0, 4, 3), bits("DR", 0, 0, 4), bits("Period", 1, 3, 3), bits("MaxRetries", 1, 0, 3)}},
	{"RejoinParamSetupReq", 0x0F, false, 1, []Field{bits("MaxTimeN", 0, 4, 4), bits("MaxCountN", 0, 0, 4)}},
	{"PingSlotChannelReq", 0x11, false, 4, []Field{{"Frequency", 0, 0, 24, KFreq}, bits("DR", 3, 0, 4)}},
	{"BeaconFreqReq", 0x13, false, 3, []Field{{"Frequency", 0, 0, 24, KFreq}}},
	{"DeviceModeConf", 0x20, false, 1, []Field{bits("Class", 0, 0, 8)}},
}

// PayloadlessCIDs lists the commands without payload per direction (true = uplink).
var PayloadlessCIDs = map[bool][]byte{
	true:  {0x02, 0x04, 0x08, 0x09, 0x0C, 0x0D},
	false: {0x06, 0x10},
}

// SpecFor returns the payload description of (direction, CID) or nil.
func SpecFor(uplink bool, cid byte) *Spec {
	for i := range Specs {
		if Specs[i].Uplink == uplink && Specs[i].CID == cid {
			return &Specs[i]
		}
	}
	return nil
}

// SpecByName looks a payload description up by its name.
func SpecByName(name string) *Spec {
	for i := range Specs {
		if Specs[i].Name == name {
			return &Specs[i]
		}
	}
	return nil
}

// Vals holds the field values of one payload, keyed by Field.Name.
type Vals map[string]int64

// Range returns the inclusive range of spec-valid values of a field.
func (f Field) Range() (lo, hi int64) {
	switch f.Kind {
	case KBool:
		return 0, 1
	case KInt6:
		return -32, 31
	case KFreq:
		return 0, (1<<24 - 1) * 100
	case KFreq24G:
		return 0, (1<<24 - 1) * 200
	case KMask16:
		return 0, 0xffff
	case KGPSTime:
		return 0, (1<<32-1)*1e9 + 255*3906250
	default:
		return 0, 1<<uint(f.Width) - 1
	}
}

// Representable tells whether v is exactly representable on the wire.
func (f Field) Representable(v int64) bool {
	lo, hi := f.Range()
	if v < lo || v > hi {
		return false
	}
	switch f.Kind {
	case KFreq:
		return v%100 == 0
	case KFreq24G:
		if v >= 2400000000 {
			return v%200 == 0 && v/200 <= 1<<24-1
		}
		// below 2.4 GHz the unit is 100 Hz, but raw values >= 12 000 000 are read back in 200 Hz units
		return v%100 == 0 && v/100 < 12000000
	}
	return true
}

// Encode serialises the payload; every value must be representable.
func (s *Spec) Encode(v Vals) ([]byte, error) {
	b := make([]byte, s.Len)
	for _, f := range s.Fields {
		x, ok := v[f.Name]
		if !ok {
			return nil, fmt.Errorf("ref: %s: field %s missing", s.Name, f.Name)
		}
		if s.Name == "DutyCycleReq" && x == 255 {
			// LoRaWAN 1.0 - 1.0.2: MaxDCycle is the whole octet and 255 means "become silent immediately"; from 1.0.3 on the
			// field has 4 bits. 255 is the one value of the old reading that the 4-bit layout cannot carry.
			b[f.Off] = 0xff
			continue
		}
		if !f.Representable(x) {
			return nil, fmt.Errorf("ref: %s.%s=%d is not representable", s.Name, f.Name, x)
		}
		switch f.Kind {
		case KBits, KBool:
			b[f.Off] |= byte(x) << uint(f.Lo)
		case KInt6:
			b[f.Off] |= byte(x) & 0x3f
		case KFreq:
			put24(b[f.Off:], uint32(x/100))
		case KFreq24G:
			if x >= 2400000000 {
				put24(b[f.Off:], uint32(x/200))
			} else {
				put24(b[f.Off:], uint32(x/100))
			}
		case KMask16:
			binary.LittleEndian.PutUint16(b[f.Off:], uint16(x))
		case KGPSTime:
			binary.LittleEndian.PutUint32(b[f.Off:], uint32(x/1e9))
			b[f.Off+4] = byte((x % 1e9) / 3906250)
		}
	}
	return b, nil
}

// Decode reads the field values; reserved bits are ignored.
func (s *Spec) Decode(b []byte) (Vals, error) {
	if len(b) != s.Len {
		return nil, fmt.Errorf("ref: %s: %d bytes expected, got %d", s.Name, s.Len, len(b))
	}
	v := Vals{}
	for _, f := range s.Fields {
		if s.Name == "DutyCycleReq" && b[f.Off] == 0xff {
			v[f.Name] = 255 // see Encode
			continue
		}
		switch f.Kind {
		case KBits, KBool:
			v[f.Name] = int64(b[f.Off]>>uint(f.Lo)) & (1<<uint(f.Width) - 1)
		case KInt6:
			x := int64(b[f.Off] & 0x3f)
			if x >= 32 {
				x -= 64
			}
			v[f.Name] = x
		case KFreq:
			v[f.Name] = int64(get24(b[f.Off:])) * 100
		case KFreq24G:
			raw := int64(get24(b[f.Off:]))
			if raw >= 12000000 {
				v[f.Name] = raw * 200
			} else {
				v[f.Name] = raw * 100
			}
		case KMask16:
			v[f.Name] = int64(binary.LittleEndian.Uint16(b[f.Off:]))
		case KGPSTime:
			v[f.Name] = int64(binary.LittleEndian.Uint32(b[f.Off:]))*1e9 + int64(b[f.Off+4])*3906250
		}
	}
	return v, nil
}

// RFUMask returns, per payload byte, the bits that no field covers.
func (s *Spec) RFUMask() []byte {
	m := make([]byte, s.Len)
	for i := range m {
		m[i] = 0xff
	}
	for _, f := range s.Fields {
		switch f.Kind {
		case KBits, KBool:
			m[f.Off] &^= (1<<uint(f.Width) - 1) << uint(f.Lo)
		case KInt6:
			m[f.Off] &^= 0x3f
		case KFreq, KFreq24G:
			m[f.Off], m[f.Off+1], m[f.Off+2] = 0, 0, 0
		case KMask16:
			m[f.Off], m[f.Off+1] = 0, 0
		case KGPSTime:
			for i := 0; i < 5; i++ {
				m[f.Off+i] = 0
			}
		}
	}
	return m
}

func put24(b []byte, v uint32) { b[0], b[1], b[2] = byte(v), byte(v>>8), byte(v>>16) }
func get24(b []byte) uint32    { return uint32(b[0]) | uint32(b[1])<<8 | uint32(b[2])<<16 }

// Names returns the field names in a stable order.
func (v Vals) Names() []string {
	n := make([]string, 0, len(v))
	for k := range v {
		n = append(n, k)
	}
	sort.Strings(n)
	return n
}

// Equal compares two value sets.
func (v Vals) Equal(o Vals) bool {
	if len(v) != len(o) {
		return false
	}
	for k, x := range v {
		if y, ok := o[k]; !ok || x != y {
			return false
		}
	}
	return true
}

// Cmd is one MAC command in model form.
type Cmd struct {
	CID  byte   `json:"cid"`
	Name string `json:"name,omitempty"` // spec name when the CID carries a payload in this direction
	Vals Vals   `json:"vals,omitempty"`
	Raw  []byte `json:"raw,omitempty"` // proprietary payload bytes
}

// PropSizes gives the registered payload size of proprietary CIDs per direction.
type PropSizes map[bool]map[byte]int

// PayloadLen is the stream-framing rule: the payload length of (direction, CID).
func PayloadLen(uplink bool, cid byte, prop PropSizes) int {
	if s := SpecFor(uplink, cid); s != nil {
		return s.Len
	}
	if cid >= 0x80 && prop != nil {
		return prop[uplink][cid]
	}
	return 0
}

// EncodeCmds concatenates commands.
func EncodeCmds(uplink bool, cmds []Cmd) ([]byte, error) {
	var out []byte
	for _, c := range cmds {
		out = append(out, c.CID)
		if s := SpecFor(uplink, c.CID); s != nil && c.Vals != nil {
			b, err := s.Encode(c.Vals)
			if err != nil {
				return nil, err
			}
			out = append(out, b...)
		} else {
			out = append(out, c.Raw...)
		}
	}
	return out, nil
}

// DecodeCmds splits a stream with the framing rule.
func DecodeCmds(uplink bool, b []byte, prop PropSizes) ([]Cmd, error) {
	var out []Cmd
	for i := 0; i < len(b); {
		cid := b[i]
		n := PayloadLen(uplink, cid, prop)
		if i+1+n > len(b) {
			return nil, errors.New("ref: not enough remaining bytes")
		}
		c := Cmd{CID: cid}
		if s := SpecFor(uplink, cid); s != nil {
			v, err := s.Decode(b[i+1 : i+1+n])
			if err != nil {
				return nil, err
			}
			c.Name, c.Vals = s.Name, v
		} else if n > 0 {
			c.Raw = append([]byte{}, b[i+1:i+1+n]...)
		}
		out = append(out, c)
		i += 1 + n
	}
	return out, nil
}

// ---------------------------------------------------------------------------
// Frames (LoRaWAN 1.0.3 / 1.1 §4, §6)
// ---------------------------------------------------------------------------

// MTypes.
const (
	MTJoinRequest = iota
	MTJoinAccept
	MTUnconfUp
	MTUnconfDown
	MTConfUp
	MTConfDown
	MTRejoin
	MTProprietary
)

// IsUplinkMType tells the direction of a message type (proprietary counts as downlink in the library's convention; it has no direction).
func IsUplinkMType(mt byte) bool {
	return mt == MTJoinRequest || mt == MTUnconfUp || mt == MTConfUp || mt == MTRejoin
}

// IsData tells whether mt is one of the four data message types.
func IsData(mt byte) bool { return mt >= MTUnconfUp && mt <= MTConfDown }

// CFList in model form.
type CFList struct {
	Type  byte     `json:"type"`            // 0 channels, 1 masks
	Freqs [5]int64 `json:"freqs,omitempty"` // Hz
	Masks []uint16 `json:"masks,omitempty"` // up to 7 on the wire (14 bytes + 1 RFU byte)
}

// Frame is a LoRaWAN PHYPayload in model form.
type Frame struct {
	MType byte `json:"mtype"`
	Major byte `json:"major"`
	// data frames
	DevAddr   uint32 `json:"devaddr,omitempty"`
	ADR       bool   `json:"adr,omitempty"`
	ADRACKReq bool   `json:"adrackreq,omitempty"`
	ACK       bool   `json:"ack,omitempty"`
	FPending  bool   `json:"fpending,omitempty"` // ClassB in uplinks: the same bit
	FCnt      uint32 `json:"fcnt,omitempty"`
	FOpts     []byte `json:"fopts,omitempty"`
	FPort     int    `json:"fport"` // -1: absent
	FRM       []byte `json:"frm,omitempty"`
	// join-request / rejoin
	JoinEUI    uint64 `json:"joineui,omitempty"`
	DevEUI     uint64 `json:"deveui,omitempty"`
	DevNonce   uint16 `json:"devnonce,omitempty"`
	RejoinType byte   `json:"rejointype,omitempty"`
	NetID      uint32 `json:"netid,omitempty"`
	RJCount    uint16 `json:"rjcount,omitempty"`
	// join-accept (clear text)
	JoinNonce   uint32  `json:"joinnonce,omitempty"`
	OptNeg      bool    `json:"optneg,omitempty"`
	RX1DROffset byte    `json:"rx1droffset,omitempty"`
	RX2DR       byte    `json:"rx2dr,omitempty"`
	RXDelay     byte    `json:"rxdelay,omitempty"`
	CFList      *CFList `json:"cflist,omitempty"`
	// proprietary / opaque
	Opaque []byte  `json:"opaque,omitempty"`
	MIC    [4]byte `json:"mic"`
}

// MHDR byte.
func (f *Frame) MHDR() byte { return f.MType<<5 | f.Major&3 }

// FCtrl byte.
func (f *Frame) FCtrl() byte {
	var b byte
	if f.ADR {
		b |= 0x80
	}
	if f.ADRACKReq {
		b |= 0x40
	}
	if f.ACK {
		b |= 0x20
	}
	if f.FPending {
		b |= 0x10
	}
	return b | byte(len(f.FOpts))&0x0f
}

// EncodeCFList gives the 16 CFList bytes.
func (c *CFList) Encode() []byte {
	b := make([]byte, 16)
	if c.Type == 0 {
		for i, fr := range c.Freqs {
			put24(b[3*i:], uint32(fr/100))
		}
	} else {
		for i, m := range c.Masks {
			binary.LittleEndian.PutUint16(b[2*i:], m)
		}
	}
	b[15] = c.Type
	return b
}

// DecodeCFList reads 16 CFList bytes. Masks are returned without trailing zero masks.
func DecodeCFList(b []byte) *CFList {
	c := &CFList{Type: b[15]}
	if c.Type == 1 {
		for i := 0; i < 7; i++ {
			c.Masks = append(c.Masks, binary.LittleEndian.Uint16(b[2*i:]))
		}
		c.Masks = TrimMasks(c.Masks)
	} else {
		for i := 0; i < 5; i++ {
			c.Freqs[i] = int64(get24(b[3*i:])) * 100
		}
	}
	return c
}

// TrimMasks removes trailing all-zero masks (their count is not on the wire).
func TrimMasks(m []uint16) []uint16 {
	for len(m) > 0 && m[len(m)-1] == 0 {
		m = m[:len(m)-1]
	}
	return m
}

// MACPayloadBytes returns the bytes between MHDR and MIC.
func (f *Frame) MACPayloadBytes() []byte {
	var b []byte
	switch {
	case IsData(f.MType):
		b = append(b, le(uint64(f.DevAddr), 4)...)
		b = append(b, f.FCtrl())
		b = append(b, le(uint64(f.FCnt&0xffff), 2)...)
		b = append(b, f.FOpts...)
		if f.FPort >= 0 {
			b = append(b, byte(f.FPort))
			b = append(b, f.FRM...)
		}
	case f.MType == MTJoinRequest:
		b = append(b, le(f.JoinEUI, 8)...)
		b = append(b, le(f.DevEUI, 8)...)
		b = append(b, le(uint64(f.DevNonce), 2)...)
	case f.MType == MTRejoin:
		b = append(b, f.RejoinType)
		if f.RejoinType == 1 {
			b = append(b, le(f.JoinEUI, 8)...)
		} else {
			b = append(b, le(uint64(f.NetID), 3)...)
		}
		b = append(b, le(f.DevEUI, 8)...)
		b = append(b, le(uint64(f.RJCount), 2)...)
	case f.MType == MTJoinAccept:
		b = append(b, le(uint64(f.JoinNonce), 3)...)
		b = append(b, le(uint64(f.NetID), 3)...)
		b = append(b, le(uint64(f.DevAddr), 4)...)
		dl := f.RX1DROffset&7<<4 | f.RX2DR&0x0f
		if f.OptNeg {
			dl |= 0x80
		}
		b = append(b, dl, f.RXDelay&0x0f)
		if f.CFList != nil {
			b = append(b, f.CFList.Encode()...)
		}
	default:
		b = append(b, f.Opaque...)
	}
	return b
}

// Encode returns MHDR | MACPayload | MIC (join-accepts in clear text).
func (f *Frame) Encode() []byte {
	b := []byte{f.MHDR()}
	b = append(b, f.MACPayloadBytes()...)
	return append(b, f.MIC[:]...)
}

// Msg returns MHDR | MACPayload, the MIC input.
func (f *Frame) Msg() []byte { return append([]byte{f.MHDR()}, f.MACPayloadBytes()...) }

// DecodeFrame parses a PHYPayload; join-accepts must be given in clear text
// (clearJoinAccept) or are returned opaque.
func DecodeFrame(b []byte, clearJoinAccept bool) (*Frame, error) {
	if len(b) < 5 {
		return nil, errors.New("ref: PHYPayload shorter than 5 bytes")
	}
	f := &Frame{MType: b[0] >> 5, Major: b[0] & 3, FPort: -1}
	copy(f.MIC[:], b[len(b)-4:])
	p := b[1 : len(b)-4]
	switch {
	case IsData(f.MType):
		if len(p) < 7 {
			return nil, errors.New("ref: FHDR shorter than 7 bytes")
		}
		f.DevAddr = binary.LittleEndian.Uint32(p)
		fc := p[4]
		f.ADR, f.ADRACKReq, f.ACK, f.FPending = fc&0x80 != 0, fc&0x40 != 0, fc&0x20 != 0, fc&0x10 != 0
		n := int(fc & 0x0f)
		f.FCnt = uint32(binary.LittleEndian.Uint16(p[5:]))
		if len(p) < 7+n {
			return nil, errors.New("ref: FOptsLen exceeds the frame")
		}
		f.FOpts = append([]byte{}, p[7:7+n]...)
		if len(p) > 7+n {
			f.FPort = int(p[7+n])
			f.FRM = append([]byte{}, p[8+n:]...)
		}
	case f.MType == MTJoinRequest:
		if len(p) != 18 {
			return nil, errors.New("ref: join-request payload must be 18 bytes")
		}
		f.JoinEUI, f.DevEUI, f.DevNonce = binary.LittleEndian.Uint64(p), binary.LittleEndian.Uint64(p[8:]), binary.LittleEndian.Uint16(p[16:])
	case f.MType == MTRejoin:
		if len(p) < 1 {
			return nil, errors.New("ref: empty rejoin-request")
		}
		f.RejoinType = p[0]
		switch p[0] {
		case 0, 2:
			if len(p) != 14 {
				return nil, errors.New("ref: rejoin-request type 0/2 must be 14 bytes")
			}
			f.NetID = get24(p[1:])
			f.DevEUI, f.RJCount = binary.LittleEndian.Uint64(p[4:]), binary.LittleEndian.Uint16(p[12:])
		case 1:
			if len(p) != 19 {
				return nil, errors.New("ref: rejoin-request type 1 must be 19 bytes")
			}
			f.JoinEUI, f.DevEUI, f.RJCount = binary.LittleEndian.Uint64(p[1:]), binary.LittleEndian.Uint64(p[9:]), binary.LittleEndian.Uint16(p[17:])
		default:
			return nil, errors.New("ref: unknown rejoin type")
		}
	case f.MType == MTJoinAccept && clearJoinAccept:
		if len(p) != 12 && len(p) != 28 {
			return nil, errors.New("ref: join-accept payload must be 12 or 28 bytes")
		}
		f.JoinNonce, f.NetID, f.DevAddr = get24(p), get24(p[3:]), binary.LittleEndian.Uint32(p[6:])
		f.OptNeg, f.RX1DROffset, f.RX2DR = p[10]&0x80 != 0, p[10]>>4&7, p[10]&0x0f
		f.RXDelay = p[11] & 0x0f
		if len(p) == 28 {
			f.CFList = DecodeCFList(p[12:])
		}
	default:
		f.Opaque = append([]byte{}, p...)
	}
	return f, nil
}
