// Package ref holds the reference models the oracles are built on. Nothing in
// this package imports the library under test or its dependencies; the only
// trusted primitive is crypto/aes of the standard library.
package ref

import (
	"bytes"
	"crypto/aes"
	"encoding/binary"
	"encoding/hex"
	"errors"
	"fmt"
)

// Key is a 128 bit AES key.
type Key [16]byte

func aesEnc(k []byte, in []byte) []byte {
	c, err := aes.NewCipher(k)
	if err != nil {
		panic(err)
	}
	out := make([]byte, 16)
	c.Encrypt(out, in)
	return out
}

func aesDec(k []byte, in []byte) []byte {
	c, err := aes.NewCipher(k)
	if err != nil {
		panic(err)
	}
	out := make([]byte, 16)
	c.Decrypt(out, in)
	return out
}

// ---- AES-CMAC, RFC 4493 ----

func dbl(in []byte) []byte {
	out := make([]byte, 16)
	var carry byte
	for i := 15; i >= 0; i-- {
		out[i] = in[i]<<1 | carry
		carry = in[i] >> 7
	}
	if carry != 0 {
		out[15] ^= 0x87
	}
	return out
}

// CMAC returns the 16 byte AES-CMAC of msg under key k.
func CMAC(k []byte, msg []byte) []byte {
	l := aesEnc(k, make([]byte, 16))
	k1 := dbl(l)
	k2 := dbl(k1)
	n := (len(msg) + 15) / 16
	complete := n > 0 && len(msg)%16 == 0
	if n == 0 {
		n = 1
	}
	last := make([]byte, 16)
	if complete {
		copy(last, msg[16*(n-1):])
		for i := range last {
			last[i] ^= k1[i]
		}
	} else {
		rem := msg[16*(n-1):]
		copy(last, rem)
		last[len(rem)] = 0x80
		for i := range last {
			last[i] ^= k2[i]
		}
	}
	x := make([]byte, 16)
	y := make([]byte, 16)
	for i := 0; i < n-1; i++ {
		for j := 0; j < 16; j++ {
			y[j] = x[j] ^ msg[16*i+j]
		}
		x = aesEnc(k, y)
	}
	for j := 0; j < 16; j++ {
		y[j] = x[j] ^ last[j]
	}
	return aesEnc(k, y)
}

func unhex(s string) []byte {
	b, err := hex.DecodeString(s)
	if err != nil {
		panic(err)
	}
	return b
}

// SelfTest checks the models against the published vectors (RFC 4493 §4,
// RFC 3394 §4.1, §4.3, §4.6). It is called at the start of every property run
// that uses them.
func SelfTest() error {
	k := unhex("2b7e151628aed2a6abf7158809cf4f3c")
	m := unhex("6bc1bee22e409f96e93d7e117393172aae2d8a571e03ac9c9eb76fac45af8e5130c81c46a35ce411e5fbc1191a0a52eff69f2445df4f9b17ad2b417be66c3710")
	for _, v := range []struct {
		n   int
		mac string
	}{{0, "bb1d6929e95937287fa37d129b756746"}, {16, "070a16b46b4d4144f79bdd9dd04a287c"}, {40, "dfa66747de9ae63030ca32611497c827"}, {64, "51f0bebf7e3b9d92fc49741779363cfe"}} {
		if got := CMAC(k, m[:v.n]); !bytes.Equal(got, unhex(v.mac)) {
			return fmt.Errorf("ref: CMAC self-test failed for length %d: %x", v.n, got)
		}
	}
	kek := unhex("000102030405060708090A0B0C0D0E0F")
	data := unhex("00112233445566778899AABBCCDDEEFF")
	w, err := KeyWrap(kek, data)
	if err != nil || !bytes.Equal(w, unhex("1FA68B0A8112B447AEF34BD8FB5A7B829D3E862371D2CFE5")) {
		return fmt.Errorf("ref: RFC 3394 128/128 wrap self-test failed: %x %v", w, err)
	}
	if u, err := KeyUnwrap(kek, w); err != nil || !bytes.Equal(u, data) {
		return fmt.Errorf("ref: RFC 3394 unwrap self-test failed")
	}
	kek = unhex("000102030405060708090A0B0C0D0E0F101112131415161718191A1B1C1D1E1F")
	w, err = KeyWrap(kek, data)
	if err != nil || !bytes.Equal(w, unhex("64E8C3F9CE0F5BA263E9777905818A2A93C8191E7D6E8AE7")) {
		return fmt.Errorf("ref: RFC 3394 256/128 wrap self-test failed: %x %v", w, err)
	}
	data = unhex("00112233445566778899AABBCCDDEEFF000102030405060708090A0B0C0D0E0F")
	w, err = KeyWrap(kek, data)
	if err != nil || !bytes.Equal(w, unhex("28C9F404C4B810F4CBCCB35CFB87F8263F5786E2D80ED326CBC7F0E71A99F43BFB988B9B7A02DD21")) {
		return fmt.Errorf("ref: RFC 3394 256/256 wrap self-test failed: %x %v", w, err)
	}
	w[3] ^= 1
	if _, err := KeyUnwrap(kek, w); err == nil {
		return errors.New("ref: RFC 3394 unwrap accepted a corrupted envelope")
	}
	return nil
}

// ---- RFC 3394 key wrap ----

var kwIV = []byte{0xA6, 0xA6, 0xA6, 0xA6, 0xA6, 0xA6, 0xA6, 0xA6}

// KeyWrap wraps plaintext (a multiple of 8 bytes, at least 16) under kek.
func KeyWrap(kek, pt []byte) ([]byte, error) { return KeyWrapIV(kek, pt, kwIV) }

// KeyWrapIV is the RFC 3394 wrap with another initial value than A6A6A6A6A6A6A6A6: what it produces must NOT pass
// the integrity check of a conforming unwrap.
func KeyWrapIV(kek, pt, iv []byte) ([]byte, error) {
	if len(pt)%8 != 0 || len(pt) < 16 || len(iv) != 8 {
		return nil, errors.New("ref: key wrap input must be n*8 bytes, n>=2")
	}
	n := len(pt) / 8
	a := append([]byte{}, iv...)
	r := make([][]byte, n)
	for i := range r {
		r[i] = append([]byte{}, pt[8*i:8*i+8]...)
	}
	for j := 0; j < 6; j++ {
		for i := 0; i < n; i++ {
			b := aesEnc(kek, append(append([]byte{}, a...), r[i]...))
			t := uint64(n*j + i + 1)
			var tb [8]byte
			binary.BigEndian.PutUint64(tb[:], t)
			for x := 0; x < 8; x++ {
				a[x] = b[x] ^ tb[x]
			}
			copy(r[i], b[8:])
		}
	}
	out := append([]byte{}, a...)
	for i := range r {
		out = append(out, r[i]...)
	}
	return out, nil
}

// KeyUnwrap unwraps and checks the integrity value.
func KeyUnwrap(kek, ct []byte) ([]byte, error) {
	if len(ct)%8 != 0 || len(ct) < 24 {
		return nil, errors.New("ref: key unwrap input must be (n+1)*8 bytes, n>=2")
	}
	n := len(ct)/8 - 1
	a := append([]byte{}, ct[:8]...)
	r := make([][]byte, n)
	for i := range r {
		r[i] = append([]byte{}, ct[8*(i+1):8*(i+2)]...)
	}
	for j := 5; j >= 0; j-- {
		for i := n - 1; i >= 0; i-- {
			t := uint64(n*j + i + 1)
			var tb [8]byte
			binary.BigEndian.PutUint64(tb[:], t)
			in := make([]byte, 16)
			for x := 0; x < 8; x++ {
				in[x] = a[x] ^ tb[x]
			}
			copy(in[8:], r[i])
			b := aesDec(kek, in)
			copy(a, b[:8])
			copy(r[i], b[8:])
		}
	}
	if !bytes.Equal(a, kwIV) {
		return nil, errors.New("ref: key unwrap integrity check failed")
	}
	var out []byte
	for i := range r {
		out = append(out, r[i]...)
	}
	return out, nil
}

// ---- LoRaWAN 1.0.x / 1.1 crypto blocks ----

func dirByte(uplink bool) byte {
	if uplink {
		return 0
	}
	return 1
}

// Keystream XORs data with S_1|S_2|... where S_i = AES(K, A_i),
// A_i = 0x01 | 4x00 | Dir | DevAddr(LE) | FCnt(LE32) | 0x00 | i.
func Keystream(k Key, uplink bool, devAddr uint32, fCnt uint32, data []byte) []byte {
	out := make([]byte, len(data))
	a := make([]byte, 16)
	a[0] = 0x01
	a[5] = dirByte(uplink)
	binary.LittleEndian.PutUint32(a[6:], devAddr)
	binary.LittleEndian.PutUint32(a[10:], fCnt)
	for i := 0; i*16 < len(data); i++ {
		a[15] = byte(i + 1)
		s := aesEnc(k[:], a)
		for j := 0; j < 16 && i*16+j < len(data); j++ {
			out[i*16+j] = data[i*16+j] ^ s[j]
		}
	}
	return out
}

// FOptsStream XORs at most 15 bytes with the LoRaWAN 1.1 FOpts block
// A = 0x01 | 3x00 | (0x01 FCntUp/NFCntDown, 0x02 AFCntDown) | Dir | DevAddr | FCnt | 0x00 | 0x01
// (the form of the 1.1 errata, which the library documents).
func FOptsStream(k Key, aFCntDown, uplink bool, devAddr uint32, fCnt uint32, data []byte) []byte {
	a := make([]byte, 16)
	a[0] = 0x01
	a[4] = 0x01
	if aFCntDown {
		a[4] = 0x02
	}
	a[5] = dirByte(uplink)
	binary.LittleEndian.PutUint32(a[6:], devAddr)
	binary.LittleEndian.PutUint32(a[10:], fCnt)
	a[15] = 0x01
	s := aesEnc(k[:], a)
	out := make([]byte, len(data))
	for i := range data {
		out[i] = data[i] ^ s[i]
	}
	return out
}

// MICParams are the inputs of the data-frame MIC.
type MICParams struct {
	V11      bool
	Uplink   bool
	ACK      bool
	DevAddr  uint32
	FCnt     uint32
	ConfFCnt uint32
	TxDR     uint8
	TxCh     uint8
	FNwkSInt Key // 1.0: NwkSKey (uplink)
	SNwkSInt Key // 1.1 uplink cmacS; downlink key (1.0: NwkSKey)
}

// DataMIC computes the MIC of msg = MHDR | FHDR | FPort | FRMPayload.
func DataMIC(p MICParams, msg []byte) [4]byte {
	var mic [4]byte
	conf := uint16(0)
	if p.ACK {
		conf = uint16(p.ConfFCnt)
	}
	b0 := make([]byte, 16)
	b0[0] = 0x49
	b0[5] = dirByte(p.Uplink)
	binary.LittleEndian.PutUint32(b0[6:], p.DevAddr)
	binary.LittleEndian.PutUint32(b0[10:], p.FCnt)
	b0[15] = byte(len(msg))
	if !p.Uplink {
		if p.V11 {
			binary.LittleEndian.PutUint16(b0[1:], conf)
		}
		copy(mic[:], CMAC(p.SNwkSInt[:], append(b0, msg...)))
		return mic
	}
	cmacF := CMAC(p.FNwkSInt[:], append(append([]byte{}, b0...), msg...))
	if !p.V11 {
		copy(mic[:], cmacF)
		return mic
	}
	b1 := append([]byte{}, b0...)
	binary.LittleEndian.PutUint16(b1[1:], conf)
	b1[3] = p.TxDR
	b1[4] = p.TxCh
	cmacS := CMAC(p.SNwkSInt[:], append(b1, msg...))
	copy(mic[0:2], cmacS[0:2])
	copy(mic[2:4], cmacF[0:2])
	return mic
}

// JoinMIC is the MIC of join-requests and rejoin-requests: CMAC(key, MHDR|payload)[0..3].
func JoinMIC(k Key, mhdrAndPayload []byte) [4]byte {
	var mic [4]byte
	copy(mic[:], CMAC(k[:], mhdrAndPayload))
	return mic
}

func le(v uint64, n int) []byte {
	b := make([]byte, n)
	for i := 0; i < n; i++ {
		b[i] = byte(v >> (8 * uint(i)))
	}
	return b
}

// JoinAcceptMIC: 1.0 form over MHDR|payload; with optNeg the 1.1 form over
// JoinReqType | JoinEUI(LE) | DevNonce(LE) | MHDR | payload.
func JoinAcceptMIC(k Key, optNeg bool, joinReqType byte, joinEUI uint64, devNonce uint16, mhdrAndPayload []byte) [4]byte {
	var in []byte
	if optNeg {
		in = append(in, joinReqType)
		in = append(in, le(joinEUI, 8)...)
		in = append(in, le(uint64(devNonce), 2)...)
	}
	in = append(in, mhdrAndPayload...)
	var mic [4]byte
	copy(mic[:], CMAC(k[:], in))
	return mic
}

// JoinAcceptEncrypt is what the network does: AES-decrypt in ECB over payload|MIC.
func JoinAcceptEncrypt(k Key, payloadAndMIC []byte) []byte {
	out := make([]byte, 0, len(payloadAndMIC))
	for i := 0; i+16 <= len(payloadAndMIC); i += 16 {
		out = append(out, aesDec(k[:], payloadAndMIC[i:i+16])...)
	}
	return out
}

// JoinAcceptDecrypt is what the device does: AES-encrypt in ECB.
func JoinAcceptDecrypt(k Key, ct []byte) []byte {
	out := make([]byte, 0, len(ct))
	for i := 0; i+16 <= len(ct); i += 16 {
		out = append(out, aesEnc(k[:], ct[i:i+16])...)
	}
	return out
}

func block(first byte, parts ...[]byte) []byte {
	b := make([]byte, 0, 16)
	b = append(b, first)
	for _, p := range parts {
		b = append(b, p...)
	}
	for len(b) < 16 {
		b = append(b, 0)
	}
	return b
}

func toKey(b []byte) Key {
	var k Key
	copy(k[:], b)
	return k
}

// SessionKeys10 derives NwkSKey (0x01) and AppSKey (0x02) per LoRaWAN 1.0.x.
func SessionKeys10(nwkKey Key, joinNonce uint32, netID uint32, devNonce uint16) (nwkSKey, appSKey Key) {
	tail := [][]byte{le(uint64(joinNonce), 3), le(uint64(netID), 3), le(uint64(devNonce), 2)}
	return toKey(aesEnc(nwkKey[:], block(0x01, tail...))), toKey(aesEnc(nwkKey[:], block(0x02, tail...)))
}

// SessionKeys11 derives the four 1.1 session keys.
func SessionKeys11(nwkKey, appKey Key, joinNonce uint32, joinEUI uint64, devNonce uint16) (fNwkSInt, appS, sNwkSInt, nwkSEnc Key) {
	tail := [][]byte{le(uint64(joinNonce), 3), le(joinEUI, 8), le(uint64(devNonce), 2)}
	fNwkSInt = toKey(aesEnc(nwkKey[:], block(0x01, tail...)))
	appS = toKey(aesEnc(appKey[:], block(0x02, tail...)))
	sNwkSInt = toKey(aesEnc(nwkKey[:], block(0x03, tail...)))
	nwkSEnc = toKey(aesEnc(nwkKey[:], block(0x04, tail...)))
	return
}

// JSKeys derives JSEncKey (0x05) and JSIntKey (0x06) from NwkKey and DevEUI.
func JSKeys(nwkKey Key, devEUI uint64) (jsEnc, jsInt Key) {
	return toKey(aesEnc(nwkKey[:], block(0x05, le(devEUI, 8)))), toKey(aesEnc(nwkKey[:], block(0x06, le(devEUI, 8))))
}

// Multicast keys, TS005 Remote Multicast Setup.
func McRootKeyFromGenAppKey(genAppKey Key) Key { return toKey(aesEnc(genAppKey[:], block(0x00))) }
func McRootKeyFromAppKey(appKey Key) Key       { return toKey(aesEnc(appKey[:], block(0x20))) }
func McKEKey(mcRootKey Key) Key                { return toKey(aesEnc(mcRootKey[:], block(0x00))) }
func McAppSKey(mcKey Key, mcAddr uint32) Key {
	return toKey(aesEnc(mcKey[:], block(0x01, le(uint64(mcAddr), 4))))
}
func McNetSKey(mcKey Key, mcAddr uint32) Key {
	return toKey(aesEnc(mcKey[:], block(0x02, le(uint64(mcAddr), 4))))
}

// AESEncryptBlock exposes the primitive for key-encryption of McKey (TS005: McKey = aes128_decrypt(McKEKey, McKey_encrypted)).
func AESEncryptBlock(k Key, in []byte) []byte { return aesEnc(k[:], in) }
func AESDecryptBlock(k Key, in []byte) []byte { return aesDec(k[:], in) }
