package gen

import (
	"pgregory.net/rapid"

	"verif/harness/internal/ref"
)

// biased draws an integer in [lo,hi] with extra weight on the listed points.
func biased(t *rapid.T, label string, lo, hi int, points ...int) int {
	if len(points) > 0 && rapid.IntRange(0, 2).Draw(t, label+"?") == 0 {
		p := rapid.SampledFrom(points).Draw(t, label+"!")
		if p >= lo && p <= hi {
			return p
		}
	}
	return rapid.IntRange(lo, hi).Draw(t, label)
}

// U32 draws a boundary-biased 32 bit counter.
func U32(t *rapid.T, label string) uint32 {
	switch rapid.IntRange(0, 5).Draw(t, label+"?") {
	case 0:
		return rapid.SampledFrom([]uint32{0, 1, 0xffff, 0x10000, 0x10001, 0xfffe, 0x7fffffff, 0x80000000, 0xffffffff, 0xffff0000}).Draw(t, label+"!")
	case 1:
		return rapid.Uint32Range(0, 0xffff).Draw(t, label+"lo")
	default:
		return uint32(rapid.Uint64().Draw(t, label))
	}
}

// U64 draws a uniformly random 64 bit value (rapid.Uint64 is biased to small values).
func U64(t *rapid.T, label string) uint64 {
	b := rapid.SliceOfN(rapid.Byte(), 8, 8).Draw(t, label)
	var v uint64
	for _, x := range b {
		v = v<<8 | uint64(x)
	}
	return v
}

// Key draws a random 128 bit key.
func Key(t *rapid.T, label string) ref.Key {
	var k ref.Key
	copy(k[:], rapid.SliceOfN(rapid.Byte(), 16, 16).Draw(t, label))
	// special key values: the all-zero key (an "unset" key in many data models), all ones, a single bit
	switch rapid.IntRange(0, 23).Draw(t, label+"?") {
	case 0:
		k = ref.Key{}
	case 1:
		for i := range k {
			k[i] = 0xff
		}
	case 2:
		k = ref.Key{}
		k[15] = 1
	}
	return k
}

// Bytes draws n bytes.
func Bytes(t *rapid.T, label string, n int) []byte {
	return rapid.SliceOfN(rapid.Byte(), n, n).Draw(t, label)
}

// FieldVal draws a spec-valid, representable, boundary-biased value for a field.
func FieldVal(t *rapid.T, f ref.Field) int64 {
	lo, hi := f.Range()
	switch f.Kind {
	case ref.KFreq:
		raw := int64(biased(t, f.Name, 0, 1<<24-1, 0, 1, 1<<24-1, 8681000, 4331750, 9233000, 1<<23))
		return raw * 100
	case ref.KFreq24G:
		if rapid.Bool().Draw(t, f.Name+"2g4") {
			raw := int64(biased(t, f.Name, 12000000, 1<<24-1, 12000000, 12015000, 1<<24-1))
			return raw * 200
		}
		raw := int64(biased(t, f.Name, 0, 11999999, 0, 1, 11999999, 8681000))
		return raw * 100
	case ref.KGPSTime:
		sec := int64(U32(t, f.Name+"sec"))
		frac := int64(rapid.IntRange(0, 255).Draw(t, f.Name+"frac"))
		return sec*1e9 + frac*3906250
	case ref.KMask16:
		return int64(biased(t, f.Name, 0, 0xffff, 0, 0xffff, 0x00ff, 0xff00, 1, 0x8000))
	default:
		return int64(biased(t, f.Name, int(lo), int(hi), int(lo), int(hi)))
	}
}

// SpecVals draws spec-valid values for every field of a payload.
func SpecVals(t *rapid.T, s *ref.Spec) ref.Vals {
	v := ref.Vals{}
	for _, f := range s.Fields {
		v[f.Name] = FieldVal(t, f)
	}
	// the library's encoders document narrower ranges than the bit widths for a few fields
	switch s.Name {
	case "ResetInd", "ResetConf", "RekeyInd", "RekeyConf":
		// Minor: only 1 is defined by LoRaWAN 1.1; 0 and 1 are what implementations send
		for k := range v {
			v[k] = int64(rapid.IntRange(0, 1).Draw(t, "minor"))
		}
	case "DutyCycleReq":
		if rapid.IntRange(0, 11).Draw(t, "silent") == 0 {
			v["MaxDCycle"] = 255 // LoRaWAN 1.0 - 1.0.2: "become silent immediately" (see ref.Spec.Encode)
		}
	case "ForceRejoinReq":
		v["RejoinType"] = int64(rapid.SampledFrom([]int{0, 2}).Draw(t, "rejoinType"))
	case "DeviceModeInd", "DeviceModeConf":
		v["Class"] = int64(rapid.SampledFrom([]int{0, 2}).Draw(t, "class"))
	}
	return v
}

// cmdChoices lists the CIDs usable in a direction with their encoded length.
type cmdChoice struct {
	cid  byte
	spec *ref.Spec
	size int
}

func choices(uplink bool) []cmdChoice {
	var out []cmdChoice
	for i := range ref.Specs {
		if ref.Specs[i].Uplink == uplink {
			out = append(out, cmdChoice{ref.Specs[i].CID, &ref.Specs[i], 1 + ref.Specs[i].Len})
		}
	}
	for _, c := range ref.PayloadlessCIDs[uplink] {
		out = append(out, cmdChoice{c, nil, 1})
	}
	return out
}

var upChoices, downChoices = choices(true), choices(false)

// Cmds draws a MAC-command sequence for the direction whose encoding is exactly n bytes.
func Cmds(t *rapid.T, label string, uplink bool, n int) []ref.Cmd {
	all := downChoices
	if uplink {
		all = upChoices
	}
	var out []ref.Cmd
	for n > 0 {
		var fit []cmdChoice
		for _, c := range all {
			if c.size <= n {
				fit = append(fit, c)
			}
		}
		c := fit[rapid.IntRange(0, len(fit)-1).Draw(t, label+"cid")]
		cmd := ref.Cmd{CID: c.cid}
		if c.spec != nil {
			cmd.Name = c.spec.Name
			cmd.Vals = SpecVals(t, c.spec)
		}
		out = append(out, cmd)
		n -= c.size
	}
	return out
}

// CmdBytes draws a command sequence and returns its model encoding.
func CmdBytes(t *rapid.T, label string, uplink bool, n int) []byte {
	b, err := ref.EncodeCmds(uplink, Cmds(t, label, uplink, n))
	if err != nil {
		panic(err)
	}
	return b
}

// withUnknownProprietary replaces, one time in four, up to two payload-less commands of an encoded sequence by a
// proprietary CID that nobody registers (0xe0..0xff): one octet each, like the commands they replace.
func withUnknownProprietary(t *rapid.T, label string, uplink bool, b []byte) []byte {
	if len(b) == 0 || rapid.IntRange(0, 3).Draw(t, label+"prop?") != 0 {
		return b
	}
	cs, err := ref.DecodeCmds(uplink, b, nil)
	if err != nil {
		return b
	}
	left := 2
	for i := range cs {
		if left > 0 && len(cs[i].Vals) == 0 && len(cs[i].Raw) == 0 && ref.SpecFor(uplink, cs[i].CID) == nil && rapid.Bool().Draw(t, label+"prop") {
			cs[i] = ref.Cmd{CID: 0xe0 + byte(rapid.IntRange(0, 31).Draw(t, label+"propcid"))}
			left--
		}
	}
	out, err := ref.EncodeCmds(uplink, cs)
	if err != nil || len(out) != len(b) {
		return b
	}
	return out
}

// DataOpts restricts DataFrame.
type DataOpts struct {
	PropCIDs bool // MAC-command sequences may carry proprietary CIDs (0xe0..0xff) that nobody registers
	MaxFRM   int  // maximum FRMPayload length (0: 242)
	MaxTotal int  // maximum length of MHDR|MACPayload (0: unlimited)
	NoPort0  bool // never put MAC commands on port 0
}

// DataFrame draws a spec-valid data frame of the given MType.
func DataFrame(t *rapid.T, mt byte, o DataOpts) *ref.Frame {
	up := ref.IsUplinkMType(mt)
	f := &ref.Frame{MType: mt, Major: byte(biased(t, "major", 0, 3, 0, 0)), FPort: -1}
	f.DevAddr = uint32(U64(t, "devaddr"))
	f.FCnt = U32(t, "fcnt")
	f.ADR, f.ADRACKReq, f.ACK, f.FPending = rapid.Bool().Draw(t, "adr"), rapid.Bool().Draw(t, "adrackreq"), rapid.Bool().Draw(t, "ack"), rapid.Bool().Draw(t, "fpending")
	maxFRM := 242
	if o.MaxFRM > 0 {
		maxFRM = o.MaxFRM
	}
	port := rapid.SampledFrom([]string{"absent", "zero", "app", "app"}).Draw(t, "port")
	if o.NoPort0 && port == "zero" {
		port = "app"
	}
	optsLen := biased(t, "foptslen", 0, 15, 0, 15, 1)
	if port == "zero" {
		optsLen = 0 // FPort 0 only without FOpts
	}
	f.FOpts = CmdBytes(t, "fopts", up, optsLen)
	if o.PropCIDs {
		f.FOpts = withUnknownProprietary(t, "fopts", up, f.FOpts)
	}
	room := maxFRM
	if o.MaxTotal > 0 {
		if r := o.MaxTotal - 1 - 7 - optsLen - 1; r < room {
			room = r
		}
		if room < 0 {
			room = 0
		}
	}
	switch port {
	case "zero":
		f.FPort = 0
		f.FRM = CmdBytes(t, "frmcmds", up, biased(t, "frmlen", 0, room, 0, 1, 15, 16, 17, 222, room))
		if o.PropCIDs {
			f.FRM = withUnknownProprietary(t, "frmcmds", up, f.FRM)
		}
	case "app":
		f.FPort = rapid.IntRange(1, 255).Draw(t, "fport")
		f.FRM = Bytes(t, "frm", biased(t, "frmlen", 0, room, 0, 1, 15, 16, 17, 32, 33, 222, room))
	}
	copy(f.MIC[:], Bytes(t, "mic", 4))
	return f
}

// CFList draws a CFList (nil, channel list, or channel masks).
func CFList(t *rapid.T) *ref.CFList {
	switch rapid.IntRange(0, 2).Draw(t, "cflist") {
	case 0:
		return nil
	case 1:
		c := &ref.CFList{Type: 0}
		for i := range c.Freqs {
			c.Freqs[i] = int64(biased(t, "cffreq", 0, 1<<24-1, 0, 1<<24-1, 8671000)) * 100
		}
		return c
	default:
		c := &ref.CFList{Type: 1}
		n := rapid.IntRange(1, 6).Draw(t, "nmasks")
		for i := 0; i < n; i++ {
			c.Masks = append(c.Masks, uint16(biased(t, "mask", 0, 0xffff, 0, 0xffff, 0xff)))
		}
		return c
	}
}

// JoinAccept draws a clear-text join-accept.
func JoinAccept(t *rapid.T) *ref.Frame {
	f := &ref.Frame{MType: ref.MTJoinAccept, Major: byte(biased(t, "major", 0, 3, 0, 0)), FPort: -1}
	f.JoinNonce = uint32(biased(t, "joinnonce", 0, 1<<24-1, 0, 1, 1<<24-1, 0x010203))
	f.NetID = uint32(U64(t, "netid")) & 0xffffff
	f.DevAddr = uint32(U64(t, "devaddr"))
	f.OptNeg = rapid.Bool().Draw(t, "optneg")
	f.RX1DROffset = byte(rapid.IntRange(0, 7).Draw(t, "rx1droffset"))
	f.RX2DR = byte(rapid.IntRange(0, 15).Draw(t, "rx2dr"))
	f.RXDelay = byte(rapid.IntRange(0, 15).Draw(t, "rxdelay"))
	f.CFList = CFList(t)
	copy(f.MIC[:], Bytes(t, "mic", 4))
	return f
}

// JoinRequest draws a join-request.
func JoinRequest(t *rapid.T) *ref.Frame {
	f := &ref.Frame{MType: ref.MTJoinRequest, Major: byte(biased(t, "major", 0, 3, 0, 0)), FPort: -1}
	f.JoinEUI, f.DevEUI = U64(t, "joineui"), U64(t, "deveui")
	f.DevNonce = uint16(U32(t, "devnonce"))
	copy(f.MIC[:], Bytes(t, "mic", 4))
	return f
}

// Rejoin draws a rejoin-request of type 0, 1 or 2.
func Rejoin(t *rapid.T) *ref.Frame {
	f := &ref.Frame{MType: ref.MTRejoin, Major: byte(biased(t, "major", 0, 3, 0, 0)), FPort: -1}
	f.RejoinType = byte(rapid.IntRange(0, 2).Draw(t, "rejointype"))
	if f.RejoinType == 1 {
		f.JoinEUI = U64(t, "joineui")
	} else {
		f.NetID = uint32(U64(t, "netid")) & 0xffffff
	}
	f.DevEUI = U64(t, "deveui")
	f.RJCount = uint16(U32(t, "rjcount"))
	copy(f.MIC[:], Bytes(t, "mic", 4))
	return f
}

// Proprietary draws a proprietary frame.
func Proprietary(t *rapid.T) *ref.Frame {
	f := &ref.Frame{MType: ref.MTProprietary, Major: byte(biased(t, "major", 0, 3, 0, 0)), FPort: -1}
	f.Opaque = Bytes(t, "opaque", biased(t, "n", 0, 250, 0, 1, 250))
	copy(f.MIC[:], Bytes(t, "mic", 4))
	return f
}

// AnyFrame draws a frame of a uniformly chosen MType.
func AnyFrame(t *rapid.T) *ref.Frame {
	mt := byte(rapid.IntRange(0, 7).Draw(t, "mtype"))
	switch {
	case ref.IsData(mt):
		return DataFrame(t, mt, DataOpts{PropCIDs: true})
	case mt == ref.MTJoinRequest:
		return JoinRequest(t)
	case mt == ref.MTJoinAccept:
		return JoinAccept(t)
	case mt == ref.MTRejoin:
		return Rejoin(t)
	default:
		return Proprietary(t)
	}
}

// DataMType draws one of the four data message types.
func DataMType(t *rapid.T) byte {
	return byte(rapid.IntRange(ref.MTUnconfUp, ref.MTConfDown).Draw(t, "mtype"))
}
