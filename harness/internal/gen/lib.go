// Package gen holds the rapid generators and the structural conversions
// between the reference-model values (package ref) and the library's types.
// Conversions only read and write exported struct fields; they never call the
// library's encoders or decoders.
package gen

import (
	"bytes"
	"encoding/binary"
	"fmt"
	"reflect"
	"strings"
	"time"

	"github.com/brocaar/lorawan"

	"verif/harness/internal/ref"
)

// NewPayload returns an empty library payload struct for a spec name.
var NewPayload = map[string]func() lorawan.MACCommandPayload{
	"ResetInd":            func() lorawan.MACCommandPayload { return &lorawan.ResetIndPayload{} },
	"LinkADRAns":          func() lorawan.MACCommandPayload { return &lorawan.LinkADRAnsPayload{} },
	"RXParamSetupAns":     func() lorawan.MACCommandPayload { return &lorawan.RXParamSetupAnsPayload{} },
	"DevStatusAns":        func() lorawan.MACCommandPayload { return &lorawan.DevStatusAnsPayload{} },
	"NewChannelAns":       func() lorawan.MACCommandPayload { return &lorawan.NewChannelAnsPayload{} },
	"DLChannelAns":        func() lorawan.MACCommandPayload { return &lorawan.DLChannelAnsPayload{} },
	"RekeyInd":            func() lorawan.MACCommandPayload { return &lorawan.RekeyIndPayload{} },
	"RejoinParamSetupAns": func() lorawan.MACCommandPayload { return &lorawan.RejoinParamSetupAnsPayload{} },
	"PingSlotInfoReq":     func() lorawan.MACCommandPayload { return &lorawan.PingSlotInfoReqPayload{} },
	"PingSlotChannelAns":  func() lorawan.MACCommandPayload { return &lorawan.PingSlotChannelAnsPayload{} },
	"BeaconFreqAns":       func() lorawan.MACCommandPayload { return &lorawan.BeaconFreqAnsPayload{} },
	"DeviceModeInd":       func() lorawan.MACCommandPayload { return &lorawan.DeviceModeIndPayload{} },
	"ResetConf":           func() lorawan.MACCommandPayload { return &lorawan.ResetConfPayload{} },
	"LinkCheckAns":        func() lorawan.MACCommandPayload { return &lorawan.LinkCheckAnsPayload{} },
	"LinkADRReq":          func() lorawan.MACCommandPayload { return &lorawan.LinkADRReqPayload{} },
	"DutyCycleReq":        func() lorawan.MACCommandPayload { return &lorawan.DutyCycleReqPayload{} },
	"RXParamSetupReq":     func() lorawan.MACCommandPayload { return &lorawan.RXParamSetupReqPayload{} },
	"NewChannelReq":       func() lorawan.MACCommandPayload { return &lorawan.NewChannelReqPayload{} },
	"RXTimingSetupReq":    func() lorawan.MACCommandPayload { return &lorawan.RXTimingSetupReqPayload{} },
	"TXParamSetupReq":     func() lorawan.MACCommandPayload { return &lorawan.TXParamSetupReqPayload{} },
	"DLChannelReq":        func() lorawan.MACCommandPayload { return &lorawan.DLChannelReqPayload{} },
	"RekeyConf":           func() lorawan.MACCommandPayload { return &lorawan.RekeyConfPayload{} },
	"ADRParamSetupReq":    func() lorawan.MACCommandPayload { return &lorawan.ADRParamSetupReqPayload{} },
	"DeviceTimeAns":       func() lorawan.MACCommandPayload { return &lorawan.DeviceTimeAnsPayload{} },
	"ForceRejoinReq":      func() lorawan.MACCommandPayload { return &lorawan.ForceRejoinReqPayload{} },
	"RejoinParamSetupReq": func() lorawan.MACCommandPayload { return &lorawan.RejoinParamSetupReqPayload{} },
	"PingSlotChannelReq":  func() lorawan.MACCommandPayload { return &lorawan.PingSlotChannelReqPayload{} },
	"BeaconFreqReq":       func() lorawan.MACCommandPayload { return &lorawan.BeaconFreqReqPayload{} },
	"DeviceModeConf":      func() lorawan.MACCommandPayload { return &lorawan.DeviceModeConfPayload{} },
}

var durationType = reflect.TypeOf(time.Duration(0))
var chMaskType = reflect.TypeOf(lorawan.ChMask{})

// Flatten reads the exported leaf fields of a struct (pointer) into Vals with
// dotted paths. bool -> 0/1, integers as they are, ChMask -> 16 bit mask.
func Flatten(p any) ref.Vals {
	v := reflect.ValueOf(p)
	for v.Kind() == reflect.Ptr {
		v = v.Elem()
	}
	out := ref.Vals{}
	flatten(v, "", out)
	return out
}

func flatten(v reflect.Value, prefix string, out ref.Vals) {
	t := v.Type()
	for i := 0; i < t.NumField(); i++ {
		f := t.Field(i)
		if f.PkgPath != "" {
			continue
		}
		fv := v.Field(i)
		name := prefix + f.Name
		switch {
		case f.Type == chMaskType:
			var m int64
			for b := 0; b < 16; b++ {
				if fv.Index(b).Bool() {
					m |= 1 << uint(b)
				}
			}
			out[name] = m
		case fv.Kind() == reflect.Struct:
			flatten(fv, name+".", out)
		case fv.Kind() == reflect.Bool:
			if fv.Bool() {
				out[name] = 1
			} else {
				out[name] = 0
			}
		case fv.CanInt():
			out[name] = fv.Int()
		case fv.CanUint():
			out[name] = int64(fv.Uint())
		default:
			panic(fmt.Sprintf("gen.Flatten: unsupported field %s of kind %s", name, fv.Kind()))
		}
	}
}

// Fill writes vals into the struct behind pointer p. Values that do not fit
// the Go type of a field make Fill return false (the value cannot be expressed).
func Fill(p any, vals ref.Vals) bool {
	v := reflect.ValueOf(p).Elem()
	for name, x := range vals {
		fv := v
		for _, part := range strings.Split(name, ".") {
			fv = fv.FieldByName(part)
			if !fv.IsValid() {
				panic("gen.Fill: no field " + name + " in " + v.Type().String())
			}
		}
		switch {
		case fv.Type() == chMaskType:
			for b := 0; b < 16; b++ {
				fv.Index(b).SetBool(x&(1<<uint(b)) != 0)
			}
		case fv.Kind() == reflect.Bool:
			if x != 0 && x != 1 {
				return false
			}
			fv.SetBool(x == 1)
		case fv.CanInt():
			if fv.OverflowInt(x) {
				return false
			}
			fv.SetInt(x)
		case fv.CanUint():
			if x < 0 || fv.OverflowUint(uint64(x)) {
				return false
			}
			fv.SetUint(uint64(x))
		default:
			panic("gen.Fill: unsupported field " + name)
		}
	}
	return true
}

// LibCmd builds the library's MACCommand for a model command.
func LibCmd(uplink bool, c ref.Cmd) *lorawan.MACCommand {
	m := &lorawan.MACCommand{CID: lorawan.CID(c.CID)}
	if s := ref.SpecFor(uplink, c.CID); s != nil && c.Vals != nil {
		p := NewPayload[s.Name]()
		if !Fill(p, c.Vals) {
			panic("gen.LibCmd: value does not fit the library type: " + s.Name)
		}
		m.Payload = p
	} else if len(c.Raw) > 0 {
		m.Payload = &lorawan.ProprietaryMACCommandPayload{Bytes: append([]byte{}, c.Raw...)}
	}
	return m
}

// LibCmds builds a []Payload of MACCommands.
func LibCmds(uplink bool, cmds []ref.Cmd) []lorawan.Payload {
	var out []lorawan.Payload
	for _, c := range cmds {
		out = append(out, LibCmd(uplink, c))
	}
	return out
}

// ModelCmd reads a library MACCommand back into model form.
func ModelCmd(uplink bool, m *lorawan.MACCommand) ref.Cmd {
	c := ref.Cmd{CID: byte(m.CID)}
	switch p := m.Payload.(type) {
	case nil:
	case *lorawan.ProprietaryMACCommandPayload:
		c.Raw = append([]byte{}, p.Bytes...)
	default:
		if s := ref.SpecFor(uplink, byte(m.CID)); s != nil {
			c.Name = s.Name
		}
		c.Vals = Flatten(p)
	}
	return c
}

// PayloadsToBytes turns a library []Payload (MAC commands and/or DataPayloads)
// into the bytes it stands for, using the model encoder for commands.
func PayloadsToBytes(uplink bool, pls []lorawan.Payload) ([]byte, error) {
	var out []byte
	for _, pl := range pls {
		switch p := pl.(type) {
		case *lorawan.DataPayload:
			out = append(out, p.Bytes...)
		case *lorawan.MACCommand:
			if p == nil {
				return nil, fmt.Errorf("nil *MACCommand")
			}
			b, err := ref.EncodeCmds(uplink, []ref.Cmd{ModelCmd(uplink, p)})
			if err != nil {
				return nil, err
			}
			out = append(out, b...)
		default:
			return nil, fmt.Errorf("unexpected payload type %T", pl)
		}
	}
	return out, nil
}

func eui(v uint64) lorawan.EUI64 {
	var e lorawan.EUI64
	binary.BigEndian.PutUint64(e[:], v)
	return e
}

func euiVal(e lorawan.EUI64) uint64 { return binary.BigEndian.Uint64(e[:]) }

// Addr converts a model address.
func Addr(v uint32) lorawan.DevAddr {
	var a lorawan.DevAddr
	binary.BigEndian.PutUint32(a[:], v)
	return a
}

func addrVal(a lorawan.DevAddr) uint32 { return binary.BigEndian.Uint32(a[:]) }

// EUI converts a model EUI.
func EUI(v uint64) lorawan.EUI64 { return eui(v) }

// NetID converts a model NetID.
func NetID(v uint32) lorawan.NetID { return lorawan.NetID{byte(v >> 16), byte(v >> 8), byte(v)} }

func netIDVal(n lorawan.NetID) uint32 { return uint32(n[0])<<16 | uint32(n[1])<<8 | uint32(n[2]) }

// LibCFList builds the library CFList.
func LibCFList(c *ref.CFList) *lorawan.CFList {
	if c == nil {
		return nil
	}
	if c.Type == 0 {
		p := &lorawan.CFListChannelPayload{}
		for i, f := range c.Freqs {
			p.Channels[i] = uint32(f)
		}
		return &lorawan.CFList{CFListType: lorawan.CFListChannel, Payload: p}
	}
	p := &lorawan.CFListChannelMaskPayload{}
	for _, m := range c.Masks {
		var cm lorawan.ChMask
		for b := 0; b < 16; b++ {
			cm[b] = m&(1<<uint(b)) != 0
		}
		p.ChannelMasks = append(p.ChannelMasks, cm)
	}
	return &lorawan.CFList{CFListType: lorawan.CFListChannelMask, Payload: p}
}

// ModelCFList reads a library CFList.
func ModelCFList(l *lorawan.CFList) (*ref.CFList, error) {
	if l == nil {
		return nil, nil
	}
	c := &ref.CFList{Type: byte(l.CFListType)}
	switch p := l.Payload.(type) {
	case *lorawan.CFListChannelPayload:
		for i, f := range p.Channels {
			c.Freqs[i] = int64(f)
		}
	case *lorawan.CFListChannelMaskPayload:
		for _, cm := range p.ChannelMasks {
			var m uint16
			for b := 0; b < 16; b++ {
				if cm[b] {
					m |= 1 << uint(b)
				}
			}
			c.Masks = append(c.Masks, m)
		}
		c.Masks = ref.TrimMasks(c.Masks)
	default:
		return nil, fmt.Errorf("unexpected CFList payload type %T", l.Payload)
	}
	return c, nil
}

// ToLib builds the library PHYPayload for a model frame. With cmds set, FOpts
// (and the FRMPayload of port 0) are given as MAC-command values decoded by
// the model; otherwise as DataPayload bytes.
func ToLib(f *ref.Frame, cmds bool) (lorawan.PHYPayload, error) { return ToLibOpt(f, cmds, false) }

// ToLibOpt: with emptyNonNil, absent FOpts / FRMPayload are given as empty non-nil slices (what `cmds[:0]` or
// make([]Payload, 0, n) produce) instead of nil; both are the same frame value.
func ToLibOpt(f *ref.Frame, cmds, emptyNonNil bool) (lorawan.PHYPayload, error) {
	p, err := toLib(f, cmds)
	if err == nil && emptyNonNil {
		if m, ok := p.MACPayload.(*lorawan.MACPayload); ok {
			if len(m.FHDR.FOpts) == 0 {
				m.FHDR.FOpts = []lorawan.Payload{}
			}
			if len(m.FRMPayload) == 0 {
				m.FRMPayload = make([]lorawan.Payload, 0, 2)
			}
		}
	}
	return p, err
}

func toLib(f *ref.Frame, cmds bool) (lorawan.PHYPayload, error) {
	p := lorawan.PHYPayload{MHDR: lorawan.MHDR{MType: lorawan.MType(f.MType), Major: lorawan.Major(f.Major)}, MIC: lorawan.MIC(f.MIC)}
	up := ref.IsUplinkMType(f.MType)
	switch {
	case ref.IsData(f.MType):
		m := &lorawan.MACPayload{FHDR: lorawan.FHDR{DevAddr: Addr(f.DevAddr),
			FCtrl: lorawan.FCtrl{ADR: f.ADR, ADRACKReq: f.ADRACKReq, ACK: f.ACK}}}
		setN(&m.FHDR.FCnt, uint64(f.FCnt))
		if up {
			m.FHDR.FCtrl.ClassB = f.FPending
		} else {
			m.FHDR.FCtrl.FPending = f.FPending
		}
		if len(f.FOpts) > 0 {
			if cmds {
				cs, err := ref.DecodeCmds(up, f.FOpts, nil)
				if err != nil {
					return p, err
				}
				m.FHDR.FOpts = LibCmds(up, cs)
			} else {
				m.FHDR.FOpts = []lorawan.Payload{&lorawan.DataPayload{Bytes: append([]byte{}, f.FOpts...)}}
			}
		}
		if f.FPort >= 0 {
			fp := uint8(f.FPort)
			m.FPort = &fp
			if len(f.FRM) > 0 {
				if cmds && f.FPort == 0 {
					cs, err := ref.DecodeCmds(up, f.FRM, nil)
					if err != nil {
						return p, err
					}
					m.FRMPayload = LibCmds(up, cs)
				} else {
					m.FRMPayload = []lorawan.Payload{&lorawan.DataPayload{Bytes: append([]byte{}, f.FRM...)}}
				}
			}
		}
		p.MACPayload = m
	case f.MType == ref.MTJoinRequest:
		p.MACPayload = &lorawan.JoinRequestPayload{JoinEUI: eui(f.JoinEUI), DevEUI: eui(f.DevEUI), DevNonce: lorawan.DevNonce(f.DevNonce)}
	case f.MType == ref.MTRejoin:
		if f.RejoinType == 1 {
			pl := &lorawan.RejoinRequestType1Payload{RejoinType: lorawan.JoinType(f.RejoinType), JoinEUI: eui(f.JoinEUI), DevEUI: eui(f.DevEUI)}
			setN(&pl.RJCount1, uint64(f.RJCount))
			p.MACPayload = pl
		} else {
			pl := &lorawan.RejoinRequestType02Payload{RejoinType: lorawan.JoinType(f.RejoinType), NetID: NetID(f.NetID), DevEUI: eui(f.DevEUI)}
			setN(&pl.RJCount0, uint64(f.RJCount))
			p.MACPayload = pl
		}
	case f.MType == ref.MTJoinAccept:
		pl := &lorawan.JoinAcceptPayload{JoinNonce: lorawan.JoinNonce(f.JoinNonce), HomeNetID: NetID(f.NetID), DevAddr: Addr(f.DevAddr),
			DLSettings: lorawan.DLSettings{OptNeg: f.OptNeg}, CFList: LibCFList(f.CFList)}
		setN(&pl.DLSettings.RX1DROffset, uint64(f.RX1DROffset))
		setN(&pl.DLSettings.RX2DataRate, uint64(f.RX2DR))
		setN(&pl.RXDelay, uint64(f.RXDelay))
		p.MACPayload = pl
	default:
		p.MACPayload = &lorawan.DataPayload{Bytes: append([]byte{}, f.Opaque...)}
	}
	return p, nil
}

// FromLib reads a library PHYPayload back into model form (FOpts / FRMPayload
// as the bytes they stand for; MAC-command values are serialised with the
// model encoder, so a wrongly decoded field shows up as different bytes).
func FromLib(p *lorawan.PHYPayload) (*ref.Frame, error) {
	f := &ref.Frame{MType: byte(p.MHDR.MType), Major: byte(p.MHDR.Major), FPort: -1, MIC: [4]byte(p.MIC)}
	up := ref.IsUplinkMType(f.MType)
	switch m := p.MACPayload.(type) {
	case *lorawan.MACPayload:
		f.DevAddr, f.FCnt = addrVal(m.FHDR.DevAddr), uint32(m.FHDR.FCnt)
		c := m.FHDR.FCtrl
		f.ADR, f.ADRACKReq, f.ACK, f.FPending = c.ADR, c.ADRACKReq, c.ACK, c.FPending || c.ClassB
		var err error
		if f.FOpts, err = PayloadsToBytes(up, m.FHDR.FOpts); err != nil {
			return nil, fmt.Errorf("FOpts: %v", err)
		}
		if m.FPort != nil {
			f.FPort = int(*m.FPort)
		}
		if f.FRM, err = PayloadsToBytes(up, m.FRMPayload); err != nil {
			return nil, fmt.Errorf("FRMPayload: %v", err)
		}
	case *lorawan.JoinRequestPayload:
		f.JoinEUI, f.DevEUI, f.DevNonce = euiVal(m.JoinEUI), euiVal(m.DevEUI), uint16(m.DevNonce)
	case *lorawan.RejoinRequestType02Payload:
		f.RejoinType, f.NetID, f.DevEUI, f.RJCount = byte(m.RejoinType), netIDVal(m.NetID), euiVal(m.DevEUI), uint16(m.RJCount0)
	case *lorawan.RejoinRequestType1Payload:
		f.RejoinType, f.JoinEUI, f.DevEUI, f.RJCount = byte(m.RejoinType), euiVal(m.JoinEUI), euiVal(m.DevEUI), uint16(m.RJCount1)
	case *lorawan.JoinAcceptPayload:
		f.JoinNonce, f.NetID, f.DevAddr = uint32(m.JoinNonce), netIDVal(m.HomeNetID), addrVal(m.DevAddr)
		f.OptNeg, f.RX1DROffset, f.RX2DR, f.RXDelay = m.DLSettings.OptNeg, uint8(m.DLSettings.RX1DROffset), uint8(m.DLSettings.RX2DataRate), uint8(m.RXDelay)
		var err error
		if f.CFList, err = ModelCFList(m.CFList); err != nil {
			return nil, err
		}
	case *lorawan.DataPayload:
		f.Opaque = append([]byte{}, m.Bytes...)
	default:
		return nil, fmt.Errorf("unexpected MACPayload type %T", p.MACPayload)
	}
	return f, nil
}

// setN assigns a number to a library field whatever integer type the field has (a field that turns from a basic into
// a named integer type must not stop the harness from building).
func setN[T ~uint8 | ~uint16 | ~uint32 | ~uint64 | ~int | ~int8 | ~int16 | ~int32 | ~int64 | ~uint](dst *T, v uint64) {
	*dst = T(v)
}

// LibKey converts a model key.
func LibKey(k ref.Key) lorawan.AES128Key { return lorawan.AES128Key(k) }

// Receive decodes wire the way a receive loop does. loop == false: into a fresh PHYPayload. loop == true: ONE
// PHYPayload variable decodes wire, the result is kept by value (as a receive queue does with `append(q, phy)`),
// and the same variable then decodes a second frame of the same message type (wire with every byte but the ones
// that select the layout - MHDR, FCtrl of data frames, the type octet of rejoin-requests - complemented; its outcome
// does not matter). The kept value is returned: it has to be the frame that wire stands for. In both modes the buffer
// the frame was decoded from is overwritten before Receive returns.
func Receive(wire []byte, loop bool) (lorawan.PHYPayload, error) {
	var v lorawan.PHYPayload
	buf := append([]byte{}, wire...)
	err := v.UnmarshalBinary(buf)
	// the receive buffer belongs to the caller, who reads the next frame into it: whatever is done with the decoded
	// frame afterwards (decrypt, validate, re-encode) must not depend on it any more
	for i := range buf {
		buf[i] = ^buf[i]
	}
	if err != nil || !loop {
		return v, err
	}
	kept := v
	_ = v.UnmarshalBinary(Decoy(wire))
	return kept, nil
}

// Decoy: see Receive.
func Decoy(wire []byte) []byte {
	d := append([]byte{}, wire...)
	for i := 1; i < len(d); i++ {
		if i == 5 && ref.IsData(d[0]>>5) || i == 1 && d[0]>>5 == ref.MTRejoin {
			continue
		}
		d[i] ^= 0xa5
	}
	return d
}

// CmdsMatch: after a successful command decode the field holds the MAC commands its bytes carry, nothing else.
func CmdsMatch(up bool, items []lorawan.Payload, raw []byte, what string) error {
	want, err := ref.DecodeCmds(up, raw, nil)
	if err != nil {
		return nil // not a well-formed command stream: nothing to compare
	}
	if len(items) != len(want) {
		return fmt.Errorf("%s holds %d items, the bytes %x carry %d commands", what, len(items), raw, len(want))
	}
	for i, it := range items {
		mc, ok := it.(*lorawan.MACCommand)
		if !ok {
			return fmt.Errorf("%s: item %d is a %T although the decode reported success (bytes %x)", what, i, it, raw)
		}
		got := ModelCmd(up, mc)
		if got.CID != want[i].CID || !got.Vals.Equal(want[i].Vals) && !(len(got.Vals) == 0 && len(want[i].Vals) == 0) || !bytes.Equal(got.Raw, want[i].Raw) {
			return fmt.Errorf("%s: command %d is %+v, the bytes %x carry %+v", what, i, got, raw, want[i])
		}
	}
	return nil
}
