package gen

import (
	"reflect"
	"sort"
	"sync"

	"github.com/brocaar/lorawan"
	"github.com/brocaar/lorawan/applayer/clocksync"
	"github.com/brocaar/lorawan/applayer/firmwaremanagement"
	"github.com/brocaar/lorawan/applayer/fragmentation"
	"github.com/brocaar/lorawan/applayer/multicastsetup"
)

// Decoder describes one exported type with an UnmarshalBinary method
// (one argument: data; or two: uplink, data).
type Decoder struct {
	Name string
	New  func() any // fresh pointer value
	Dir  bool       // UnmarshalBinary(uplink, data)
	lens []int      // see AcceptedLens
}

var probeLens sync.Once

// AcceptedLens: the lengths 0..64 at which all-zero or all-0x01 input of either direction is accepted (generator hint
// only). Found by trial on first call, not at start-up: a process that wants to meet the library in its pristine state
// (C10 race-first-use) must not have every decoder run once before its test starts.
func (d *Decoder) AcceptedLens() []int {
	probeLens.Do(probeAllLens)
	return d.lens
}

// Decode calls UnmarshalBinary on v.
func (d *Decoder) Decode(v any, uplink bool, b []byte) error {
	m := reflect.ValueOf(v).MethodByName("UnmarshalBinary")
	var out []reflect.Value
	if d.Dir {
		out = m.Call([]reflect.Value{reflect.ValueOf(uplink), reflect.ValueOf(b)})
	} else {
		out = m.Call([]reflect.Value{reflect.ValueOf(b)})
	}
	if e := out[0].Interface(); e != nil {
		return e.(error)
	}
	return nil
}

func mk(name string, f func() any) Decoder { return Decoder{Name: name, New: f} }

// Decoders lists every exported decoder type of the library packages covered by C09/C10.
var Decoders = []Decoder{
	mk("lorawan.PHYPayload", func() any { return &lorawan.PHYPayload{} }),
	mk("lorawan.MHDR", func() any { return &lorawan.MHDR{} }),
	mk("lorawan.MACPayload", func() any { return &lorawan.MACPayload{} }),
	mk("lorawan.FHDR", func() any { return &lorawan.FHDR{} }),
	mk("lorawan.FCtrl", func() any { return &lorawan.FCtrl{} }),
	mk("lorawan.DevAddr", func() any { return &lorawan.DevAddr{} }),
	mk("lorawan.NetID", func() any { return &lorawan.NetID{} }),
	mk("lorawan.EUI64", func() any { return &lorawan.EUI64{} }),
	mk("lorawan.AES128Key", func() any { return &lorawan.AES128Key{} }),
	mk("lorawan.DevNonce", func() any { return new(lorawan.DevNonce) }),
	mk("lorawan.JoinNonce", func() any { return new(lorawan.JoinNonce) }),
	mk("lorawan.DataPayload", func() any { return &lorawan.DataPayload{} }),
	mk("lorawan.JoinRequestPayload", func() any { return &lorawan.JoinRequestPayload{} }),
	mk("lorawan.JoinAcceptPayload", func() any { return &lorawan.JoinAcceptPayload{} }),
	mk("lorawan.RejoinRequestType02Payload", func() any { return &lorawan.RejoinRequestType02Payload{} }),
	mk("lorawan.RejoinRequestType1Payload", func() any { return &lorawan.RejoinRequestType1Payload{} }),
	mk("lorawan.CFList", func() any { return &lorawan.CFList{} }),
	mk("lorawan.CFListChannelPayload", func() any { return &lorawan.CFListChannelPayload{} }),
	mk("lorawan.CFListChannelMaskPayload", func() any { return &lorawan.CFListChannelMaskPayload{} }),
	mk("lorawan.MACCommand", func() any { return &lorawan.MACCommand{} }),
	mk("lorawan.ProprietaryMACCommandPayload", func() any { return &lorawan.ProprietaryMACCommandPayload{} }),
	mk("lorawan.ChMask", func() any { return &lorawan.ChMask{} }),
	mk("lorawan.Redundancy", func() any { return &lorawan.Redundancy{} }),
	mk("lorawan.DLSettings", func() any { return &lorawan.DLSettings{} }),
	mk("lorawan.Version", func() any { return &lorawan.Version{} }),
	mk("lorawan.ADRParam", func() any { return &lorawan.ADRParam{} }),

	mk("clocksync.Command", func() any { return &clocksync.Command{} }),
	mk("clocksync.Commands", func() any { return &clocksync.Commands{} }),
	mk("clocksync.PackageVersionAnsPayload", func() any { return &clocksync.PackageVersionAnsPayload{} }),
	mk("clocksync.AppTimeReqPayload", func() any { return &clocksync.AppTimeReqPayload{} }),
	mk("clocksync.AppTimeAnsPayload", func() any { return &clocksync.AppTimeAnsPayload{} }),
	mk("clocksync.DeviceAppTimePeriodicityReqPayload", func() any { return &clocksync.DeviceAppTimePeriodicityReqPayload{} }),
	mk("clocksync.DeviceAppTimePeriodicityAnsPayload", func() any { return &clocksync.DeviceAppTimePeriodicityAnsPayload{} }),
	mk("clocksync.ForceDeviceResyncReqPayload", func() any { return &clocksync.ForceDeviceResyncReqPayload{} }),

	mk("firmwaremanagement.Command", func() any { return &firmwaremanagement.Command{} }),
	mk("firmwaremanagement.Commands", func() any { return &firmwaremanagement.Commands{} }),
	mk("firmwaremanagement.PackageVersionAnsPayload", func() any { return &firmwaremanagement.PackageVersionAnsPayload{} }),
	mk("firmwaremanagement.DevVersionReqPayload", func() any { return &firmwaremanagement.DevVersionReqPayload{} }),
	mk("firmwaremanagement.DevVersionAnsPayload", func() any { return &firmwaremanagement.DevVersionAnsPayload{} }),
	mk("firmwaremanagement.DevRebootTimeReqPayload", func() any { return &firmwaremanagement.DevRebootTimeReqPayload{} }),
	mk("firmwaremanagement.DevRebootTimeAnsPayload", func() any { return &firmwaremanagement.DevRebootTimeAnsPayload{} }),
	mk("firmwaremanagement.DevRebootCountdownReqPayload", func() any { return &firmwaremanagement.DevRebootCountdownReqPayload{} }),
	mk("firmwaremanagement.DevRebootCountdownAnsPayload", func() any { return &firmwaremanagement.DevRebootCountdownAnsPayload{} }),
	mk("firmwaremanagement.DevUpgradeImageReqPayload", func() any { return &firmwaremanagement.DevUpgradeImageReqPayload{} }),
	mk("firmwaremanagement.DevUpgradeImageAnsPayload", func() any { return &firmwaremanagement.DevUpgradeImageAnsPayload{} }),
	mk("firmwaremanagement.DevDeleteImageReqPayload", func() any { return &firmwaremanagement.DevDeleteImageReqPayload{} }),
	mk("firmwaremanagement.DevDeleteImageAnsPayload", func() any { return &firmwaremanagement.DevDeleteImageAnsPayload{} }),

	mk("fragmentation.Command", func() any { return &fragmentation.Command{} }),
	mk("fragmentation.Commands", func() any { return &fragmentation.Commands{} }),
	mk("fragmentation.PackageVersionAnsPayload", func() any { return &fragmentation.PackageVersionAnsPayload{} }),
	mk("fragmentation.FragSessionSetupReqPayload", func() any { return &fragmentation.FragSessionSetupReqPayload{} }),
	mk("fragmentation.FragSessionSetupAnsPayload", func() any { return &fragmentation.FragSessionSetupAnsPayload{} }),
	mk("fragmentation.FragSessionDeleteReqPayload", func() any { return &fragmentation.FragSessionDeleteReqPayload{} }),
	mk("fragmentation.FragSessionDeleteAnsPayload", func() any { return &fragmentation.FragSessionDeleteAnsPayload{} }),
	mk("fragmentation.DataFragmentPayload", func() any { return &fragmentation.DataFragmentPayload{} }),
	mk("fragmentation.FragSessionStatusReqPayload", func() any { return &fragmentation.FragSessionStatusReqPayload{} }),
	mk("fragmentation.FragSessionStatusAnsPayload", func() any { return &fragmentation.FragSessionStatusAnsPayload{} }),

	mk("multicastsetup.Command", func() any { return &multicastsetup.Command{} }),
	mk("multicastsetup.Commands", func() any { return &multicastsetup.Commands{} }),
	mk("multicastsetup.PackageVersionAnsPayload", func() any { return &multicastsetup.PackageVersionAnsPayload{} }),
	mk("multicastsetup.McGroupStatusReqPayload", func() any { return &multicastsetup.McGroupStatusReqPayload{} }),
	mk("multicastsetup.McGroupStatusAnsPayload", func() any { return &multicastsetup.McGroupStatusAnsPayload{} }),
	mk("multicastsetup.McGroupSetupReqPayload", func() any { return &multicastsetup.McGroupSetupReqPayload{} }),
	mk("multicastsetup.McGroupSetupAnsPayload", func() any { return &multicastsetup.McGroupSetupAnsPayload{} }),
	mk("multicastsetup.McGroupDeleteReqPayload", func() any { return &multicastsetup.McGroupDeleteReqPayload{} }),
	mk("multicastsetup.McGroupDeleteAnsPayload", func() any { return &multicastsetup.McGroupDeleteAnsPayload{} }),
	mk("multicastsetup.McClassCSessionReqPayload", func() any { return &multicastsetup.McClassCSessionReqPayload{} }),
	mk("multicastsetup.McClassCSessionAnsPayload", func() any { return &multicastsetup.McClassCSessionAnsPayload{} }),
	mk("multicastsetup.McClassBSessionReqPayload", func() any { return &multicastsetup.McClassBSessionReqPayload{} }),
	mk("multicastsetup.McClassBSessionAnsPayload", func() any { return &multicastsetup.McClassBSessionAnsPayload{} }),
}

// DecoderByName finds a decoder.
func DecoderByName(n string) *Decoder {
	for i := range Decoders {
		if Decoders[i].Name == n {
			return &Decoders[i]
		}
	}
	return nil
}

func init() {
	// the 29 MAC command payloads
	names := make([]string, 0, len(NewPayload))
	for n := range NewPayload {
		names = append(names, n)
	}
	sort.Strings(names)
	for _, n := range names {
		f := NewPayload[n]
		Decoders = append(Decoders, mk("lorawan."+n+"Payload", func() any { return f() }))
	}
	for i := range Decoders {
		d := &Decoders[i]
		m := reflect.ValueOf(d.New()).MethodByName("UnmarshalBinary")
		if !m.IsValid() {
			panic("gen.Decoders: " + d.Name + " has no UnmarshalBinary")
		}
		d.Dir = m.Type().NumIn() == 2
	}
}

func probeAllLens() {
	for i := range Decoders {
		d := &Decoders[i]
		// length hints: where does a benign input decode?
		seen := map[int]bool{}
		for n := 0; n <= 64; n++ {
			for _, fill := range []byte{0x00, 0x01} {
				for _, up := range []bool{false, true} {
					b := make([]byte, n)
					for j := range b {
						b[j] = fill
					}
					ok := func() (ok bool) {
						defer func() {
							if recover() != nil {
								ok = false
							}
						}()
						return d.Decode(d.New(), up, b) == nil
					}()
					if ok {
						seen[n] = true
					}
				}
			}
		}
		for n := range seen {
			d.lens = append(d.lens, n)
		}
		sort.Ints(d.lens)
	}
}
