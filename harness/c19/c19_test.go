//go:build verif

// C19: the fragmentation encoder is systematic, linear and uses the parity
// matrix of TS004 (Fragmented Data Block Transport); invalid sizes are errors.
package c19

import (
	"bytes"
	"fmt"
	"math"
	"math/bits"
	"testing"

	"github.com/brocaar/lorawan/applayer/fragmentation"
	"pgregory.net/rapid"

	"verif/harness/internal/evid"
)

// --- reference model: TS004-1.0.0 appendix "Fragmentation algorithm" pseudo code ---
//
//	function prbs23(x):  b0 = x & 1; b1 = (x & 32) / 32; return floor(x/2) + (b0 xor b1) * 2^22
//	function matrix_line(N, M):
//	    m = 1 if M is a power of two else 0
//	    x = 1 + 1001 * N
//	    nb_coeff = 0
//	    while nb_coeff < floor(M/2):
//	        r = 2^16
//	        while r >= M: x = prbs23(x); r = x mod (M + m)
//	        matrix_line[r] = 1; nb_coeff += 1
//
// N is the 1-based index of the parity fragment (fragment M+N on the air), M the
// number of data fragments. The line is kept as a bit set.

type bitset []uint64

func newBitset(n int) bitset    { return make(bitset, (n+63)/64) }
func (b bitset) has(i int) bool { return b[i>>6]>>(uint(i)&63)&1 == 1 }
func (b bitset) set(i int)      { b[i>>6] |= 1 << (uint(i) & 63) }
func (b bitset) xor(o bitset) {
	for i := range b {
		b[i] ^= o[i]
	}
}
func (b bitset) clone() bitset { return append(bitset(nil), b...) }
func (b bitset) lowest() int { // index of the lowest set bit, -1 when empty
	for i, w := range b {
		if w != 0 {
			return i*64 + bits.TrailingZeros64(w)
		}
	}
	return -1
}
func (b bitset) indices(n int) []int {
	var out []int
	for i := 0; i < n; i++ {
		if b.has(i) {
			out = append(out, i)
		}
	}
	return out
}

func refPrbs23(x uint32) uint32 {
	b0 := x & 1
	b1 := (x >> 5) & 1 // (x & 32) / 32
	return x>>1 + (b0^b1)<<22
}

func refIsPow2(m int) bool { return m > 0 && bits.OnesCount64(uint64(m)) == 1 }

func refMatrixLine(n, m int) bitset {
	line := newBitset(m)
	mod := uint32(m)
	if refIsPow2(m) {
		mod++
	}
	x := uint32(1 + 1001*n)
	for nbCoeff := 0; nbCoeff < m/2; nbCoeff++ {
		r := uint32(1 << 16)
		for r >= uint32(m) {
			x = refPrbs23(x)
			r = x % mod
		}
		line.set(int(r))
	}
	return line
}

// refSelection is the selection vector of output fragment i (0-based) of an
// encoding with m data fragments: a unit vector for i < m, the parity line
// i-m+1 otherwise.
func refSelection(i, m int) bitset {
	if i < m {
		v := newBitset(m)
		v.set(i)
		return v
	}
	return refMatrixLine(i-m+1, m)
}

// --- reference decoder: Gaussian elimination over GF(2) on (selection vector, fragment) pairs ---

type gf2row struct {
	vec  bitset
	frag []byte
}

type gf2 struct {
	m    int
	piv  []*gf2row // piv[c]: the kept row whose lowest selected column is c
	rank int
}

func newGF2(m int) *gf2 { return &gf2{m: m, piv: make([]*gf2row, m)} }

func xorBytes(dst, src []byte) {
	for i := range dst {
		dst[i] ^= src[i]
	}
}

// add reduces one received pair by the kept rows. It reports false when the pair
// is a combination of the kept rows but its fragment is not the same combination
// of their fragments (the received set contradicts itself).
func (g *gf2) add(vec bitset, frag []byte) bool {
	v, f := vec.clone(), append([]byte(nil), frag...)
	for {
		c := v.lowest()
		if c < 0 {
			for _, x := range f {
				if x != 0 {
					return false
				}
			}
			return true
		}
		p := g.piv[c]
		if p == nil {
			g.piv[c] = &gf2row{v, f}
			g.rank++
			return true
		}
		v.xor(p.vec)
		xorBytes(f, p.frag)
	}
}

// solve returns the m data rows; only valid when rank == m.
func (g *gf2) solve() [][]byte {
	out := make([][]byte, g.m)
	for c := g.m - 1; c >= 0; c-- {
		p := g.piv[c]
		for j := c + 1; j < g.m; j++ {
			if p.vec.has(j) {
				xorBytes(p.frag, out[j]) // row j is already reduced to the unit vector j
			}
		}
		out[c] = p.frag
	}
	return out
}

// --- data blocks ---

// expand gives n bytes determined by seed (splitmix64 stream): uniform-looking
// rows from one generated number, so that a case stays small.
func expand(seed uint64, n int) []byte {
	out := make([]byte, n)
	x := seed
	for i := 0; i < n; i += 8 {
		x += 0x9e3779b97f4a7c15
		z := x
		z = (z ^ (z >> 30)) * 0xbf58476d1ce4e5b9
		z = (z ^ (z >> 27)) * 0x94d049bb133111eb
		z ^= z >> 31
		for k := 0; k < 8 && i+k < n; k++ {
			out[i+k] = byte(z >> (8 * uint(k)))
		}
	}
	return out
}

// block is the common part of the cases: Frags data fragments of FragSize bytes.
// The bytes are Data when given (hand written witnesses), else expand(Seed).
type block struct {
	FragSize   int      `json:"frag_size"`
	Frags      int      `json:"frags"`
	Redundancy int      `json:"redundancy"`
	Seed       uint64   `json:"data_seed"`
	Data       evid.Hex `json:"data,omitempty"`
}

func (b block) valid() bool {
	if b.FragSize < 1 || b.FragSize > 4096 || b.Frags < 1 || b.Frags > 4096 || b.Redundancy < 0 || b.Redundancy > 4096 {
		return false
	}
	return len(b.Data) == 0 || len(b.Data) == b.FragSize*b.Frags
}

func (b block) bytes() []byte {
	if len(b.Data) > 0 {
		return append([]byte(nil), b.Data...)
	}
	return expand(b.Seed, b.FragSize*b.Frags)
}

func (b block) String() string {
	return fmt.Sprintf("Encode(%d data fragments of %d bytes [seed %d], fragmentSize=%d, redundancy=%d)", b.Frags, b.FragSize, b.Seed, b.FragSize, b.Redundancy)
}

func mClass(m int) string {
	switch {
	case refIsPow2(m):
		return "pow2"
	case refIsPow2(m+1) || refIsPow2(m-1):
		return "pow2-neighbour"
	}
	return "other"
}

func genFrags(t *rapid.T) int {
	m := 1
	switch rapid.SampledFrom([]int{0, 0, 0, 1, 2, 2, 3, 3}).Draw(t, "fragsMode") {
	case 0: // a power of two and its neighbours
		m = 1<<rapid.UintRange(1, 8).Draw(t, "pow") + rapid.IntRange(-1, 1).Draw(t, "delta")
	case 1:
		m = rapid.SampledFrom([]int{1, 2, 3, 299, 300}).Draw(t, "edge")
	case 2:
		m = rapid.IntRange(1, 300).Draw(t, "frags")
	case 3:
		m = 301 - rapid.IntRange(1, 300).Draw(t, "fragsHigh")
	}
	if m < 1 {
		m = 1
	}
	if m > 300 {
		m = 300
	}
	return m
}

func genBlock(t *rapid.T) block {
	b := block{Frags: genFrags(t)}
	switch rapid.IntRange(0, 3).Draw(t, "sizeMode") {
	case 0:
		b.FragSize = rapid.SampledFrom([]int{1, 2, 63, 64}).Draw(t, "sizeEdge")
	case 1:
		b.FragSize = 65 - rapid.IntRange(1, 64).Draw(t, "sizeHigh")
	default:
		b.FragSize = rapid.IntRange(1, 64).Draw(t, "size")
	}
	switch rapid.IntRange(0, 5).Draw(t, "redMode") {
	case 0:
		b.Redundancy = rapid.SampledFrom([]int{0, 1, 100}).Draw(t, "redEdge")
	case 1:
		b.Redundancy = 100 - rapid.IntRange(0, 100).Draw(t, "redHigh")
	default:
		b.Redundancy = rapid.IntRange(0, 100).Draw(t, "red")
	}
	b.Seed = rapid.Uint64().Draw(t, "dataSeed")
	return b
}

func rowsOf(data []byte, fs int) [][]byte {
	var rows [][]byte
	for o := 0; o < len(data); o += fs {
		rows = append(rows, data[o:o+fs])
	}
	return rows
}

// refParity is the XOR of the rows the line selects.
func refParity(rows [][]byte, line bitset, fs int) []byte {
	p := make([]byte, fs)
	for i, r := range rows {
		if line.has(i) {
			xorBytes(p, r)
		}
	}
	return p
}

// encode calls the code under test on a private copy and checks the shape that
// every sub-check relies on: no error, exactly frags+redundancy fragments of
// fragSize bytes, input left untouched.
func encode(b block, data []byte) ([][]byte, string) {
	// the block as it usually arrives: a sub-slice of a larger buffer (a firmware image cut into blocks), i.e. with
	// spare capacity and foreign bytes behind it; for every fourth block a private exact-size copy instead
	var in, backing []byte
	spare := 0
	if b.Seed%4 != 0 {
		spare = b.FragSize*(b.Redundancy+1) + 16
	}
	backing = make([]byte, len(data)+spare)
	copy(backing, data)
	for i := len(data); i < len(backing); i++ {
		backing[i] = 0xC3 ^ byte(i)
	}
	in = backing[:len(data)]
	out, err := fragmentation.Encode(in, b.FragSize, b.Redundancy)
	for i := len(data); i < len(backing); i++ {
		if backing[i] != 0xC3^byte(i) {
			return nil, fmt.Sprintf("%s: the bytes behind the data block (spare capacity of the caller's slice, here the next block of the same buffer) were overwritten at offset +%d", b, i-len(data))
		}
	}
	if err != nil {
		return nil, fmt.Sprintf("%s: unexpected error %v for a length that is a multiple of the fragment size", b, err)
	}
	if len(out) != b.Frags+b.Redundancy {
		return nil, fmt.Sprintf("%s returns %d fragments, expected %d data + %d parity = %d", b, len(out), b.Frags, b.Redundancy, b.Frags+b.Redundancy)
	}
	for i, f := range out {
		if len(f) != b.FragSize {
			return nil, fmt.Sprintf("%s: fragment %d has %d bytes, expected %d", b, i, len(f), b.FragSize)
		}
	}
	if !bytes.Equal(in, data) {
		return nil, fmt.Sprintf("%s modified its input block", b)
	}
	return out, ""
}

// --- sub-check: parity matrix lines, all (M, N) ---

type lineCase struct {
	Frags int `json:"frags"` // M
	Index int `json:"index"` // N, 1-based parity index
}

// checkLine encodes the block of M unit vectors (row i = bit i) with redundancy
// N: the last parity fragment then spells the matrix line N of the encoder.
func checkLine(c lineCase) evid.Outcome {
	m, n := c.Frags, c.Index
	if m < 1 || m > 4096 || n < 1 || n > 4096 {
		return evid.Outcome{Skip: true}
	}
	fs := (m + 7) / 8
	data := make([]byte, m*fs)
	for i := 0; i < m; i++ {
		data[i*fs+i/8] = 1 << (uint(i) & 7)
	}
	b := block{FragSize: fs, Frags: m, Redundancy: n}
	out, bad := encode(b, data)
	if bad != "" {
		return evid.Fail("unit-vector block: %s", bad)
	}
	got := newBitset(m)
	for i := 0; i < fs*8; i++ {
		if out[m+n-1][i/8]>>(uint(i)&7)&1 == 1 {
			if i >= m {
				return evid.Fail("M=%d fragments, parity index N=%d: parity fragment of the unit-vector block has bit %d set, beyond the %d columns", m, n, i, m)
			}
			got.set(i)
		}
	}
	want := refMatrixLine(n, m)
	for i := range want {
		if got[i] != want[i] {
			return evid.Fail("M=%d fragments, parity index N=%d: encoder XORs data fragments %v, TS004 matrix_line(%d,%d) selects %v", m, n, got.indices(m), n, m, want.indices(m))
		}
	}
	return evid.Outcome{NonTrivial: m >= 2, Class: mClass(m)}
}

// --- sub-check: systematic prefix and parity rows on random blocks ---

func checkBlock(b block) evid.Outcome {
	if !b.valid() {
		return evid.Outcome{Skip: true}
	}
	data := b.bytes()
	rows := rowsOf(data, b.FragSize)
	out, bad := encode(b, data)
	if bad != "" {
		return evid.Fail("%s", bad)
	}
	for i := 0; i < b.Frags; i++ {
		if !bytes.Equal(out[i], rows[i]) {
			return evid.Fail("%s: output fragment %d is %x, expected data fragment %d unchanged = %x", b, i, out[i], i, rows[i])
		}
	}
	for y := 0; y < b.Redundancy; y++ {
		line := refMatrixLine(y+1, b.Frags)
		if want := refParity(rows, line, b.FragSize); !bytes.Equal(out[b.Frags+y], want) {
			return evid.Fail("%s: parity fragment %d (output %d) is %x, expected XOR of data fragments %v (matrix_line(%d,%d)) = %x", b, y+1, b.Frags+y, out[b.Frags+y], line.indices(b.Frags), y+1, b.Frags, want)
		}
	}
	return evid.Outcome{NonTrivial: b.Redundancy >= 1 && b.Frags >= 2, Class: mClass(b.Frags)}
}

// --- sub-check: linearity ---

type linCase struct {
	block
	SeedB uint64   `json:"data_seed_b"`
	DataB evid.Hex `json:"data_b,omitempty"`
}

func checkLinear(c linCase) evid.Outcome {
	if !c.valid() || (len(c.DataB) != 0 && len(c.DataB) != c.FragSize*c.Frags) {
		return evid.Outcome{Skip: true}
	}
	a := c.bytes()
	bb := block{FragSize: c.FragSize, Frags: c.Frags, Redundancy: c.Redundancy, Seed: c.SeedB, Data: c.DataB}
	b := bb.bytes()
	x := append([]byte(nil), a...)
	xorBytes(x, b)
	ea, bad := encode(c.block, a)
	if bad != "" {
		return evid.Fail("%s", bad)
	}
	eb, bad := encode(bb, b)
	if bad != "" {
		return evid.Fail("%s", bad)
	}
	ex, bad := encode(c.block, x)
	if bad != "" {
		return evid.Fail("block a xor b: %s", bad)
	}
	for i := range ex {
		want := append([]byte(nil), ea[i]...)
		xorBytes(want, eb[i])
		if !bytes.Equal(ex[i], want) {
			return evid.Fail("%s with block b from seed %d: fragment %d of Encode(a xor b) is %x, Encode(a)[%d] xor Encode(b)[%d] is %x", c.block, c.SeedB, i, ex[i], i, i, want)
		}
	}
	zero := true
	for _, v := range x {
		if v != 0 {
			zero = false
			break
		}
	}
	return evid.Outcome{NonTrivial: c.Redundancy >= 1 && c.Frags >= 2 && !zero, Class: mClass(c.Frags)}
}

// --- sub-check: decoding from erasures ---

type decCase struct {
	block
	Received []int `json:"received"` // indices into the encoder output, in arrival order
}

func genDec(t *rapid.T) decCase {
	b := genBlock(t)
	m, red := b.Frags, b.Redundancy
	// lose e data fragments and d parity fragments
	maxE := red + 2
	if maxE > m {
		maxE = m
	}
	e := 0
	switch rapid.IntRange(0, 4).Draw(t, "eraseMode") {
	case 0:
		e = rapid.IntRange(0, maxE).Draw(t, "erasedAny")
	case 1: // close to what the parity can repair
		e = red - rapid.IntRange(0, 6).Draw(t, "slack")
	default:
		e = 1
		if red > 1 {
			e = 1 + rapid.IntRange(0, red-1).Draw(t, "erased")*3/4
		}
	}
	if e < 1 && rapid.IntRange(0, 7).Draw(t, "keepAllData?") != 0 {
		e = 1
	}
	if e > maxE {
		e = maxE
	}
	d := 0
	if red > 0 && rapid.IntRange(0, 3).Draw(t, "dropParity?") == 0 {
		d = rapid.IntRange(0, red).Draw(t, "droppedParity")
	}
	pick := func(label string, n, k int, base int) map[int]bool { // k distinct of base..base+n-1
		idx := make([]int, n)
		for i := range idx {
			idx[i] = base + i
		}
		out := map[int]bool{}
		for i := 0; i < k; i++ {
			j := rapid.IntRange(i, n-1).Draw(t, label)
			idx[i], idx[j] = idx[j], idx[i]
			out[idx[i]] = true
		}
		return out
	}
	lostData := pick("lostData", m, e, 0)
	lostPar := pick("lostParity", red, d, m)
	var rx []int
	for i := 0; i < m+red; i++ {
		if !lostData[i] && !lostPar[i] {
			rx = append(rx, i)
		}
	}
	switch rapid.SampledFrom([]string{"asc", "desc", "parity-first", "rotate"}).Draw(t, "order") {
	case "desc":
		for i, j := 0, len(rx)-1; i < j; i, j = i+1, j-1 {
			rx[i], rx[j] = rx[j], rx[i]
		}
	case "parity-first":
		var p, q []int
		for _, i := range rx {
			if i >= m {
				p = append(p, i)
			} else {
				q = append(q, i)
			}
		}
		rx = append(p, q...)
	case "rotate":
		if len(rx) > 1 {
			k := rapid.IntRange(0, len(rx)-1).Draw(t, "rot")
			rx = append(append([]int(nil), rx[k:]...), rx[:k]...)
		}
	}
	return decCase{block: b, Received: rx}
}

func bucketN(n int) string {
	switch {
	case n == 0:
		return "0"
	case n <= 3:
		return "1-3"
	case n <= 15:
		return "4-15"
	}
	return ">=16"
}

func checkDecode(c decCase) evid.Outcome {
	if !c.valid() {
		return evid.Outcome{Skip: true}
	}
	m, total := c.Frags, c.Frags+c.Redundancy
	seen := make([]bool, total)
	erased := m
	for _, i := range c.Received {
		if i < 0 || i >= total || seen[i] {
			return evid.Outcome{Skip: true}
		}
		seen[i] = true
		if i < m {
			erased--
		}
	}
	data := c.bytes()
	out, bad := encode(c.block, data)
	if bad != "" {
		return evid.Fail("%s", bad)
	}
	g := newGF2(m)
	for _, i := range c.Received {
		if !g.add(refSelection(i, m), out[i]) {
			return evid.Fail("%s: received fragment %d (selection per TS004: data fragments %v) is not the XOR combination of the fragments received before it that its selection vector is; received order %v", c.block, i, refSelection(i, m).indices(m), c.Received)
		}
	}
	cls := mClass(m) + "/erased" + bucketN(erased)
	if g.rank < m {
		return evid.Outcome{Class: cls + "/rank-deficient"}
	}
	rec := g.solve()
	rows := rowsOf(data, c.FragSize)
	for i := range rows {
		if !bytes.Equal(rec[i], rows[i]) {
			return evid.Fail("%s: received fragments %v have selection vectors of full rank %d, yet GF(2) elimination with the TS004 parity lines recovers data fragment %d as %x, original is %x", c.block, c.Received, m, i, rec[i], rows[i])
		}
	}
	return evid.Outcome{NonTrivial: c.Redundancy >= 1 && erased >= 1, Class: cls + "/full-rank"}
}

// --- sub-checks: invalid sizes ---

type invalidCase struct {
	DataLen    int `json:"data_len"`
	FragSize   int `json:"frag_size"`
	Redundancy int `json:"redundancy"`
}

func checkInvalid(c invalidCase) (o evid.Outcome) {
	if c.DataLen < 0 || c.DataLen > 1<<20 || c.Redundancy < 0 || c.Redundancy > 4096 {
		return evid.Outcome{Skip: true}
	}
	kind := "non-dividing"
	switch {
	case c.FragSize == 0:
		kind = "zero"
	case c.FragSize < 0 && c.DataLen%c.FragSize == 0:
		kind = "negative/dividing"
	case c.FragSize < 0:
		kind = "negative/non-dividing"
	case c.DataLen%c.FragSize == 0:
		return evid.Outcome{Skip: true} // a valid size
	}
	data := make([]byte, c.DataLen)
	for i := range data {
		data[i] = byte(i + 1)
	}
	what := fmt.Sprintf("Encode(%d bytes, fragmentSize=%d, redundancy=%d)", c.DataLen, c.FragSize, c.Redundancy)
	defer func() {
		if p := recover(); p != nil {
			o = evid.Fail("%s panics: %v; expected an error return for the invalid fragment size (%s)", what, p, kind)
		}
	}()
	out, err := fragmentation.Encode(data, c.FragSize, c.Redundancy)
	if err == nil {
		return evid.Fail("%s returns %d fragments and no error; expected an error for the invalid fragment size (%s)", what, len(out), kind)
	}
	// the same block as the head of a larger buffer (bytes.Buffer, a file read buffer): the bytes behind the block
	// are not part of it, the size is as invalid as before
	fs := c.FragSize
	if fs < 0 {
		fs = -fs
	}
	if fs < 0 || fs > 4096 {
		fs = 64
	}
	big := make([]byte, c.DataLen+2*fs+16)
	for i := range big {
		big[i] = byte(i + 1)
	}
	what = fmt.Sprintf("Encode(the first %d bytes of a %d-byte buffer, fragmentSize=%d, redundancy=%d)", c.DataLen, len(big), c.FragSize, c.Redundancy)
	out, err = fragmentation.Encode(big[:c.DataLen], c.FragSize, c.Redundancy)
	if err == nil {
		return evid.Fail("%s returns %d fragments and no error; expected an error for the invalid fragment size (%s)", what, len(out), kind)
	}
	return evid.Outcome{NonTrivial: true, Class: kind}
}

func TestProp(t *testing.T) {
	r := evid.Begin(t, "C19")
	defer r.Finish()

	evid.Exhaustive(r, t, "matrix-lines",
		"all fragment counts M 1..300 x parity indices N 1..100: encode the block of M unit vectors (row i = bit i, fragment size ceil(M/8)) with redundancy N; the last parity fragment spells the encoder's line N. Oracle: matrix_line(N,M)/prbs23 re-implemented from the TS004 appendix pseudo code. Non-trivial: M >= 2 (the line has at least one coefficient).",
		true,
		func(emit func(lineCase)) {
			for m := 1; m <= 300; m++ {
				for n := 1; n <= 100; n++ {
					emit(lineCase{Frags: m, Index: n})
				}
			}
		}, checkLine)

	evid.Rapid(r, t, "systematic-parity",
		"blocks: fragment count 1..300 (3/8 a power of two or its neighbour, edges 1,2,3,299,300, small- and large-biased ranges), fragment size 1..64, redundancy 0..100, uniform-looking bytes expanded from a drawn seed. Oracle: exactly M+redundancy fragments of the fragment size, input untouched, output i == data row i for i < M, parity y == XOR of the rows selected by the TS004 model line y+1. Non-trivial: redundancy >= 1 and M >= 2.",
		8000, 80000, genBlock, checkBlock)

	evid.Rapid(r, t, "linearity",
		"two blocks a, b of the same shape (as in systematic-parity): Encode(a xor b) == Encode(a) xor Encode(b) fragment by fragment. Non-trivial: redundancy >= 1, M >= 2 and a != b.",
		4000, 40000,
		func(t *rapid.T) linCase {
			return linCase{block: genBlock(t), SeedB: rapid.Uint64().Draw(t, "dataSeedB")}
		}, checkLinear)

	evid.Rapid(r, t, "decode-erasures",
		"a block as in systematic-parity plus an erasure pattern: e lost data fragments (0..min(M,redundancy+2), mostly near what the parity can repair), sometimes lost parity fragments, arrival order ascending / descending / parity first / rotated. Oracle: Gaussian elimination over GF(2) on (TS004 model selection vector, encoder fragment) pairs; a pair that is dependent on earlier ones must be consistent with them; if the received vectors have rank M the recovered block must equal the original (lower rank is counted by class, not failed). Non-trivial: redundancy >= 1, at least one erased data fragment, full rank.",
		8000, 80000, genDec, checkDecode)

	lens := r.N(40, 200)
	reds := []int{3, 1, 0}
	rule := "Encode must return an error and must not panic, for the block given as an exactly sized slice and as the head of a larger buffer. Data = counting bytes. Every case is non-trivial."
	evid.Exhaustive(r, t, "invalid-size-zero",
		fmt.Sprintf("fragment size 0 x data length 0..%d x redundancy {3,1,0}. %s", lens, rule), false,
		func(emit func(invalidCase)) {
			for i := 0; i <= lens; i++ {
				l := (i + 10) % (lens + 1) // start with a non-empty block
				for _, red := range reds {
					emit(invalidCase{DataLen: l, FragSize: 0, Redundancy: red})
				}
			}
		}, checkInvalid)
	evid.Exhaustive(r, t, "invalid-size-negative",
		fmt.Sprintf("fragment sizes -1..-64, -300, min int32, min int64 x data length 0..%d (dividing and non-dividing) x redundancy {3,1,0}. %s", lens, rule), false,
		func(emit func(invalidCase)) {
			var sizes []int
			for s := -1; s >= -64; s-- {
				sizes = append(sizes, s)
			}
			sizes = append(sizes, -300, math.MinInt32, math.MinInt64)
			for _, s := range sizes {
				for i := 0; i <= lens; i++ {
					l := (i + 10) % (lens + 1)
					for _, red := range reds {
						emit(invalidCase{DataLen: l, FragSize: s, Redundancy: red})
					}
				}
			}
		}, checkInvalid)
	evid.Exhaustive(r, t, "invalid-size-non-dividing",
		fmt.Sprintf("fragment sizes 2..65, 300, 1000 x every data length 1..%d that is not a multiple x redundancy {3,0}. %s", 4*lens, rule), false,
		func(emit func(invalidCase)) {
			sizes := []int{300, 1000}
			for s := 2; s <= 65; s++ {
				sizes = append(sizes, s)
			}
			for _, s := range sizes {
				for l := 1; l <= 4*lens; l++ {
					if l%s == 0 {
						continue
					}
					emit(invalidCase{DataLen: l, FragSize: s, Redundancy: 3})
					emit(invalidCase{DataLen: l, FragSize: s, Redundancy: 0})
				}
			}
		}, checkInvalid)
}
