//go:build verif

// C08: accepted frames are canonical - they re-encode to exactly the received bytes.
package c08

import (
	"bytes"
	"encoding/base64"
	"encoding/json"
	"fmt"
	"os"
	"reflect"
	"strings"
	"testing"

	"github.com/brocaar/lorawan"
	"pgregory.net/rapid"

	"verif/harness/internal/evid"
	"verif/harness/internal/gen"
	"verif/harness/internal/ref"
)

var run *evid.Run

type canonCase struct {
	Bytes evid.Hex `json:"bytes"`
	How   string   `json:"how"`
	// Prev: a frame that the same PHYPayload variable decoded before (a receive loop that reuses its variable)
	Prev evid.Hex `json:"prev,omitempty"`
}

// inK1 is the known-finding class: data frame, FOptsLen > 0, FPort byte 0, empty FRMPayload.
func inK1(b []byte) bool {
	if len(b) < 13 || !ref.IsData(b[0]>>5) {
		return false
	}
	n := int(b[5] & 0x0f)
	return n > 0 && len(b) == 1+7+n+1+4 && b[8+n] == 0
}

// judge returns (accepted, violation text).
func judge(in []byte) (bool, string) { return judgeAfter(in, nil) }

func judgeAfter(in, prev []byte) (bool, string) {
	b := append([]byte{}, in...)
	var p lorawan.PHYPayload
	if prev != nil {
		_ = p.UnmarshalBinary(append([]byte{}, prev...))
	}
	if err := p.UnmarshalBinary(b); err != nil {
		return false, "" // nothing is asserted about rejected inputs
	}
	if !bytes.Equal(b, in) {
		return true, fmt.Sprintf("decoding %x changed the caller's buffer to %x (a received frame is verified, forwarded or logged from that buffer)", in, b)
	}
	for i := range b {
		b[i] = ^b[i] // the receive buffer is reused: "verify, forward or log a received frame without it changing"
	}
	out, err := p.MarshalBinary()
	if err != nil {
		return true, fmt.Sprintf("the decoder accepts %x but the decoded frame cannot be re-encoded: %v", in, err)
	}
	if !bytes.Equal(out, in) {
		return true, fmt.Sprintf("the decoder accepts %x but re-encoding gives %x", in, out)
	}
	// "... or log a received frame without it changing": the frame goes through the formatting verbs and the JSON and
	// text encoders a log line uses, and still re-encodes to what was received
	_ = fmt.Sprintf("%v %+v %s", p, &p, p)
	_, _ = json.Marshal(p)
	_, _ = json.Marshal(&p)
	_, _ = p.MarshalText()
	if logged, err := p.MarshalBinary(); err != nil || !bytes.Equal(logged, in) {
		return true, fmt.Sprintf("the frame decoded from %x was logged (fmt %%v %%+v %%s, json.Marshal, MarshalText) and then re-encodes to %x (err %v)", in, logged, err)
	}
	var q lorawan.PHYPayload
	if err := q.UnmarshalBinary(append([]byte{}, out...)); err != nil {
		return true, fmt.Sprintf("the re-encoding %x of an accepted frame is rejected: %v", out, err)
	}
	if prev == nil && !reflect.DeepEqual(p, q) {
		return true, fmt.Sprintf("decoding the re-encoding of %x gives a different frame: %+v vs %+v", in, p, q)
	}
	if prev != nil {
		if out2, err := q.MarshalBinary(); err != nil || !bytes.Equal(out2, in) {
			return true, fmt.Sprintf("decoding the re-encoding of %x and encoding again gives %x (err %v)", in, out2, err)
		}
	}
	// the decoded frame is queued by value and its variable receives the next frame: the queued value still re-encodes to the input
	queued := p
	_ = p.UnmarshalBinary(gen.Decoy(in))
	if qb, err := queued.MarshalBinary(); err != nil || !bytes.Equal(qb, in) {
		return true, fmt.Sprintf("the frame decoded from %x was kept by value while the same variable decoded %x: the kept value now re-encodes to %x (err %v)", in, gen.Decoy(in), qb, err)
	}
	// the forwarded bytes stay what they are while the next frame is handled
	var o lorawan.PHYPayload
	if err := o.UnmarshalBinary(append([]byte{}, otherFrame...)); err == nil {
		if ob, err := o.MarshalBinary(); err != nil || !bytes.Equal(ob, otherFrame) {
			return true, fmt.Sprintf("after %x was decoded and re-encoded, the frame %x re-encodes to %x (err %v)", in, otherFrame, ob, err)
		}
	}
	if !bytes.Equal(out, in) {
		return true, fmt.Sprintf("the re-encoding of %x read the same bytes; after the frame %x was decoded and encoded the returned slice reads %x", in, otherFrame, out)
	}
	return true, ""
}

// otherFrame: a confirmed uplink with FOpts, FPort and payload, handled after the frame under test
var otherFrame = []byte{0x80, 0xd4, 0xc3, 0xb2, 0xa1, 0x82, 0x21, 0x43, 0x02, 0x0d, 0x07, 0x11, 0x22, 0x33, 0x44, 0x55, 0x66, 0x77, 0x88}

func checkCanon(c canonCase) evid.Outcome {
	if len(c.Bytes) > 0 && c.Bytes[0]&0x1c != 0 {
		return evid.Outcome{Skip: true} // the property is stated for reserved MHDR bits zero
	}
	accepted, v := judgeAfter(c.Bytes, c.Prev)
	if v != "" && c.Prev != nil {
		v = fmt.Sprintf("(decoded into a PHYPayload variable that had decoded %x before) %s", []byte(c.Prev), v)
	}
	mt := -1
	if len(c.Bytes) > 0 {
		mt = int(c.Bytes[0] >> 5)
	}
	cls := fmt.Sprintf("%s/mtype%d/accepted=%v", c.How, mt, accepted)
	if v != "" {
		o := evid.Outcome{Violation: v, Class: cls}
		if inK1(c.Bytes) {
			o.Known = "K1"
		}
		return o
	}
	return evid.Outcome{NonTrivial: accepted && c.How != "valid", Class: cls, Key: c.Bytes}
}

func frameBytes(t *rapid.T, label string) []byte {
	f := gen.AnyFrame(t)
	b := f.Encode()
	if f.MType == ref.MTJoinAccept && rapid.Bool().Draw(t, label+"enc") {
		// what is on the air: the encrypted form
		k := gen.Key(t, label+"key")
		b = append([]byte{b[0]}, ref.JoinAcceptEncrypt(k, b[1:])...)
	}
	return b
}

func genCanon(t *rapid.T) canonCase {
	how := rapid.SampledFrom([]string{"uniform", "uniform-sized", "valid", "truncate", "extend", "flip", "foptslen", "rejointype", "splice", "fport0", "mtype"}).Draw(t, "how")
	var b []byte
	switch how {
	case "uniform":
		b = gen.Bytes(t, "bytes", rapid.IntRange(0, 256).Draw(t, "n"))
	case "uniform-sized":
		// lengths at which the fixed-size message types are accepted
		n := rapid.SampledFrom([]int{5, 12, 13, 17, 18, 19, 23, 24, 28, 33, 12 + 15, 12 + 16}).Draw(t, "n")
		b = gen.Bytes(t, "bytes", n)
		b[0] = byte(rapid.IntRange(0, 7).Draw(t, "mtype"))<<5 | b[0]&3
		if b[0]>>5 == ref.MTRejoin && len(b) > 1 {
			b[1] = byte(rapid.IntRange(0, 3).Draw(t, "rjtype"))
		}
	default:
		b = frameBytes(t, "a")
		switch how {
		case "truncate":
			k := rapid.IntRange(1, 8).Draw(t, "k")
			if k > len(b) {
				k = len(b)
			}
			if rapid.Bool().Draw(t, "front") {
				b = append([]byte{b[0]}, b[minInt(len(b), 1+k):]...)
			} else {
				b = b[:len(b)-k]
			}
		case "extend":
			b = append(b, gen.Bytes(t, "extra", rapid.IntRange(1, 20).Draw(t, "k"))...)
		case "flip":
			i := rapid.IntRange(0, len(b)*8-1).Draw(t, "bit")
			b[i/8] ^= 1 << uint(i%8)
		case "foptslen":
			if len(b) > 5 {
				b[5] = b[5]&0xf0 | byte(rapid.IntRange(0, 15).Draw(t, "n"))
			}
		case "rejointype":
			if len(b) > 1 {
				b[0] = ref.MTRejoin<<5 | b[0]&3
				b[1] = byte(rapid.SampledFrom([]int{0, 1, 2, 3, 255}).Draw(t, "rjtype"))
			}
		case "splice":
			c := frameBytes(t, "b")
			i, j := rapid.IntRange(0, len(b)).Draw(t, "i"), rapid.IntRange(0, len(c)).Draw(t, "j")
			b = append(append([]byte{}, b[:i]...), c[j:]...)
		case "fport0":
			if len(b) >= 13 && ref.IsData(b[0]>>5) {
				n := int(b[5] & 0x0f)
				if 8+n < len(b)-4 {
					b[8+n] = 0
					if rapid.Bool().Draw(t, "cut") {
						b = append(b[:9+n:9+n], b[len(b)-4:]...) // FPort 0 and no FRMPayload
					}
				}
			}
		case "mtype":
			b[0] = byte(rapid.IntRange(0, 7).Draw(t, "mtype"))<<5 | b[0]&3
		}
	}
	if len(b) > 0 {
		b[0] &= 0xE3
	}
	if len(b) > 256 {
		b = b[:256]
	}
	c := canonCase{Bytes: b, How: how}
	if rapid.IntRange(0, 2).Draw(t, "reuse") == 0 {
		c.Prev = gen.AnyFrame(t).Encode()
	}
	return c
}

// ---- the text door: a frame received as base64 text is the frame its bytes stand for ----

type textCase struct {
	Text string `json:"text"`
	How  string `json:"how"`
}

const hexAlphabet = "0123456789abcdefABCDEF"

func genText(t *rapid.T) textCase {
	how := rapid.SampledFrom([]string{"frame", "frame", "hex-alphabet", "digits", "letters"}).Draw(t, "how")
	if how == "frame" {
		c := genCanon(t)
		return textCase{Text: base64.StdEncoding.EncodeToString(c.Bytes), How: how + "/" + c.How}
	}
	// base64 texts that could be mistaken for another notation: only hexadecimal digits / only decimal digits / only
	// letters, no padding (4k characters). The first character keeps the reserved MHDR bits zero.
	alpha := map[string]string{"hex-alphabet": hexAlphabet, "digits": "0123456789", "letters": "ABCDEFabcdefghijklmnopqrstuvwxyz"}[how]
	first := map[string]string{"hex-alphabet": "A4", "digits": "4", "letters": "AIQYgow"}[how]
	n := 4 * rapid.IntRange(2, 24).Draw(t, "groups")
	b := []byte{first[rapid.IntRange(0, len(first)-1).Draw(t, "c0")]}
	for len(b) < n {
		b = append(b, alpha[rapid.IntRange(0, len(alpha)-1).Draw(t, "c")])
	}
	return textCase{Text: string(b), How: how}
}

func checkText(c textCase) evid.Outcome {
	raw, err := base64.StdEncoding.DecodeString(c.Text)
	if err != nil || len(raw) > 0 && raw[0]&0x1c != 0 {
		return evid.Outcome{Skip: true} // not base64 / reserved MHDR bits set: outside the property
	}
	var viaBin, viaText lorawan.PHYPayload
	errBin := viaBin.UnmarshalBinary(append([]byte{}, raw...))
	errText := viaText.UnmarshalText([]byte(c.Text))
	cls := fmt.Sprintf("%s/accepted=%v", c.How, errText == nil)
	if (errBin == nil) != (errText == nil) {
		return evid.Outcome{Violation: fmt.Sprintf("the text %q is base64 for %x: UnmarshalBinary of the bytes answers %v, UnmarshalText of the text %v - the two doors disagree on whether this is a frame", c.Text, raw, errBin, errText), Class: cls}
	}
	if errText != nil {
		return evid.Outcome{Class: cls}
	}
	out, err := viaText.MarshalBinary()
	if err != nil || !bytes.Equal(out, raw) {
		o := evid.Outcome{Violation: fmt.Sprintf("the frame received as text %q (= %x) re-encodes to %x (err %v)", c.Text, raw, out, err), Class: cls}
		if inK1(raw) {
			o.Known = "K1"
		}
		return o
	}
	if txt, err := viaText.MarshalText(); err != nil || string(txt) != base64.StdEncoding.EncodeToString(raw) {
		return evid.Outcome{Violation: fmt.Sprintf("the frame received as text %q re-encodes to the text %q (err %v), want %q", c.Text, txt, err, base64.StdEncoding.EncodeToString(raw)), Class: cls}
	}
	return evid.Outcome{NonTrivial: !strings.HasPrefix(c.How, "frame/valid"), Class: cls, Key: []byte(c.Text)}
}

func minInt(a, b int) int {
	if a < b {
		return a
	}
	return b
}

func TestProp(t *testing.T) {
	r := evid.Begin(t, "C08")
	defer r.Finish()
	run = r
	evid.Rapid(r, t, "canonical",
		"rapid: byte strings of length 0..256 with the reserved MHDR bits zero: uniform random; uniform at the lengths the fixed-size message types accept; and structure-aware mutations of valid frames of all 8 MTypes (unchanged, truncated front/back, extended, one bit flipped, FOptsLen nibble overwritten, rejoin type byte overwritten, two frames spliced, FPort byte zeroed with/without cutting the payload, MType overwritten). Oracle: if UnmarshalBinary accepts b then MarshalBinary succeeds and returns exactly b, and decoding that again gives a deeply equal frame; nothing is asserted about rejected inputs; a third of the cases decode into a PHYPayload variable that decoded another valid frame before (a receive loop reusing its variable), with the same oracle. Known finding K1 (FOptsLen>0, FPort byte 0, empty FRMPayload: accepted but not encodable) is excluded by a predicate on the input bytes and counted. Non-trivial: an accepted input that is not an unmodified encoder-model output.",
		400000, 16000000, genCanon, checkCanon)

	evid.Rapid(r, t, "text-door",
		"rapid: base64 texts - of the byte strings of sub-check canonical (2/5), and texts of 8..96 characters without padding drawn only from the hexadecimal digits, only from the decimal digits, or only from letters (first character chosen so that the reserved MHDR bits are zero), i.e. base64 that could be mistaken for another notation. Oracle: UnmarshalText accepts the text exactly when UnmarshalBinary accepts the bytes the text stands for (standard base64 decoder of the Go library); an accepted frame re-encodes to exactly those bytes and to their canonical base64 text. Non-trivial: accepted and not an unmodified valid frame.",
		60000, 3000000, genText, checkText)

	// the committed fuzz corpus is replayed in both tiers (the fuzz engine itself runs in the thorough tier only)
	evid.RunManual(r, t, "corpus-replay", "exhaustive",
		"every input of the committed seed corpus testdata/fuzz/FuzzCanonical (suite vectors, minimal frames per MType, hostile constants) through the same oracle",
		true, checkCanon, func(m *evid.Manual[canonCase]) {
			if r.Shard != 0 {
				return
			}
			for _, b := range seedCorpus() {
				bb := append([]byte{}, b...)
				if len(bb) > 0 {
					bb[0] &= 0xE3
				}
				m.Eval(canonCase{Bytes: bb, How: "corpus"})
			}
		})
}

func k1ActiveFromFile() bool {
	p := os.Getenv("VERIF_KNOWN")
	if p == "" {
		p = "../../known_findings.json" // go test runs in the package directory
	}
	raw, err := os.ReadFile(p)
	if err != nil {
		return false
	}
	var all []evid.KnownEntry
	if json.Unmarshal(raw, &all) != nil {
		return false
	}
	for _, e := range all {
		if e.Property == "C08" && e.ID == "K1" && e.Kind == "known" {
			var c canonCase
			if json.Unmarshal(e.Case, &c) == nil {
				if _, v := judge(c.Bytes); v != "" {
					return true
				}
			}
		}
	}
	return false
}

// seedCorpus: vectors of the repository's own tests plus minimal frames per MType and hostile constants.
func seedCorpus() [][]byte {
	hexs := []string{
		"40040302018000000101a6942bc32c", "600403020180010001006ce7fd3", "0001010101010101010202020202020202ffff09b90b5a",
		"20234d06f8ca4e4f0f9f3f0e2d9a4f4e36", "c00100020001010101010101016400000a0b0c0d", "e0010203040506",
		"c0010102030405060708010203040506070800010a0b0c0d", "4004030201000000", "40040302010f000002020202020202020202020202020211223344",
		"4004030201010000020011223344", "600403020105000006060606060001aabbccdd", "8004030201200100010203040506070811223344",
		"a0040302012f01000606060606060606060606060606060011223344", "00", "", "ffffffffff", "e000000000", "c003000000000000000000000000000000000000",
	}
	var out [][]byte
	for _, h := range hexs {
		var hb evid.Hex
		if len(h)%2 == 1 {
			h += "0"
		}
		if err := json.Unmarshal([]byte(`"`+h+`"`), &hb); err == nil {
			out = append(out, hb)
		}
	}
	for mt := 0; mt < 8; mt++ {
		for _, n := range []int{5, 12, 13, 17, 18, 19, 23, 24, 28, 33} {
			b := make([]byte, n)
			b[0] = byte(mt) << 5
			out = append(out, b)
		}
	}
	return out
}

func FuzzCanonical(f *testing.F) {
	for _, b := range seedCorpus() {
		f.Add(b)
	}
	k1 := k1ActiveFromFile()
	f.Fuzz(func(t *testing.T, in []byte) {
		if len(in) > 256 {
			in = in[:256]
		}
		b := append([]byte{}, in...)
		if len(b) > 0 {
			b[0] &= 0xE3
		}
		if _, v := judge(b); v != "" {
			if k1 && inK1(b) {
				return
			}
			t.Fatalf("%s", v)
		}
	})
}
