//go:build verif

// C04: join / rejoin / join-accept MICs and join-accept encryption follow the spec.
package c04

import (
	"bytes"
	"fmt"
	"testing"

	"github.com/brocaar/lorawan"
	"pgregory.net/rapid"

	"verif/harness/internal/evid"
	"verif/harness/internal/gen"
	"verif/harness/internal/ref"
)

type pert struct {
	Kind string `json:"kind"`
	A    int    `json:"a"`
}

type joinCase struct {
	F        ref.Frame `json:"frame"`
	Key      evid.Hex  `json:"key"`
	EncKey   evid.Hex  `json:"enckey"`
	ReqType  byte      `json:"joinreqtype"` // 0xff join-request, 0/1/2 rejoin
	JoinEUI  uint64    `json:"joineui"`
	DevNonce uint16    `json:"devnonce"`
	Perts    []pert    `json:"perts"`
}

func toKey(h evid.Hex) (k ref.Key) { copy(k[:], h); return }

func refMIC(c *joinCase) [4]byte {
	if c.F.MType == ref.MTJoinAccept {
		return ref.JoinAcceptMIC(toKey(c.Key), c.F.OptNeg, c.ReqType, c.JoinEUI, c.DevNonce, c.F.Msg())
	}
	return ref.JoinMIC(toKey(c.Key), c.F.Msg())
}

func libSet(c *joinCase) (lorawan.PHYPayload, error) {
	p, err := gen.ToLib(&c.F, true)
	if err != nil {
		return p, err
	}
	if c.F.MType == ref.MTJoinAccept {
		err = p.SetDownlinkJoinMIC(lorawan.JoinType(c.ReqType), gen.EUI(c.JoinEUI), lorawan.DevNonce(c.DevNonce), gen.LibKey(toKey(c.Key)))
	} else {
		err = p.SetUplinkJoinMIC(gen.LibKey(toKey(c.Key)))
	}
	return p, err
}

func libValidate(c *joinCase, mic [4]byte) (bool, error) {
	p, err := gen.ToLib(&c.F, true)
	if err != nil {
		return false, err
	}
	p.MIC = lorawan.MIC(mic)
	if c.F.MType == ref.MTJoinAccept {
		return p.ValidateDownlinkJoinMIC(lorawan.JoinType(c.ReqType), gen.EUI(c.JoinEUI), lorawan.DevNonce(c.DevNonce), gen.LibKey(toKey(c.Key)))
	}
	return p.ValidateUplinkJoinMIC(gen.LibKey(toKey(c.Key)))
}

var pertKinds = []string{"key", "reqtype", "joineui", "devnonce", "field", "field", "major"}

func apply(c joinCase, p pert) (joinCase, bool) {
	d := c
	if c.F.CFList != nil {
		cf := *c.F.CFList
		cf.Masks = append([]uint16{}, cf.Masks...)
		d.F.CFList = &cf
	}
	switch p.Kind {
	case "key":
		d.Key = append(evid.Hex{}, c.Key...)
		d.Key[p.A/8%16] ^= 1 << uint(p.A%8)
	case "reqtype":
		d.ReqType = []byte{0xff, 0, 1, 2}[(indexOf(c.ReqType)+1+p.A%3)%4]
	case "joineui":
		d.JoinEUI ^= 1 << uint(p.A%64)
	case "devnonce":
		d.DevNonce ^= 1 << uint(p.A%16)
	case "major":
		d.F.Major ^= byte(1 + p.A%3)
	case "field":
		switch c.F.MType {
		case ref.MTJoinRequest:
			switch p.A % 3 {
			case 0:
				d.F.JoinEUI ^= 1 << uint(p.A/3%64)
			case 1:
				d.F.DevEUI ^= 1 << uint(p.A/3%64)
			default:
				d.F.DevNonce ^= 1 << uint(p.A/3%16)
			}
		case ref.MTRejoin:
			switch p.A % 3 {
			case 0:
				if c.F.RejoinType == 1 {
					d.F.JoinEUI ^= 1 << uint(p.A/3%64)
				} else {
					d.F.NetID ^= 1 << uint(p.A/3%24)
				}
			case 1:
				d.F.DevEUI ^= 1 << uint(p.A/3%64)
			default:
				d.F.RJCount ^= 1 << uint(p.A/3%16)
			}
		case ref.MTJoinAccept:
			switch p.A % 6 {
			case 0:
				d.F.JoinNonce ^= 1 << uint(p.A/6%24)
			case 1:
				d.F.NetID ^= 1 << uint(p.A/6%24)
			case 2:
				d.F.DevAddr ^= 1 << uint(p.A/6%32)
			case 3:
				d.F.RX2DR ^= 1 << uint(p.A/6%4)
			case 4:
				d.F.RXDelay ^= 1 << uint(p.A/6%4)
			default:
				if d.F.CFList == nil {
					d.F.RX1DROffset ^= 1 << uint(p.A/6%3)
				} else if d.F.CFList.Type == 0 {
					i := p.A / 6 % 5
					d.F.CFList.Freqs[i] = (d.F.CFList.Freqs[i]/100 ^ 1<<uint(p.A/30%24)) * 100
				} else {
					d.F.CFList.Masks[p.A/6%len(d.F.CFList.Masks)] ^= 1 << uint(p.A/36%16)
				}
			}
		}
	default:
		return d, false
	}
	return d, true
}

func encOrNil(f *ref.Frame) []byte {
	if f == nil {
		return nil
	}
	return f.Encode()
}

func indexOf(t byte) int {
	for i, v := range []byte{0xff, 0, 1, 2} {
		if v == t {
			return i
		}
	}
	return 0
}

func genCase(t *rapid.T) joinCase {
	var f *ref.Frame
	switch rapid.IntRange(0, 3).Draw(t, "kind") {
	case 0:
		f = gen.JoinRequest(t)
	case 1:
		f = gen.Rejoin(t)
	default:
		f = gen.JoinAccept(t)
	}
	k, ek := gen.Key(t, "key"), gen.Key(t, "enckey")
	c := joinCase{F: *f, Key: k[:], EncKey: ek[:]}
	c.ReqType = rapid.SampledFrom([]byte{0xff, 0, 1, 2}).Draw(t, "reqtype")
	c.JoinEUI = gen.U64(t, "mic-joineui")
	c.DevNonce = uint16(gen.U32(t, "mic-devnonce"))
	n := rapid.IntRange(3, 8).Draw(t, "nperts")
	for i := 0; i < n; i++ {
		c.Perts = append(c.Perts, pert{Kind: rapid.SampledFrom(pertKinds).Draw(t, "kind"), A: rapid.IntRange(0, 4095).Draw(t, "a")})
	}
	return c
}

func checkCase(c joinCase) evid.Outcome {
	want := refMIC(&c)
	p, err := libSet(&c)
	if err != nil {
		return evid.Fail("Set*JoinMIC fails on a valid frame: %v", err)
	}
	if [4]byte(p.MIC) != want {
		return evid.Fail("Set*JoinMIC gives %x, specification gives %x (MType %d OptNeg=%v JoinReqType=%#x JoinEUI=%016x DevNonce=%#x msg=%x)", p.MIC[:], want[:], c.F.MType, c.F.OptNeg, c.ReqType, c.JoinEUI, c.DevNonce, c.F.Msg())
	}
	if ok, err := libValidate(&c, want); err != nil || !ok {
		return evid.Fail("Validate*JoinMIC rejects the specification MIC (ok=%v err=%v)", ok, err)
	}
	if c.F.MType != ref.MTJoinAccept {
		// receive path: the frame as decoded from the wire validates against the specification MIC
		g := c.F
		g.MIC = want
		// half of the cases receive in a loop: one variable, the decoded value kept by value, the variable decodes the next frame
		loop := want[0]&1 == 1
		q, err := gen.Receive(g.Encode(), loop)
		if err != nil {
			return evid.Fail("UnmarshalBinary(%x): %v", g.Encode(), err)
		}
		if ok, err := q.ValidateUplinkJoinMIC(gen.LibKey(toKey(c.Key))); err != nil || !ok {
			return evid.Fail("the frame %x decoded from the wire (in a receive loop, the value kept while its variable decoded the next frame: %v) carries the specification MIC %x but ValidateUplinkJoinMIC answers %v (err %v)", g.Encode(), loop, want[:], ok, err)
		}
	}
	// a history on ONE frame value: refused validations (another key; other candidate request parameters) come first,
	// then the right parameters - which must still be accepted, on a frame that still serialises to the same bytes
	{
		h, err := libSet(&c)
		if err != nil {
			return evid.Fail("Set*JoinMIC fails on a valid frame: %v", err)
		}
		before, berr := h.MarshalBinary()
		otherKey := toKey(c.Key)
		otherKey[int(c.DevNonce)%16] ^= 0x40
		validate := func(k ref.Key, rt byte, nonce uint16) (bool, error) {
			if c.F.MType == ref.MTJoinAccept {
				return h.ValidateDownlinkJoinMIC(lorawan.JoinType(rt), gen.EUI(c.JoinEUI), lorawan.DevNonce(nonce), gen.LibKey(k))
			}
			return h.ValidateUplinkJoinMIC(gen.LibKey(k))
		}
		dk := c
		dk.Key = append(evid.Hex{}, otherKey[:]...)
		if ok, _ := validate(otherKey, c.ReqType, c.DevNonce); ok != (refMIC(&dk) == want) {
			return evid.Fail("Validate*JoinMIC answers %v for the MIC %x under another key (%x), the specification MIC under that key is %x", ok, want[:], otherKey[:], refMIC(&dk))
		}
		if c.F.MType == ref.MTJoinAccept && c.F.OptNeg {
			_, _ = validate(toKey(c.Key), []byte{0xff, 0, 1, 2}[(indexOf(c.ReqType)+1)%4], c.DevNonce)
			_, _ = validate(toKey(c.Key), c.ReqType, c.DevNonce^1)
		}
		if ok, err := validate(toKey(c.Key), c.ReqType, c.DevNonce); err != nil || !ok {
			return evid.Fail("Validate*JoinMIC on a frame carrying the specification MIC %x answers %v (err %v) after validations with another key / other request parameters were refused on the same frame value: a refused call changed the frame", want[:], ok, err)
		}
		if after, aerr := h.MarshalBinary(); berr != nil || aerr != nil || !bytes.Equal(before, after) {
			return evid.Fail("the frame serialised to %x (err %v) before and to %x (err %v) after a history of refused and accepted MIC validations", before, berr, after, aerr)
		}
	}
	if c.F.MType == ref.MTJoinAccept {
		// the MIC of the OTHER form over the same payload (the 1.0 form when OptNeg is set, the 1.1 form when it is not) is
		// just another wrong value: there is no falling back from one form to the other
		other := ref.JoinAcceptMIC(toKey(c.Key), !c.F.OptNeg, c.ReqType, c.JoinEUI, c.DevNonce, c.F.Msg())
		if ok, _ := libValidate(&c, other); ok != (other == want) {
			return evid.Fail("ValidateDownlinkJoinMIC (OptNeg=%v) answers %v for the MIC %x, which is the MIC of the form for OptNeg=%v; the specification MIC for this frame is %x", c.F.OptNeg, ok, other[:], !c.F.OptNeg, want[:])
		}
	}
	for bit := 0; bit < 32; bit += 7 {
		bad := want
		bad[bit/8] ^= 1 << uint(bit%8)
		if ok, _ := libValidate(&c, bad); ok {
			return evid.Fail("Validate*JoinMIC accepts %x, specification MIC is %x", bad[:], want[:])
		}
	}
	for _, pt := range c.Perts {
		d, ok := apply(c, pt)
		if !ok {
			continue
		}
		exp := refMIC(&d) == want
		got, err := libValidate(&d, want)
		if err != nil {
			return evid.Fail("Validate*JoinMIC errors after perturbation %+v: %v", pt, err)
		}
		if got != exp {
			return evid.Fail("MType %d OptNeg=%v: after changing %s (%+v) validation of the original MIC answers %v but the specification MIC %s", c.F.MType, c.F.OptNeg, pt.Kind, pt, got,
				map[bool]string{true: "is unchanged (must be accepted)", false: "changes (must be rejected)"}[exp])
		}
	}
	cls := fmt.Sprintf("mtype%d", c.F.MType)
	nt := false
	if c.F.MType == ref.MTJoinAccept {
		cls += fmt.Sprintf("/optneg=%v/cflist=%v", c.F.OptNeg, c.F.CFList != nil)
		nt = c.F.OptNeg || c.F.CFList != nil
		// encryption: AES-decrypt in ECB over payload|MIC
		f := c.F
		f.MIC = want
		clear := append(f.MACPayloadBytes(), want[:]...)
		ek := toKey(c.EncKey)
		wantCT := ref.JoinAcceptEncrypt(ek, clear)
		if err := p.EncryptJoinAcceptPayload(gen.LibKey(ek)); err != nil {
			return evid.Fail("EncryptJoinAcceptPayload: %v", err)
		}
		dp, ok := p.MACPayload.(*lorawan.DataPayload)
		if !ok {
			return evid.Fail("EncryptJoinAcceptPayload left a %T", p.MACPayload)
		}
		gotCT := append(append([]byte{}, dp.Bytes...), p.MIC[:]...)
		if !bytes.Equal(gotCT, wantCT) {
			return evid.Fail("EncryptJoinAcceptPayload gives %x, specification (AES-decrypt ECB over payload|MIC) gives %x", gotCT, wantCT)
		}
		if dev := ref.JoinAcceptDecrypt(ek, gotCT); !bytes.Equal(dev, clear) {
			return evid.Fail("a device running AES-encrypt over the ciphertext gets %x, not payload|MIC %x", dev, clear)
		}
		// the bytes on the air
		air, err := p.MarshalBinary()
		if err != nil || !bytes.Equal(air, append([]byte{f.MHDR()}, wantCT...)) {
			return evid.Fail("encrypted join-accept serialises to %x (err %v), want MHDR|%x", air, err, wantCT)
		}
		// decrypting a shallow copy of the encrypted frame (e.g. to check it before sending) must leave the frame as it is
		chk := p
		if err := chk.DecryptJoinAcceptPayload(gen.LibKey(ek)); err != nil {
			return evid.Fail("DecryptJoinAcceptPayload of the frame just encrypted: %v", err)
		}
		if again, err := p.MarshalBinary(); err != nil || !bytes.Equal(again, air) {
			return evid.Fail("after decrypting a copy of the encrypted join-accept, the encrypted frame serialises to %x (err %v) instead of %x: decrypting wrote into the ciphertext", again, err, air)
		}
		// any MIC field value is encrypted the same way (the MIC is just the last four bytes of the block input)
		for _, mic := range [][4]byte{{}, {0, 0, 0, 1}, {0xff, 0xff, 0xff, 0xff}, {want[3], want[2], want[1], want[0]}} {
			r, _ := gen.ToLib(&c.F, true)
			r.MIC = lorawan.MIC(mic)
			if err := r.EncryptJoinAcceptPayload(gen.LibKey(ek)); err != nil {
				return evid.Fail("EncryptJoinAcceptPayload with MIC field %x: %v", mic[:], err)
			}
			rb, err := r.MarshalBinary()
			exp := append([]byte{f.MHDR()}, ref.JoinAcceptEncrypt(ek, append(f.MACPayloadBytes(), mic[:]...))...)
			if err != nil || !bytes.Equal(rb, exp) {
				return evid.Fail("join-accept with MIC field %x encrypts to %x (err %v), specification gives %x", mic[:], rb, err, exp)
			}
		}
		q, err := gen.Receive(air, air[len(air)-1]&1 == 1)
		if err != nil {
			return evid.Fail("UnmarshalBinary of the encrypted join-accept: %v", err)
		}
		if err := q.DecryptJoinAcceptPayload(gen.LibKey(ek)); err != nil {
			return evid.Fail("DecryptJoinAcceptPayload: %v", err)
		}
		g, err := gen.FromLib(&q)
		if err != nil {
			return evid.Fail("decrypted join-accept: %v", err)
		}
		if !bytes.Equal(g.Encode(), f.Encode()) {
			return evid.Fail("DecryptJoinAcceptPayload gives payload|MIC %x, original %x", g.Encode(), f.Encode())
		}
		// a decrypted join-accept is a value like any other: edit a field, the MIC and bytes follow the edit
		{
			e := q
			ja, ok := e.MACPayload.(*lorawan.JoinAcceptPayload)
			if ok {
				ed := f
				ed.RXDelay = (f.RXDelay + 1) & 0x0f
				ed.DevAddr = f.DevAddr ^ 0x00010000
				ja.RXDelay, ja.DevAddr = ed.RXDelay, gen.Addr(ed.DevAddr)
				if err := e.SetDownlinkJoinMIC(lorawan.JoinType(c.ReqType), gen.EUI(c.JoinEUI), lorawan.DevNonce(c.DevNonce), gen.LibKey(toKey(c.Key))); err != nil {
					return evid.Fail("SetDownlinkJoinMIC on an edited decrypted join-accept: %v", err)
				}
				exp := ref.JoinAcceptMIC(toKey(c.Key), ed.OptNeg, c.ReqType, c.JoinEUI, c.DevNonce, ed.Msg())
				if [4]byte(e.MIC) != exp {
					return evid.Fail("join-accept decrypted, then RXDelay and DevAddr edited: SetDownlinkJoinMIC gives %x, the specification MIC of the edited payload %x is %x (the edit was ignored)", e.MIC[:], ed.MACPayloadBytes(), exp[:])
				}
				ja.RXDelay, ja.DevAddr = f.RXDelay, gen.Addr(f.DevAddr) // restore: q is used below
			}
		}
		// decrypting the same received ciphertext object twice gives the same result
		q2 := lorawan.PHYPayload{MHDR: q.MHDR, MACPayload: &lorawan.DataPayload{Bytes: append(make([]byte, 0, len(wantCT)+8), wantCT[:len(wantCT)-4]...)}}
		copy(q2.MIC[:], wantCT[len(wantCT)-4:])
		q3 := q2
		if err := q3.DecryptJoinAcceptPayload(gen.LibKey(ek)); err != nil {
			return evid.Fail("DecryptJoinAcceptPayload (payload bytes with spare capacity): %v", err)
		}
		q4 := q2
		if err := q4.DecryptJoinAcceptPayload(gen.LibKey(ek)); err != nil {
			return evid.Fail("second DecryptJoinAcceptPayload of the same ciphertext: %v", err)
		}
		g3, e3 := gen.FromLib(&q3)
		g4, e4 := gen.FromLib(&q4)
		if e3 != nil || e4 != nil || !bytes.Equal(g3.Encode(), f.Encode()) || !bytes.Equal(g4.Encode(), f.Encode()) {
			return evid.Fail("decrypting the same received join-accept ciphertext twice gives %x then %x, original payload|MIC %x", encOrNil(g3), encOrNil(g4), f.Encode())
		}
		if ok, err := q.ValidateDownlinkJoinMIC(lorawan.JoinType(c.ReqType), gen.EUI(c.JoinEUI), lorawan.DevNonce(c.DevNonce), gen.LibKey(toKey(c.Key))); err != nil || !ok {
			return evid.Fail("MIC of the decrypted join-accept does not validate (ok=%v err=%v)", ok, err)
		}
	} else {
		nt = true
	}
	return evid.Outcome{NonTrivial: nt, Class: cls}
}

func TestProp(t *testing.T) {
	if err := ref.SelfTest(); err != nil {
		t.Fatal(err)
	}
	r := evid.Begin(t, "C04")
	defer r.Finish()
	evid.Rapid(r, t, "join-mic-and-encryption",
		"rapid: join-requests, rejoin-requests type 0/1/2 and join-accepts (random 8-byte EUIs, boundary-biased nonces < 2^24, NetID, DevAddr, DLSettings with OptNeg both ways, RXDelay 0..15, CFList absent/channels/masks) x random keys x JoinReqType in {0xff,0,1,2} x JoinEUI x DevNonce. Oracle: own AES-CMAC over the wire model (1.0 form, or the 1.1 form prefixing JoinReqType|JoinEUI LE|DevNonce LE when OptNeg), AES-decrypt-ECB over payload|MIC from crypto/aes. Checks: Set == reference; Validate accepts exactly it, also on a frame received in a loop (decoded value kept while its variable decodes the next frame) and after validations with another key / other request parameters were refused on the same frame value (which leave its serialisation unchanged); 3-8 single-input perturbations (key bit, JoinReqType, JoinEUI bit, DevNonce bit, any frame field, Major) where validation must answer exactly whether the reference MIC is unchanged (so the OptNeg inputs matter only with OptNeg); ciphertext byte-identical for the 16- and 32-byte forms; device-side AES-encrypt recovers payload|MIC; decode+decrypt restores payload and MIC; decrypting a copy leaves the encrypted frame intact and decrypting the same ciphertext twice gives the same result; arbitrary MIC field values (0, 1, all ones) encrypt per specification. Non-trivial: join/rejoin request, or join-accept with OptNeg or CFList.",
		150000, 3000000, genCase, checkCase)
}
