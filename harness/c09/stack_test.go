//go:build verif

package c09

import "runtime"

func runtimeStack(b []byte) int { return runtime.Stack(b, false) }
