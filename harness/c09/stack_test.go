//go:build verif

package c09

import "runtime"

func runtimeStack(b []byte) int { return runtime.Stack(b, false) }

type runtimeMemStats = runtime.MemStats

func readMemStats(m *runtime.MemStats) { runtime.ReadMemStats(m) }
