//go:build verif

package c09

import (
	"strings"
	"testing"

	"verif/harness/internal/gen"
)

// The native fuzz targets run in the thorough tier only (the driver gives each a bounded -fuzztime on all cores).
// The oracle is the same as in the rapid sub-checks; the first input byte selects the entry point / direction.

func fuzzRun(t *testing.T, c decCase) {
	if len(c.Input) > 512 {
		c.Input = c.Input[:512]
	}
	if _, v := runEntry(c); v != "" {
		t.Fatalf("%s", v)
	}
}

func seeds(f *testing.F, prefix func(decCase) (byte, bool)) {
	for _, c := range hostileCorpus() {
		if sel, ok := prefix(c); ok {
			f.Add(append([]byte{sel}, c.Input...))
		}
	}
}

func FuzzPHY(f *testing.F) {
	seeds(f, func(c decCase) (byte, bool) { return 0, c.Entry == "phy-binary" })
	for _, b := range [][]byte{{1, 'Q', 'A', 'Q', 'D', 'A', 'g', 'E', 'A', 'A', 'A', 'A', 'B'}, {0, 0x40, 4, 3, 2, 1, 0x80, 1, 0, 1, 0xa6, 0x94, 0x2b, 0xc3, 0x2c, 0x2b, 0xc3}} {
		f.Add(b)
	}
	f.Fuzz(func(t *testing.T, in []byte) {
		if len(in) < 1 {
			return
		}
		c := decCase{Entry: "phy-binary", Input: in[1:], Key: []byte{1, 2, 3, 4, 5, 6, 7, 8, 9, 10, 11, 12, 13, 14, 15, 16}}
		if in[0]&1 == 1 {
			c.Entry = "phy-text"
		}
		fuzzRun(t, c)
	})
}

func decoderSubset(filter func(string) bool) []string {
	var out []string
	for _, d := range gen.Decoders {
		if filter(d.Name) {
			out = append(out, d.Name)
		}
	}
	return out
}

func fuzzDecoders(f *testing.F, names []string) {
	idx := map[string]int{}
	for i, n := range names {
		idx[n] = i
	}
	seeds(f, func(c decCase) (byte, bool) {
		i, ok := idx[strings.TrimPrefix(c.Entry, "bin:")]
		sel := byte(i) << 1
		if c.Uplink {
			sel |= 1
		}
		return sel, ok && strings.HasPrefix(c.Entry, "bin:") && i < 128
	})
	for i := range names {
		if i < 128 {
			f.Add([]byte{byte(i) << 1, 1, 2, 3, 4, 5, 6, 7, 8, 9, 10, 11, 12, 13, 14, 15, 16, 17, 18, 19, 20})
			f.Add([]byte{byte(i)<<1 | 1, 0xff, 0xff, 0xff})
		}
	}
	f.Fuzz(func(t *testing.T, in []byte) {
		if len(in) < 1 {
			return
		}
		n := names[int(in[0]>>1)%len(names)]
		fuzzRun(t, decCase{Entry: "bin:" + n, Uplink: in[0]&1 == 1, Input: in[1:]})
	})
}

func FuzzMAC(f *testing.F) {
	fuzzDecoders(f, decoderSubset(func(n string) bool { return strings.HasPrefix(n, "lorawan.") }))
}

func FuzzAppLayer(f *testing.F) {
	fuzzDecoders(f, decoderSubset(func(n string) bool { return !strings.HasPrefix(n, "lorawan.") }))
}

func FuzzBackend(f *testing.F) {
	var entries []string
	for _, n := range backendNames {
		entries = append(entries, "json:"+n)
	}
	for _, n := range textNames {
		entries = append(entries, "text:"+n)
	}
	for _, n := range scanNames {
		entries = append(entries, "scan:"+n)
	}
	for i := range entries {
		f.Add(append([]byte{byte(i)}, []byte(`{"KEKLabel":"a","AESKey":"0102","ResultCode":"Success","DevEUI":"0102030405060708","ULFreq":868.1,"RecvTime":"2021-01-01T00:00:00Z","PHYPayload":"00","Lifetime":1,"GWInfo":[{"ID":"01"}]}`)...))
		f.Add(append([]byte{byte(i)}, []byte(`"0x0102"`)...))
		f.Add(append([]byte{byte(i)}, []byte(`0.29`)...))
	}
	f.Fuzz(func(t *testing.T, in []byte) {
		if len(in) < 1 {
			return
		}
		fuzzRun(t, decCase{Entry: entries[int(in[0])%len(entries)], Input: in[1:]})
	})
}
