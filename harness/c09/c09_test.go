//go:build verif

// C09: decoders are total - any bytes give a value or an error, never a panic
// or hang, and the input buffer is not written to.
package c09

import (
	"bytes"
	"encoding/base64"
	"encoding/json"
	"fmt"
	"os"
	"reflect"
	"runtime"
	"runtime/debug"
	"strings"
	"testing"
	"time"

	"github.com/brocaar/lorawan"
	"github.com/brocaar/lorawan/backend"
	"pgregory.net/rapid"

	"verif/harness/internal/evid"
	"verif/harness/internal/gen"
	"verif/harness/internal/ref"
)

type decCase struct {
	Entry  string   `json:"entry"`
	Input  evid.Hex `json:"input"`
	Uplink bool     `json:"uplink"`
	Key    evid.Hex `json:"key,omitempty"`
	Ops    []int    `json:"ops,omitempty"` // phy entries: a history of method calls applied to ONE decoded frame
}

const watchdog = 30 * time.Second

const memCeiling = 1 << 30

// guarded runs f on a private copy of the input, with a watchdog, and checks that the copy was not written to.
// It returns (reached, violation): reached says whether a payload decoder was reached (f's own verdict).
func guarded(entry string, in []byte, f func(b []byte) bool) (bool, string) {
	// first on a copy whose capacity equals its length (slice expressions beyond len panic only then) ...
	if _, v := guardedCap(entry, in, f, 0); v != "" {
		return false, v
	}
	// ... then on a copy with spare capacity (an append would write behind the input)
	return guardedCap(entry, in, f, 32)
}

func guardedCap(entry string, in []byte, f func(b []byte) bool, spare int) (bool, string) {
	evid.Crumb(entry, in)
	b := append(make([]byte, 0, len(in)+spare), in...)
	b = b[: len(in) : len(in)+spare]
	tail := b[len(b) : len(b)+spare]
	for i := range tail {
		tail[i] = 0xA5
	}
	type res struct {
		reached bool
		panicV  any
		stack   string
	}
	done := make(chan res, 1)
	go func() {
		var r res
		defer func() {
			if p := recover(); p != nil {
				r.panicV = p
				r.stack = stackTrace()
			}
			done <- r
		}()
		r.reached = f(b)
	}()
	timer := time.NewTimer(watchdog)
	defer timer.Stop()
	select {
	case r := <-done:
		if r.panicV != nil {
			return false, fmt.Sprintf("%s panics on input %x: %v\n%s", entry, in, r.panicV, r.stack)
		}
		if !bytes.Equal(b, in) {
			return r.reached, fmt.Sprintf("%s wrote to its input buffer: %x became %x", entry, in, b)
		}
		for _, x := range tail {
			if x != 0xA5 {
				return r.reached, fmt.Sprintf("%s wrote behind its input slice (into its spare capacity), input %x", entry, in)
			}
		}
		return r.reached, ""
	case <-timer.C:
		return false, fmt.Sprintf("%s does not return within %v on the %d byte input %x (loop)", entry, watchdog, len(in), in)
	}
}

func key(c *decCase) lorawan.AES128Key {
	var k lorawan.AES128Key
	copy(k[:], c.Key)
	return k
}

// ---- entry points ----

func phyChain(c *decCase, text bool) func(b []byte) bool {
	return func(b []byte) bool {
		decode := func() (*lorawan.PHYPayload, bool) {
			var p lorawan.PHYPayload
			var err error
			if text {
				err = p.UnmarshalText(b)
			} else {
				err = p.UnmarshalBinary(b)
			}
			return &p, err == nil
		}
		p, ok := decode()
		if !ok {
			return false
		}
		k := key(c)
		_, _ = p.MarshalBinary()
		_, _ = p.MarshalText()
		_, _ = json.Marshal(p)
		_, _ = p.ValidateUplinkDataMIC(lorawan.LoRaWAN1_1, 1, 2, 3, k, k)
		_, _ = p.ValidateDownlinkDataMIC(lorawan.LoRaWAN1_1, 1, k)
		_, _ = p.ValidateUplinkDataMICF(k)
		_, _ = p.ValidateUplinkJoinMIC(k)
		_, _ = p.ValidateDownlinkJoinMIC(lorawan.JoinRequestType, lorawan.EUI64{1}, 2, k)
		for _, step := range []func(*lorawan.PHYPayload){
			func(q *lorawan.PHYPayload) { _ = q.DecodeFOptsToMACCommands(); _ = q.DecodeFRMPayloadToMACCommands() },
			func(q *lorawan.PHYPayload) {
				_ = q.DecryptFOpts(k)
				_ = q.DecryptFRMPayload(k)
				_, _ = q.MarshalBinary()
			},
			func(q *lorawan.PHYPayload) {
				_ = q.DecryptFRMPayload(k)
				_ = q.DecodeFOptsToMACCommands()
				_, _ = json.Marshal(q)
			},
			func(q *lorawan.PHYPayload) { _ = q.EncryptFRMPayload(k); _ = q.EncryptFOpts(k) },
			func(q *lorawan.PHYPayload) {
				_ = q.DecryptJoinAcceptPayload(k)
				_, _ = q.MarshalBinary()
				_, _ = json.Marshal(q)
			},
			func(q *lorawan.PHYPayload) { _ = q.EncryptJoinAcceptPayload(k) },
		} {
			q, _ := decode()
			step(q)
			// output size bounded: the number of decoded commands cannot exceed the number of input bytes
			if m, ok := q.MACPayload.(*lorawan.MACPayload); ok {
				if len(m.FHDR.FOpts)+len(m.FRMPayload) > len(b)+2 {
					panic(fmt.Sprintf("decoded %d+%d payload items from %d bytes", len(m.FHDR.FOpts), len(m.FRMPayload), len(b)))
				}
			}
		}
		// a generated history of calls on one decoded value (a decode after a decode, a decode after a decrypt, ...)
		if len(c.Ops) > 0 {
			q, _ := decode()
			methods := []func(){
				func() { _ = q.DecodeFOptsToMACCommands() },
				func() { _ = q.DecodeFRMPayloadToMACCommands() },
				func() { _ = q.DecryptFOpts(k) },
				func() { _ = q.DecryptFRMPayload(k) },
				func() { _ = q.EncryptFOpts(k) },
				func() { _ = q.EncryptFRMPayload(k) },
				func() { _ = q.DecryptJoinAcceptPayload(k) },
				func() { _ = q.EncryptJoinAcceptPayload(k) },
				func() { _, _ = q.MarshalBinary() },
				func() { _, _ = json.Marshal(q) },
				func() { _, _ = q.ValidateUplinkDataMIC(lorawan.LoRaWAN1_0, 0, 0, 0, k, k) },
				func() { _ = q.SetDownlinkDataMIC(lorawan.LoRaWAN1_1, 1, k) },
				func() { _ = q.SetUplinkJoinMIC(k) },
				// registration of a proprietary command the input may carry, with size 0 and with a size (the registry is reset per case)
				func() { _ = lorawan.RegisterProprietaryMACCommand(c.Uplink, propCID(b), 0) },
				func() { _ = lorawan.RegisterProprietaryMACCommand(!c.Uplink, propCID(b), 0) },
				func() { _ = lorawan.RegisterProprietaryMACCommand(c.Uplink, propCID(b), 1+int(propCID(b))%5) },
			}
			for _, o := range c.Ops {
				methods[((o%len(methods))+len(methods))%len(methods)]()
			}
		}
		return true
	}
}

// propCID: the first byte of the input that can be a proprietary CID (0x80..0xff), else 0x80.
func propCID(b []byte) lorawan.CID {
	for _, x := range b[minInt(len(b), 8):] {
		if x >= 0x80 {
			return lorawan.CID(x)
		}
	}
	return 0x80
}

func minInt(a, b int) int {
	if a < b {
		return a
	}
	return b
}

func decoderEntry(d *gen.Decoder, c *decCase) func(b []byte) bool {
	return func(b []byte) bool {
		v := d.New()
		if err := d.Decode(v, c.Uplink, b); err != nil {
			return false
		}
		// whatever was decoded must be printable / encodable without a panic
		if m, ok := v.(interface{ MarshalBinary() ([]byte, error) }); ok {
			_, _ = m.MarshalBinary()
		}
		_, _ = json.Marshal(v)
		if cs, ok := v.(interface{ Size() int }); ok {
			_ = cs.Size()
		}
		// the same entry point on a value that decoded something else before (a receive loop reusing its variable):
		// shorter prefixes first and the input last, then the other way round
		seen := map[int]bool{}
		for _, k := range []int{1, 2, len(b) / 2, len(b) - 1} {
			if k <= 0 || k >= len(b) || seen[k] {
				continue
			}
			seen[k] = true
			w, w2 := d.New(), d.New()
			_ = d.Decode(w, c.Uplink, b[:k:k])
			_ = d.Decode(w, c.Uplink, b)
			_ = d.Decode(w2, c.Uplink, b)
			_ = d.Decode(w2, c.Uplink, b[:k:k])
			_ = d.Decode(w2, c.Uplink, b)
			for _, x := range []any{w, w2} {
				if m, ok := x.(interface{ MarshalBinary() ([]byte, error) }); ok {
					_, _ = m.MarshalBinary()
				}
			}
		}
		return true
	}
}

var backendTypes = map[string]func() any{
	"JoinReqPayload":     func() any { return &backend.JoinReqPayload{} },
	"JoinAnsPayload":     func() any { return &backend.JoinAnsPayload{} },
	"RejoinReqPayload":   func() any { return &backend.RejoinReqPayload{} },
	"RejoinAnsPayload":   func() any { return &backend.RejoinAnsPayload{} },
	"AppSKeyReqPayload":  func() any { return &backend.AppSKeyReqPayload{} },
	"AppSKeyAnsPayload":  func() any { return &backend.AppSKeyAnsPayload{} },
	"PRStartReqPayload":  func() any { return &backend.PRStartReqPayload{} },
	"PRStartAnsPayload":  func() any { return &backend.PRStartAnsPayload{} },
	"PRStopReqPayload":   func() any { return &backend.PRStopReqPayload{} },
	"PRStopAnsPayload":   func() any { return &backend.PRStopAnsPayload{} },
	"HRStartReqPayload":  func() any { return &backend.HRStartReqPayload{} },
	"HRStartAnsPayload":  func() any { return &backend.HRStartAnsPayload{} },
	"HRStopReqPayload":   func() any { return &backend.HRStopReqPayload{} },
	"HRStopAnsPayload":   func() any { return &backend.HRStopAnsPayload{} },
	"HomeNSReqPayload":   func() any { return &backend.HomeNSReqPayload{} },
	"HomeNSAnsPayload":   func() any { return &backend.HomeNSAnsPayload{} },
	"ProfileReqPayload":  func() any { return &backend.ProfileReqPayload{} },
	"ProfileAnsPayload":  func() any { return &backend.ProfileAnsPayload{} },
	"XmitDataReqPayload": func() any { return &backend.XmitDataReqPayload{} },
	"XmitDataAnsPayload": func() any { return &backend.XmitDataAnsPayload{} },
	"BasePayload":        func() any { return &backend.BasePayload{} },
	"KeyEnvelope":        func() any { return &backend.KeyEnvelope{} },
	"DeviceProfile":      func() any { return &backend.DeviceProfile{} },
	"ServiceProfile":     func() any { return &backend.ServiceProfile{} },
	"ULMetaData":         func() any { return &backend.ULMetaData{} },
	"DLMetaData":         func() any { return &backend.DLMetaData{} },
	"HEXBytes":           func() any { return &backend.HEXBytes{} },
	"ISO8601Time":        func() any { return &backend.ISO8601Time{} },
	"Frequency":          func() any { return new(backend.Frequency) },
	"Percentage":         func() any { return new(backend.Percentage) },
}

var textTypes = map[string]func() interface{ UnmarshalText([]byte) error }{
	"EUI64":       func() interface{ UnmarshalText([]byte) error } { return &lorawan.EUI64{} },
	"DevAddr":     func() interface{ UnmarshalText([]byte) error } { return &lorawan.DevAddr{} },
	"NetID":       func() interface{ UnmarshalText([]byte) error } { return &lorawan.NetID{} },
	"AES128Key":   func() interface{ UnmarshalText([]byte) error } { return &lorawan.AES128Key{} },
	"DLSettings":  func() interface{ UnmarshalText([]byte) error } { return &lorawan.DLSettings{} },
	"HEXBytes":    func() interface{ UnmarshalText([]byte) error } { return &backend.HEXBytes{} },
	"ISO8601Time": func() interface{ UnmarshalText([]byte) error } { return &backend.ISO8601Time{} },
	"PHYPayload":  func() interface{ UnmarshalText([]byte) error } { return &lorawan.PHYPayload{} },
}

var scanTypes = map[string]func() interface{ Scan(any) error }{
	"EUI64":     func() interface{ Scan(any) error } { return &lorawan.EUI64{} },
	"DevAddr":   func() interface{ Scan(any) error } { return &lorawan.DevAddr{} },
	"NetID":     func() interface{ Scan(any) error } { return &lorawan.NetID{} },
	"AES128Key": func() interface{ Scan(any) error } { return &lorawan.AES128Key{} },
}

func sortedKeys[V any](m map[string]V) []string {
	var out []string
	for k := range m {
		out = append(out, k)
	}
	// insertion sort (small)
	for i := 1; i < len(out); i++ {
		for j := i; j > 0 && out[j] < out[j-1]; j-- {
			out[j], out[j-1] = out[j-1], out[j]
		}
	}
	return out
}

var backendNames, textNames, scanNames = sortedKeys(backendTypes), sortedKeys(textTypes), sortedKeys(scanTypes)

func runEntry(c decCase) (bool, string) {
	lorawan.VerifResetMACPayloadRegistry()
	switch {
	case c.Entry == "phy-binary":
		return guarded(c.Entry, c.Input, phyChain(&c, false))
	case c.Entry == "phy-text":
		return guarded(c.Entry, c.Input, phyChain(&c, true))
	case strings.HasPrefix(c.Entry, "bin:"):
		d := gen.DecoderByName(strings.TrimPrefix(c.Entry, "bin:"))
		if d == nil {
			return false, ""
		}
		return guarded(c.Entry, c.Input, decoderEntry(d, &c))
	case strings.HasPrefix(c.Entry, "json:"):
		mkv, ok := backendTypes[strings.TrimPrefix(c.Entry, "json:")]
		if !ok {
			return false, ""
		}
		// "in time linear in the input": a number token is a few bytes however large the number it denotes; a decoder that
		// materialises the number (10^1000000 as an integer) does work that the input length does not bound. Measured as
		// allocation (deterministic, unlike time) whenever the input has an exponent; the ceiling is 2 MiB + 1 KiB per
		// input byte, three orders of magnitude above what the decoders need
		var grew uint64
		measure := bytes.ContainsAny(c.Input, "eE")
		reached, v := guarded(c.Entry, c.Input, func(b []byte) bool {
			var m0, m1 runtime.MemStats
			if measure {
				runtime.ReadMemStats(&m0)
				defer func() { runtime.ReadMemStats(&m1); grew = m1.TotalAlloc - m0.TotalAlloc }()
			}
			v := mkv()
			if err := json.Unmarshal(b, v); err != nil {
				return json.Valid(b) // valid JSON reached the type's own decoders
			}
			_, _ = json.Marshal(v)
			return true
		})
		if v == "" && grew > 2<<20+1024*uint64(len(c.Input)) {
			v = fmt.Sprintf("%s: decoding the %d byte input %s allocates %d bytes (work not bounded by the input length)", c.Entry, len(c.Input), c.Input, grew)
		}
		return reached, v
	case strings.HasPrefix(c.Entry, "text:"):
		mkv, ok := textTypes[strings.TrimPrefix(c.Entry, "text:")]
		if !ok {
			return false, ""
		}
		return guarded(c.Entry, c.Input, func(b []byte) bool { return mkv().UnmarshalText(b) == nil })
	case strings.HasPrefix(c.Entry, "scan:"):
		mkv, ok := scanTypes[strings.TrimPrefix(c.Entry, "scan:")]
		if !ok {
			return false, ""
		}
		return guarded(c.Entry, c.Input, func(b []byte) bool {
			_ = mkv().Scan(string(b))
			_ = mkv().Scan(nil)
			return mkv().Scan(b) == nil
		})
	}
	return false, ""
}

func checkDec(c decCase) evid.Outcome {
	if len(c.Input) > 600 {
		return evid.Outcome{Skip: true}
	}
	reached, v := runEntry(c)
	if v != "" {
		return evid.Fail("%s", v)
	}
	e := c.Entry
	if i := strings.IndexByte(e, ':'); i > 0 && strings.HasPrefix(e, "bin:lorawan.") {
		e = "bin:lorawan.*" // keep the class table readable: per-package for the small payload types
	}
	return evid.Outcome{NonTrivial: reached, Class: fmt.Sprintf("%s/reached=%v", e, reached), Key: append([]byte(c.Entry+"|"+fmt.Sprint(c.Uplink)+"|"), c.Input...)}
}

// ---- generators ----

func hostileBytes(t *rapid.T, label string, max int) []byte {
	switch rapid.IntRange(0, 4).Draw(t, label+"?") {
	case 0:
		return bytes.Repeat([]byte{0xff}, rapid.IntRange(0, max).Draw(t, label+"n"))
	case 1:
		return bytes.Repeat([]byte{0x00}, rapid.IntRange(0, max).Draw(t, label+"n"))
	default:
		return gen.Bytes(t, label, rapid.IntRange(0, max).Draw(t, label+"n"))
	}
}

func mutate(t *rapid.T, b []byte) []byte {
	b = append([]byte{}, b...)
	n := rapid.IntRange(0, 3).Draw(t, "nmut")
	for i := 0; i < n; i++ {
		switch rapid.IntRange(0, 5).Draw(t, "mut") {
		case 0:
			if len(b) > 0 {
				b = b[:rapid.IntRange(0, len(b)-1).Draw(t, "cut")]
			}
		case 1:
			b = append(b, gen.Bytes(t, "ext", rapid.IntRange(1, 12).Draw(t, "k"))...)
		case 2:
			if len(b) > 0 {
				i := rapid.IntRange(0, len(b)*8-1).Draw(t, "bit")
				b[i/8] ^= 1 << uint(i%8)
			}
		case 3:
			if len(b) > 5 {
				b[5] = b[5]&0xf0 | byte(rapid.IntRange(0, 15).Draw(t, "foptslen"))
			}
		case 4:
			if len(b) > 0 {
				b[rapid.IntRange(0, len(b)-1).Draw(t, "pos")] = rapid.SampledFrom([]byte{0x00, 0xff, 0x0f, 0xf0, 0x80, 0x03}).Draw(t, "val")
			}
		default:
			if len(b) > 2 {
				i := rapid.IntRange(1, len(b)-1).Draw(t, "dup")
				b = append(b[:i:i], append(append([]byte{}, b[i-1:i]...), b[i:]...)...)
			}
		}
	}
	return b
}

func genPHY(t *rapid.T) decCase {
	k := gen.Key(t, "key")
	c := decCase{Entry: "phy-binary", Key: k[:]}
	var b []byte
	switch rapid.IntRange(0, 3).Draw(t, "src") {
	case 0:
		b = hostileBytes(t, "raw", 300)
		if len(b) > 0 && rapid.Bool().Draw(t, "mt") {
			b[0] = byte(rapid.IntRange(0, 7).Draw(t, "mtype")) << 5
		}
	case 1:
		// a data frame whose FOpts / port-0 payload are arbitrary bytes (reaches the command stream decoder)
		mt := gen.DataMType(t)
		f := ref.Frame{MType: mt, DevAddr: uint32(gen.U64(t, "addr")), FCnt: gen.U32(t, "fcnt"), FPort: rapid.IntRange(-1, 2).Draw(t, "fport")}
		f.FOpts = hostileBytes(t, "fopts", 15)
		if f.FPort >= 0 {
			f.FRM = hostileBytes(t, "frm", 60)
		}
		b = f.Encode()
	case 2:
		// encrypted join-accept sized inputs
		n := rapid.SampledFrom([]int{12, 16, 17, 28, 32, 33, 48}).Draw(t, "n")
		b = append([]byte{ref.MTJoinAccept << 5}, gen.Bytes(t, "ja", n)...)
	default:
		b = mutate(t, gen.AnyFrame(t).Encode())
	}
	if rapid.IntRange(0, 3).Draw(t, "text") == 0 {
		c.Entry = "phy-text"
		switch rapid.IntRange(0, 3).Draw(t, "textkind") {
		case 0:
			b = []byte(rapid.String().Draw(t, "str"))
		case 1:
			s := base64.StdEncoding.EncodeToString(b)
			b = []byte(s[:rapid.IntRange(0, len(s)).Draw(t, "b64cut")])
		default:
			b = []byte(base64.StdEncoding.EncodeToString(b))
		}
	}
	c.Input = b
	c.Ops = rapid.SliceOfN(rapid.IntRange(0, 15), 0, 8).Draw(t, "ops")
	return c
}

func genBin(t *rapid.T) decCase {
	d := &gen.Decoders[rapid.IntRange(0, len(gen.Decoders)-1).Draw(t, "decoder")]
	c := decCase{Entry: "bin:" + d.Name, Uplink: rapid.Bool().Draw(t, "uplink")}
	n := rapid.IntRange(0, 40).Draw(t, "n")
	if len(d.AcceptedLens()) > 0 && rapid.IntRange(0, 3).Draw(t, "fit") != 0 {
		n = rapid.SampledFrom(d.AcceptedLens()).Draw(t, "len")
		if rapid.IntRange(0, 5).Draw(t, "off") == 0 {
			n += rapid.IntRange(-1, 1).Draw(t, "d")
			if n < 0 {
				n = 0
			}
		}
	}
	switch rapid.IntRange(0, 5).Draw(t, "fill") {
	case 0:
		c.Input = bytes.Repeat([]byte{0xff}, n)
	case 1:
		c.Input = bytes.Repeat([]byte{0x00}, n)
	default:
		c.Input = gen.Bytes(t, "bytes", n)
	}
	// steer the command wrappers towards known CIDs and hostile first bytes
	if strings.HasSuffix(d.Name, "Command") || strings.HasSuffix(d.Name, "Commands") {
		if len(c.Input) > 0 && rapid.Bool().Draw(t, "cid") {
			c.Input[0] = byte(rapid.IntRange(0, 0x21).Draw(t, "cidv"))
		}
		if len(c.Input) > 1 && rapid.IntRange(0, 3).Draw(t, "hostile") == 0 {
			c.Input[1] = rapid.SampledFrom([]byte{0x0f, 0xff, 0x03, 0x07, 0xf0, 0x00}).Draw(t, "b1")
		}
	}
	return c
}

var hostileStrings = []string{"", "0x", "0x0", "zz", "0102", "01020304", "0102030405060708", "01020304050607080102030405060708", "0X01", " 01", "01 ", "é", "2021-02-30T25:61:61Z", "2021-01-01T00:00:00Z", "0000-00-00", "9999999999", strings.Repeat("f", 600), "AQID", "AQIDBA=", "===="}

func genJSONValue(t *rapid.T, depth int) any {
	switch rapid.IntRange(0, 9).Draw(t, "jv") {
	case 0:
		return nil
	case 1:
		return rapid.Bool().Draw(t, "b")
	case 2:
		return rapid.SampledFrom([]float64{0, -1, 1, 0.29, 1e308, -1e308, 868.1, 4294.967296, 1e-9, 255, 256, 65536, 16777216, 1.5}).Draw(t, "f")
	case 3:
		return json.Number(rapid.SampledFrom([]string{"1e400", "-0", "18446744073709551616", "0.1e1", "9223372036854775808", "1E-400"}).Draw(t, "num"))
	case 4, 5:
		return rapid.SampledFrom(hostileStrings).Draw(t, "s")
	case 6:
		return fmt.Sprintf("%x", gen.Bytes(t, "hex", rapid.IntRange(0, 40).Draw(t, "n")))
	case 7:
		if depth > 2 {
			return []any{}
		}
		n := rapid.IntRange(0, 3).Draw(t, "an")
		a := make([]any, n)
		for i := range a {
			a[i] = genJSONValue(t, depth+1)
		}
		return a
	default:
		if depth > 2 {
			return map[string]any{}
		}
		return genJSONObject(t, depth+1, nil)
	}
}

func memberNames(v any) []string {
	var out []string
	var walk func(t reflect.Type)
	seen := map[reflect.Type]bool{}
	walk = func(t reflect.Type) {
		for t.Kind() == reflect.Ptr || t.Kind() == reflect.Slice {
			t = t.Elem()
		}
		if t.Kind() != reflect.Struct || seen[t] {
			return
		}
		seen[t] = true
		for i := 0; i < t.NumField(); i++ {
			f := t.Field(i)
			name := strings.Split(f.Tag.Get("json"), ",")[0]
			if name == "" {
				name = f.Name
			}
			if name != "-" && !f.Anonymous {
				out = append(out, name)
			}
			walk(f.Type)
		}
	}
	walk(reflect.TypeOf(v))
	return out
}

func genJSONObject(t *rapid.T, depth int, names []string) map[string]any {
	if len(names) == 0 {
		names = []string{"KEKLabel", "AESKey", "ResultCode", "Description", "ID", "RSSI", "SNR", "Lat", "Lon", "DevEUI", "ULFreq", "RecvTime", "GWInfo", "VendorID", "Object"}
	}
	o := map[string]any{}
	n := rapid.IntRange(0, 8).Draw(t, "members")
	for i := 0; i < n; i++ {
		o[rapid.SampledFrom(names).Draw(t, "name")] = genJSONValue(t, depth)
	}
	return o
}

func genBackend(t *rapid.T) decCase {
	kind := rapid.IntRange(0, 9).Draw(t, "kind")
	switch {
	case kind <= 5:
		name := rapid.SampledFrom(backendNames).Draw(t, "type")
		c := decCase{Entry: "json:" + name}
		switch name {
		case "HEXBytes", "ISO8601Time", "Frequency", "Percentage":
			b, _ := json.Marshal(genJSONValue(t, 3))
			c.Input = b
			if rapid.IntRange(0, 3).Draw(t, "bignum") == 0 {
				c.Input = []byte(rapid.SampledFrom(hostileNumbers).Draw(t, "num"))
			}
		default:
			b, _ := json.Marshal(genJSONObject(t, 0, memberNames(backendTypes[name]())))
			if rapid.IntRange(0, 9).Draw(t, "rawjson") == 0 {
				b = mutate(t, b)
			}
			c.Input = b
			if rapid.IntRange(0, 9).Draw(t, "bignum") == 0 {
				// every member a number token that is short to write and huge (or tiny) to evaluate
				var sb strings.Builder
				sb.WriteByte('{')
				for i, m := range memberNames(backendTypes[name]()) {
					if i > 0 {
						sb.WriteByte(',')
					}
					fmt.Fprintf(&sb, "%q:%s", m, rapid.SampledFrom(hostileNumbers).Draw(t, "num"))
				}
				sb.WriteByte('}')
				c.Input = []byte(sb.String())
			}
		}
		return c
	case kind <= 7:
		name := rapid.SampledFrom(textNames).Draw(t, "type")
		c := decCase{Entry: "text:" + name}
		switch rapid.IntRange(0, 3).Draw(t, "src") {
		case 0:
			c.Input = []byte(rapid.SampledFrom(hostileStrings).Draw(t, "s"))
		case 1:
			c.Input = []byte(rapid.String().Draw(t, "str"))
		case 2:
			h := fmt.Sprintf("%x", gen.Bytes(t, "hex", rapid.IntRange(0, 20).Draw(t, "n")))
			if rapid.Bool().Draw(t, "0x") {
				h = "0x" + h
			}
			if rapid.Bool().Draw(t, "upper") {
				h = strings.ToUpper(h)
			}
			c.Input = []byte(h)
		default:
			c.Input = hostileBytes(t, "raw", 40)
		}
		return c
	default:
		name := rapid.SampledFrom(scanNames).Draw(t, "type")
		return decCase{Entry: "scan:" + name, Input: hostileBytes(t, "raw", 20)}
	}
}

// JSON number tokens of a few bytes that denote numbers of a million digits
var hostileNumbers = []string{"1e1000000", "1e-1000000", "-1e1000000", "1E400", "1e999999999", "9e-999999999", "1e+308", "4.9e-324",
	"123456789012345678901234567890", "0.000000000000000000000000000001", "1.5e300000", "25e-2000000", "1e2147483648", "1e-2147483649"}

// hostile constants named in the design: inputs whose index arithmetic is most likely to be off
func hostileCorpus() []decCase {
	var out []decCase
	add := func(entry, hexs string, up bool) {
		var h evid.Hex
		if err := json.Unmarshal([]byte(`"`+hexs+`"`), &h); err != nil {
			panic(err)
		}
		out = append(out, decCase{Entry: entry, Input: h, Uplink: up, Key: make([]byte, 16)})
	}
	add("phy-binary", "40010203040f0000", true)                       // FOptsLen 15, nothing follows
	add("phy-binary", "40010203040f00000102030405060711223344", true) // FOptsLen 15 with 7 bytes left
	add("phy-binary", "4001020304000000", true)
	add("phy-binary", "400102030400000000", true)
	add("phy-binary", "c0", true)
	add("phy-binary", "c001", true)
	add("phy-binary", "c00000000000", true)
	add("phy-binary", "2000000000", false)
	add("phy-binary", "20"+strings.Repeat("00", 15), false)
	add("phy-binary", "20"+strings.Repeat("ff", 33), false)
	add("phy-binary", "60010203048000000003", false)
	add("phy-binary", "6001020304800000000303", false)
	add("phy-binary", "400102030401000003", true)
	add("phy-binary", "40010203040200000680", true)
	add("bin:multicastsetup.Commands", "010f", true) // McGroupStatusAns: mask 0x0F, no items
	add("bin:multicastsetup.Commands", "017f", true)
	add("bin:multicastsetup.Commands", "0131", true)
	add("bin:multicastsetup.Command", "010f0001020304", true)
	add("bin:multicastsetup.McGroupStatusAnsPayload", "7f", true)
	add("bin:firmwaremanagement.Commands", "0403", true) // DevUpgradeImageAns status 3, no version
	add("bin:firmwaremanagement.Commands", "040301", true)
	add("bin:firmwaremanagement.DevUpgradeImageAnsPayload", "03", true)
	add("bin:fragmentation.Commands", "08", false) // DataFragment without index
	add("bin:fragmentation.Commands", "0801", false)
	add("bin:fragmentation.Commands", "0801ff", false)
	add("bin:clocksync.Commands", "01", true)
	add("bin:clocksync.Commands", "0101020304", true)
	add("bin:lorawan.MACCommand", "", true)
	add("bin:lorawan.MACCommand", "03", false)
	add("bin:lorawan.MACCommand", "0300", false)
	add("bin:lorawan.MACCommand", "8001", false)
	add("bin:lorawan.CFList", strings.Repeat("ff", 16), false)
	add("bin:lorawan.CFList", strings.Repeat("ff", 15)+"01", false)
	add("bin:lorawan.CFListChannelMaskPayload", strings.Repeat("ff", 15), false)
	add("bin:lorawan.CFListChannelPayload", strings.Repeat("ff", 18), false)
	return out
}

func TestProp(t *testing.T) {
	// unbounded recursion in a decoder is to end the process after 64 MB of stack, not after the default 1 GB per shard
	debug.SetMaxStack(64 << 20)
	// a decoder that appends for ever exhausts the machine long before the 30 s watchdog fires, and the operating system
	// then kills the process without a trace: the heap is watched instead, and the driver turns the line below into a
	// violation with the input in flight (crumb.bin). A shard of this check stays below 100 MiB on code that holds the property.
	go func() {
		for range time.Tick(50 * time.Millisecond) {
			var ms runtime.MemStats
			runtime.ReadMemStats(&ms)
			if ms.HeapAlloc > memCeiling {
				fmt.Fprintf(os.Stderr, "\nfatal error: verif memory watchdog: the heap grew to %d MiB while a decoder was handling an input of at most a few KiB (unbounded loop)\n", ms.HeapAlloc>>20)
				os.Exit(3)
			}
		}
	}()
	r := evid.Begin(t, "C09")
	defer r.Finish()

	evid.RunManual(r, t, "hostile-corpus", "exhaustive",
		"hand-written hostile constants (FOptsLen 15 with nothing / 7 bytes left, truncated rejoin and join-accept, McGroupStatusAns mask 0x0F without items, DevUpgradeImageAns status 3 without version, DataFragment without index, CFList of 0xFF, ...) through their entry point: no panic, no hang (30 s watchdog), input buffer and its spare capacity untouched.",
		true, checkDec, func(m *evid.Manual[decCase]) {
			if r.Shard != 0 {
				return
			}
			for _, c := range hostileCorpus() {
				m.Eval(c)
			}
		})

	evid.Exhaustive(r, t, "short-texts",
		"every string of length 0..3 over the alphabet {0 1 x X a F g - : T Z . + space quote} through every text entry point (UnmarshalText of the identifier types, DLSettings, HEXBytes, ISO8601Time, PHYPayload) and, as a JSON string and as a bare JSON token, through the backend scalar types and a struct member; same oracle. Non-trivial: accepted text.",
		true,
		func(emit func(decCase)) {
			alpha := []byte("01xXaFg-:TZ.+ \"")
			var all [][]byte
			all = append(all, []byte{})
			for _, a := range alpha {
				all = append(all, []byte{a})
				for _, b := range alpha {
					all = append(all, []byte{a, b})
					for _, c := range alpha {
						all = append(all, []byte{a, b, c})
					}
				}
			}
			for _, txt := range all {
				for _, n := range textNames {
					emit(decCase{Entry: "text:" + n, Input: txt})
				}
				js, _ := json.Marshal(string(txt))
				for _, n := range []string{"HEXBytes", "ISO8601Time", "Frequency", "Percentage"} {
					emit(decCase{Entry: "json:" + n, Input: js})
					emit(decCase{Entry: "json:" + n, Input: txt})
				}
				emit(decCase{Entry: "json:BasePayload", Input: []byte(`{"SenderToken":` + string(js) + `,"SenderID":` + string(js) + `}`)})
				emit(decCase{Entry: "json:KeyEnvelope", Input: []byte(`{"AESKey":` + string(js) + `}`)})
				emit(decCase{Entry: "json:ULMetaData", Input: []byte(`{"RecvTime":` + string(js) + `,"DevEUI":` + string(js) + `,"ULFreq":` + string(txt) + `}`)})
			}
		}, checkDec)

	evid.Rapid(r, t, "phy-chain",
		"rapid: PHYPayload.UnmarshalBinary / UnmarshalText (base64, truncated base64, arbitrary strings) on uniform / constant bytes, data frames whose FOpts and port-0 payload are arbitrary bytes, join-accept sized inputs and mutated valid frames (truncate, extend, flip, FOptsLen nibble, overwrite, duplicate); on whatever decodes: Marshal*, JSON, every Validate*, DecodeFOpts/FRMPayloadToMACCommands, Decrypt/EncryptFOpts, Decrypt/EncryptFRMPayload, Decrypt/EncryptJoinAcceptPayload with a key from the case, plus a generated history of 0..8 such calls applied to ONE decoded value (decode after decode, decode after decrypt, ...), among them registrations of a proprietary CID taken from the input with size 0 or 1..5 in either direction. Oracle: returns normally (panic reported with input), within the watchdog, input bytes and spare capacity unchanged, decoded item count bounded by the input length. Non-trivial: the frame decoder accepted the input (a payload decoder was reached).",
		150000, 6000000, genPHY, checkDec)

	evid.Rapid(r, t, "binary-decoders",
		fmt.Sprintf("rapid: each of the %d exported types with UnmarshalBinary (frame parts, identifiers, CFList, MACCommand, the 29 MAC payloads, the Command/Commands wrappers and every payload of the four application-layer packages), both directions, lengths drawn from the lengths each type accepts (+-1) or 0..40, contents uniform / 0x00 / 0xFF, command wrappers steered to known CIDs and hostile mask bytes; the decoded value is then re-encoded, JSON-encoded and asked for its Size; the same entry point is also run on values that decoded something else before (prefixes of the input first and the input last, and the other way round). Same oracle. Non-trivial: the decoder accepted the input.", len(gen.Decoders)),
		300000, 12000000, genBin, checkDec)

	evid.Rapid(r, t, "linear-growth",
		"rapid: one well-formed command (MAC commands on port 0; random 1..8 byte units starting with a CID 0..9 for the four application-layer Commands decoders) repeated 8 and 64 times; the bytes allocated while decoding (runtime TotalAlloc delta, minimum of 3 runs - deterministic, no wall clock) may grow at most 3 x 8-fold (+8 KiB) for the 8-fold input: quadratic work in a stream decoder shows as 64-fold. Non-trivial: both inputs accepted.",
		4000, 100000, genGrow, checkGrow)

	evid.Rapid(r, t, "backend-json-text",
		"rapid: json.Unmarshal into each of the backend payload structs and scalar types from generated JSON objects that use the structs' own member names with hostile values (null, wrong types, 1e400, odd-length / non-hex / huge strings, impossible timestamps, nested arrays/objects), occasionally mutated at byte level, and number tokens that are short to write and huge to evaluate (1e1000000, 9e-999999999, ...; for these the allocation of the decode must stay below 2 MiB + 1 KiB per input byte: work bounded by the input length); UnmarshalText of EUI64/DevAddr/NetID/AES128Key/DLSettings/HEXBytes/ISO8601Time/PHYPayload on hostile strings; Scan on arbitrary bytes, strings and nil. Same oracle. Non-trivial: syntactically valid JSON / accepted text.",
		150000, 6000000, genBackend, checkDec)
}

func stackTrace() string {
	buf := make([]byte, 4096)
	n := runtimeStack(buf)
	return string(buf[:n])
}

// ---- linear growth of the work done by the stream decoders ----

type growCase struct {
	Entry  string   `json:"entry"`
	Uplink bool     `json:"uplink"`
	Unit   evid.Hex `json:"unit"` // one well-formed command; the input is the unit repeated 8 and 64 times
}

func allocBytes(f func()) uint64 {
	var best uint64 = 1 << 62
	for i := 0; i < 3; i++ {
		var a, b runtimeMemStats
		readMemStats(&a)
		f()
		readMemStats(&b)
		if d := b.TotalAlloc - a.TotalAlloc; d < best {
			best = d
		}
	}
	return best
}

func checkGrow(c growCase) evid.Outcome {
	if len(c.Unit) == 0 || len(c.Unit) > 8 {
		return evid.Outcome{Skip: true}
	}
	run := func(k int) (uint64, bool) {
		in := bytes.Repeat(c.Unit, k)
		evid.Crumb(fmt.Sprintf("%s uplink=%v", c.Entry, c.Uplink), in)
		ok := true
		n := allocBytes(func() {
			if c.Entry == "phy-port0" {
				f := ref.Frame{MType: ref.MTUnconfDown, FPort: 0, FRM: in}
				if c.Uplink {
					f.MType = ref.MTUnconfUp
				}
				var p lorawan.PHYPayload
				if p.UnmarshalBinary(f.Encode()) != nil || p.DecodeFRMPayloadToMACCommands() != nil {
					ok = false
				}
				return
			}
			d := gen.DecoderByName(c.Entry)
			if d == nil || d.Decode(d.New(), c.Uplink, in) != nil {
				ok = false
			}
		})
		return n, ok
	}
	small, ok1 := run(8)
	large, ok2 := run(64)
	if !ok1 || !ok2 {
		return evid.Outcome{Class: c.Entry + "/rejected"}
	}
	// 8 times the input may cost at most 3 x 8 times the allocation (+ a constant): quadratic work would cost 64 times
	if large > 24*small+8192 {
		return evid.Fail("%s (uplink=%v): decoding %d repetitions of %x allocates %d bytes, %d repetitions %d bytes: 8 times the input costs %.1f times the memory (linear work expected)", c.Entry, c.Uplink, 8, []byte(c.Unit), small, 64, large, float64(large)/float64(small))
	}
	return evid.Outcome{NonTrivial: true, Class: c.Entry + "/accepted"}
}

func genGrow(t *rapid.T) growCase {
	entry := rapid.SampledFrom([]string{"phy-port0", "clocksync.Commands", "multicastsetup.Commands", "fragmentation.Commands", "firmwaremanagement.Commands"}).Draw(t, "entry")
	up := rapid.Bool().Draw(t, "uplink")
	c := growCase{Entry: entry, Uplink: up}
	if entry == "phy-port0" {
		c.Unit = gen.CmdBytes(t, "cmd", up, rapid.IntRange(1, 6).Draw(t, "n"))
		if len(c.Unit) > 8 {
			c.Unit = c.Unit[:1]
		}
		return c
	}
	// application layer: find a unit by trial - one command of 1..8 bytes that decodes alone
	c.Unit = gen.Bytes(t, "unit", rapid.IntRange(1, 8).Draw(t, "len"))
	c.Unit[0] = byte(rapid.IntRange(0, 9).Draw(t, "cid"))
	return c
}
