//go:build verif

// C18: the commands of the four application-layer packages (clock
// synchronisation, remote multicast setup, fragmented data block transport,
// firmware management) round-trip, report their encoded length, concatenate,
// and never panic when encoded; the multicast keys follow TS005.
//
// Values are generated FIRST (every field inside the bit width its
// specification gives it, see specs_test.go) and then encoded: decoding random
// bytes would pass every value through the decoder's masks and hide encoder /
// decoder mask defects.
package c18

import (
	"bytes"
	"encoding/binary"
	"fmt"
	"math/bits"
	"strings"
	"testing"

	"github.com/brocaar/lorawan"
	mc "github.com/brocaar/lorawan/applayer/multicastsetup"
	"pgregory.net/rapid"

	"verif/harness/internal/evid"
	"verif/harness/internal/gen"
	"verif/harness/internal/ref"
)

// ---------------------------------------------------------------------------
// single commands
// ---------------------------------------------------------------------------

type cmdCase struct {
	Pkg string `json:"pkg"`
	Up  bool   `json:"up"`
	cmdVal
	// Literal: the value is written down the way a user of the package can
	// (exported fields only), i.e. the optional pointer parts are absent.
	Literal bool `json:"literal,omitempty"`
}

func checkCmd(c cmdCase) evid.Outcome {
	s := specByKey[c.Pkg+"/"+c.Cmd]
	if s == nil || s.Up != c.Up || !s.inRange(c.cmdVal) {
		return evid.Outcome{Skip: true}
	}
	ad := adapters[s.Pkg]
	pl, complete, problem := s.build(c.cmdVal, c.Literal)
	if problem != "" {
		return evid.Fail("%s", problem)
	}
	what := s.describe(c.cmdVal, c.Literal)
	cls := s.Pkg + "/" + s.Name
	if c.Literal {
		what += " (a literal: exported fields only)"
		cls += "/literal"
	}
	var (
		b    []byte
		size int
		err  error
	)
	if p := catch(func() { b, size, err = ad.marshal(s.CID, pl) }); p != "" {
		return evid.Fail("MarshalBinary of %s panics (%s); expected: encoded bytes or an error", what, p)
	}
	if !complete {
		// a part the specification requires cannot be expressed: an error is the expected answer
		if err == nil && len(b) != size {
			return evid.Fail("%s encodes to %d bytes (%x) but reports Size() = %d", what, len(b), b, size)
		}
		return evid.Outcome{Class: cls + "/incomplete"}
	}
	if err != nil {
		return evid.Fail("MarshalBinary refuses the in-range value %s: %v", what, err)
	}
	if len(b) != size {
		return evid.Fail("%s encodes to %d bytes (%x) but the command reports Size() = %d", what, len(b), b, size)
	}
	if pl != nil && pl.Size()+1 != size {
		return evid.Fail("%s: payload Size() = %d but command Size() = %d, expected payload + 1", what, pl.Size(), size)
	}
	if want := 1 + s.size(c.cmdVal); len(b) != want {
		return evid.Fail("%s encodes to %d bytes (%x), its specification gives CID + %d bytes", what, len(b), b, want-1)
	}
	if b[0] != s.CID {
		return evid.Fail("%s: first encoded byte %#02x, expected CID %#02x", what, b[0], s.CID)
	}
	var (
		cid   byte
		got   payload
		gsize int
	)
	if p := catch(func() { cid, got, gsize, err = ad.unmarshal(s.Up, append([]byte{}, b...)) }); p != "" {
		return evid.Fail("UnmarshalBinary(uplink=%v) of the encoding %x of %s panics: %s", s.Up, b, what, p)
	}
	if err != nil {
		return evid.Fail("%s encodes to %x, decoding that (uplink=%v) fails: %v", what, b, s.Up, err)
	}
	if cid != s.CID {
		return evid.Fail("%s encodes to %x, which decodes to CID %#02x, expected %#02x", what, b, cid, s.CID)
	}
	if d := diff(pl, got); d != "" {
		return evid.Fail("%s encodes to %x, which decodes to a different command: %s", what, b, d)
	}
	if gsize != len(b) {
		return evid.Fail("%s: decoded command reports Size() = %d, %d bytes were encoded", what, gsize, len(b))
	}
	return evid.Outcome{NonTrivial: s.atMax(c.cmdVal), Class: cls}
}

// ---- enumeration ----

var widePattern = [4]uint64{0, ^uint64(0), 0xa5a5a5a5a5a5a5a5, 0x5a5a5a5a5a5a5a5a}
var wideFill = [4]byte{0x00, 0xff, 0xa5, 0x5a}
var blobLen = [4]int{0, 1, 16, 51}

func (s *spec) narrowBits() uint {
	n := uint(0)
	for _, f := range s.Fields {
		if f.narrow() {
			n += f.Bits
		}
		if f.Kind == kItems {
			n += 2 // the group id of the first item; item i carries (id + i) mod 4
		}
	}
	return n
}

// valuation builds the value whose sub-byte fields are the successive bit
// groups of x and whose wider fields follow pattern p. wide is the number of
// wider parts that are present; distinct is false when x names the same value
// as a smaller x does.
func (s *spec) valuation(x uint64, p int) (c cmdVal, wide int, distinct bool) {
	c.Cmd = s.Name
	if len(s.Fields) > 0 {
		c.V = map[string]uint64{}
	}
	var itemBase uint64
	for _, f := range s.Fields {
		if f.narrow() {
			c.V[f.Path] = x & f.max()
			x >>= f.Bits
		}
		if f.Kind == kItems {
			itemBase = x & 3
			x >>= 2
		}
	}
	for _, f := range s.Fields {
		if f.narrow() {
			continue
		}
		switch f.Kind {
		case kBytes:
			if c.B == nil {
				c.B = map[string]evid.Hex{}
			}
			c.B[f.Path] = bytes.Repeat([]byte{wideFill[p]}, int(f.Bits/8))
			wide++
		case kBlob:
			if c.B == nil {
				c.B = map[string]evid.Hex{}
			}
			b := make([]byte, blobLen[p])
			for i := range b {
				b[i] = byte(i*7 + p)
			}
			c.B[f.Path] = b
			wide++
		case kItems:
			n := bits.OnesCount64(c.V["Status.AnsGroupMask"])
			if n == 0 {
				if itemBase != 0 {
					return c, 0, false // the same value as with id 0
				}
				continue
			}
			if c.B == nil {
				c.B = map[string]evid.Hex{}
			}
			b := make([]byte, 5*n)
			for i := 0; i < n; i++ {
				b[5*i] = byte((itemBase + uint64(i)) & 3)
				binary.BigEndian.PutUint32(b[5*i+1:], uint32(widePattern[p])^uint32(i))
			}
			c.B[f.Path] = b
			wide++
		default:
			if f.Present != nil && !f.Present(c.V) {
				continue
			}
			c.V[f.Path] = widePattern[p] & f.max()
			wide++
		}
	}
	return c, wide, true
}

// enumerate emits every combination of the sub-byte fields of every command,
// the wider fields running through the four patterns together.
func enumerate(emit func(s *spec, c cmdVal)) {
	for _, s := range specs {
		nb := s.narrowBits()
		for x := uint64(0); x < 1<<nb; x++ {
			for p := 0; p < 4; p++ {
				c, wide, distinct := s.valuation(x, p)
				if !distinct || (p > 0 && wide == 0) {
					break
				}
				emit(s, c)
			}
		}
	}
}

// ---- rapid generation ----

// drawBits draws an in-range value of an n-bit field: maximum, zero, the top
// bit alone, or uniform bits.
func drawBits(t *rapid.T, label string, n uint) uint64 {
	if n == 1 {
		if rapid.Bool().Draw(t, label) {
			return 1
		}
		return 0
	}
	max := uint64(1)<<n - 1
	switch rapid.IntRange(0, 9).Draw(t, label+"?") {
	case 0, 1:
		return max
	case 2:
		return 0
	case 3:
		return 1 << (n - 1)
	}
	var v uint64
	for _, x := range gen.Bytes(t, label, int(n+7)/8) {
		v = v<<8 | uint64(x)
	}
	return v & max
}

// pick draws an index below n from uniform bytes (rapid's integer generators
// favour small values and the bounds).
func pick(t *rapid.T, label string, n int) int {
	b := gen.Bytes(t, label, 2)
	return (int(b[0])<<8 | int(b[1])) % n
}

func genVal(t *rapid.T, s *spec, label string) cmdVal {
	c := cmdVal{Cmd: s.Name}
	if len(s.Fields) > 0 {
		c.V = map[string]uint64{}
	}
	setB := func(path string, b []byte) {
		if c.B == nil {
			c.B = map[string]evid.Hex{}
		}
		c.B[path] = b
	}
	for _, f := range s.Fields {
		l := label + f.Path
		switch f.Kind {
		case kBytes:
			setB(f.Path, gen.Bytes(t, l, int(f.Bits/8)))
		case kBlob:
			n := rapid.IntRange(0, 40).Draw(t, l+"#")
			if rapid.IntRange(0, 7).Draw(t, l+"#?") == 0 {
				n = rapid.IntRange(41, 239).Draw(t, l+"#long")
			}
			setB(f.Path, gen.Bytes(t, l, n))
		case kItems:
			n := bits.OnesCount64(c.V["Status.AnsGroupMask"])
			if n == 0 {
				continue
			}
			b := make([]byte, 0, 5*n)
			for i := 0; i < n; i++ {
				b = append(b, byte(drawBits(t, fmt.Sprintf("%s[%d].McGroupID", l, i), 2)))
				b = append(b, gen.Bytes(t, fmt.Sprintf("%s[%d].McAddr", l, i), 4)...)
			}
			setB(f.Path, b)
		default:
			if f.Present != nil && !f.Present(c.V) {
				continue
			}
			c.V[f.Path] = drawBits(t, l, f.Bits)
		}
	}
	return c
}

func genCmd(t *rapid.T) cmdCase {
	s := specs[pick(t, "command", len(specs))]
	return cmdCase{Pkg: s.Pkg, Up: s.Up, cmdVal: genVal(t, s, "")}
}

// ---------------------------------------------------------------------------
// sequences
// ---------------------------------------------------------------------------

type seqCase struct {
	Pkg  string   `json:"pkg"`
	Up   bool     `json:"up"`
	Cmds []cmdVal `json:"cmds"`
}

func genSeq(t *rapid.T) seqCase {
	pkg := rapid.SampledFrom(pkgNames).Draw(t, "package")
	up := rapid.Bool().Draw(t, "uplink")
	n := rapid.IntRange(2, 6).Draw(t, "n")
	if rapid.IntRange(0, 9).Draw(t, "single") == 0 {
		n = 1
	}
	avail := specsOf[pkg+"/"+dirName(up)]
	c := seqCase{Pkg: pkg, Up: up}
	// DataFragment extends to the end of the payload by specification: last position only
	var inner []*spec
	for _, s := range avail {
		if s.Name != "DataFragment" {
			inner = append(inner, s)
		}
	}
	for i := 0; i < n; i++ {
		from := inner
		if i == n-1 {
			from = avail
		}
		s := from[pick(t, fmt.Sprintf("cmd%d", i), len(from))]
		c.Cmds = append(c.Cmds, genVal(t, s, fmt.Sprintf("%d.", i)))
	}
	return c
}

type builtSeq struct {
	specs []*spec
	vals  []cmdVal
	pls   []payload
}

func (q builtSeq) names() string {
	var n []string
	for i, s := range q.specs {
		n = append(n, s.describe(q.vals[i], false))
	}
	return "[" + strings.Join(n, ", ") + "]"
}

// roundTrip encodes the sequence through the package's Commands type and
// decodes it in its direction. decodeErr: the decoder returned an error.
func (q builtSeq) roundTrip(pkg string, up bool) (violation string, decodeErr bool) {
	ad := adapters[pkg]
	cids := make([]byte, len(q.specs))
	want := 0
	for i, s := range q.specs {
		cids[i] = s.CID
		want += 1 + s.size(q.vals[i])
	}
	var (
		b   []byte
		err error
	)
	if p := catch(func() { b, err = ad.marshalSeq(cids, q.pls) }); p != "" {
		return fmt.Sprintf("Commands.MarshalBinary of %s %s panics: %s", pkg, q.names(), p), false
	}
	if err != nil {
		return fmt.Sprintf("Commands.MarshalBinary refuses %s %s: %v", pkg, q.names(), err), false
	}
	if len(b) != want {
		return fmt.Sprintf("%s %s encodes to %d bytes (%x), the command sizes add up to %d", pkg, q.names(), len(b), b, want), false
	}
	var (
		gc []byte
		gp []payload
	)
	if p := catch(func() { gc, gp, err = ad.unmarshalSeq(up, append([]byte{}, b...)) }); p != "" {
		return fmt.Sprintf("Commands.UnmarshalBinary(uplink=%v) of %x (= %s) panics: %s", up, b, q.names(), p), false
	}
	if err != nil {
		return fmt.Sprintf("the %d %s %s commands %s encode to %x; Commands.UnmarshalBinary(uplink=%v) of that fails: %v; expected the same %d commands",
			len(q.specs), pkg, dirName(up), q.names(), b, up, err, len(q.specs)), true
	}
	if len(gc) != len(q.specs) {
		return fmt.Sprintf("%s %s encodes to %x, which decodes (uplink=%v) to %d commands, expected %d", pkg, q.names(), b, up, len(gc), len(q.specs)), false
	}
	for i, s := range q.specs {
		if gc[i] != s.CID {
			return fmt.Sprintf("%s %s encodes to %x; decoded command %d has CID %#02x, expected %#02x", pkg, q.names(), b, i, gc[i], s.CID), false
		}
		if d := diff(q.pls[i], gp[i]); d != "" {
			return fmt.Sprintf("%s %s encodes to %x; decoded command %d (%s) differs: %s", pkg, q.names(), b, i, s.Name, d), false
		}
	}
	return "", false
}

// held: results stay what they were while the caller keeps them. The sequence is encoded and the bytes are kept
// (together with a private copy); then shorter and longer neighbours are encoded through the same Commands and
// Command types - the tail, the head, every single command, the sequence itself again - and after each of those
// calls the kept bytes must still equal the copy, and must finally still decode to the sequence.
func (q builtSeq) held(pkg string, up bool) string {
	ad := adapters[pkg]
	cidsOf := func(a, b int) []byte {
		var c []byte
		for _, s := range q.specs[a:b] {
			c = append(c, s.CID)
		}
		return c
	}
	n := len(q.specs)
	first, err := ad.marshalSeq(cidsOf(0, n), q.pls)
	if err != nil {
		return fmt.Sprintf("Commands.MarshalBinary refuses %s %s the second time: %v", pkg, q.names(), err)
	}
	keep := append([]byte{}, first...)
	type later struct {
		what string
		b    []byte
		c    []byte
	}
	var held []later
	check := func(after string) string {
		if !bytes.Equal(first, keep) {
			return fmt.Sprintf("%s %s was encoded to %x; after %s the returned slice reads %x (an earlier result changes under a later call)", pkg, q.names(), keep, after, first)
		}
		for _, h := range held {
			if !bytes.Equal(h.b, h.c) {
				return fmt.Sprintf("%s: %s of %s was encoded to %x; after %s the returned slice reads %x (an earlier result changes under a later call)", pkg, h.what, q.names(), h.c, after, h.b)
			}
		}
		return ""
	}
	encSeq := func(what string, a, b int) string {
		out, err := ad.marshalSeq(cidsOf(a, b), q.pls[a:b])
		if err != nil {
			return fmt.Sprintf("Commands.MarshalBinary refuses %s of %s %s: %v", what, pkg, q.names(), err)
		}
		held = append(held, later{what, out, append([]byte{}, out...)})
		return check("encoding " + what)
	}
	if n >= 2 {
		if v := encSeq(fmt.Sprintf("the last command"), n-1, n); v != "" {
			return v
		}
		if v := encSeq(fmt.Sprintf("the first %d commands", n-1), 0, n-1); v != "" {
			return v
		}
	}
	for i := range q.specs {
		out, _, err := ad.marshal(q.specs[i].CID, q.pls[i])
		if err != nil {
			return fmt.Sprintf("Command.MarshalBinary refuses command %d of %s %s: %v", i, pkg, q.names(), err)
		}
		held = append(held, later{fmt.Sprintf("command %d alone", i), out, append([]byte{}, out...)})
		if v := check(fmt.Sprintf("encoding command %d alone", i)); v != "" {
			return v
		}
	}
	if v := encSeq("the whole sequence again", 0, n); v != "" {
		return v
	}
	gc, gp, err := ad.unmarshalSeq(up, first)
	if err != nil || len(gc) != n {
		return fmt.Sprintf("%s %s: the bytes %x kept from the first encoding decode to %d commands, error %v, after the later encodings", pkg, q.names(), first, len(gc), err)
	}
	for i := range q.specs {
		if gc[i] != q.specs[i].CID {
			return fmt.Sprintf("%s %s: kept bytes %x: decoded command %d has CID %#02x", pkg, q.names(), first, i, gc[i])
		}
		if d := diff(q.pls[i], gp[i]); d != "" {
			return fmt.Sprintf("%s %s: kept bytes %x: decoded command %d differs: %s", pkg, q.names(), first, i, d)
		}
	}
	// the decoded commands are kept while every command is decoded once more from its own encoding (fresh buffers,
	// in reverse order)
	for i := len(held) - 1; i >= 0; i-- {
		_, _, _ = ad.unmarshalSeq(up, append([]byte{}, held[i].c...))
	}
	// ... and the receive buffer the sequence was decoded from is used for the next frame (C10 holds the same for every
	// decoder type of the repository)
	for i := range first {
		first[i] = ^first[i]
	}
	for i := range q.specs {
		if d := diff(q.pls[i], gp[i]); d != "" {
			return fmt.Sprintf("%s %s: the decoded command %d changes after later decodes of other buffers / after the buffer it was decoded from was overwritten: %s", pkg, q.names(), i, d)
		}
	}
	return ""
}

func checkSeq(c seqCase) evid.Outcome {
	if len(c.Cmds) == 0 || len(c.Cmds) > 8 {
		return evid.Outcome{Skip: true}
	}
	var q builtSeq
	for i, v := range c.Cmds {
		s := specByKey[c.Pkg+"/"+v.Cmd]
		if s == nil || s.Up != c.Up || !s.inRange(v) || (s.Name == "DataFragment" && i != len(c.Cmds)-1) {
			return evid.Outcome{Skip: true}
		}
		pl, _, problem := s.build(v, false)
		if problem != "" {
			return evid.Fail("%s", problem)
		}
		q.specs, q.vals, q.pls = append(q.specs, s), append(q.vals, v), append(q.pls, pl)
	}
	cls := fmt.Sprintf("%s/%s/%d", c.Pkg, dirName(c.Up), len(c.Cmds))
	v, decodeErr := q.roundTrip(c.Pkg, c.Up)
	if v == "" {
		if hv := q.held(c.Pkg, c.Up); hv != "" {
			return evid.Fail("%s", hv)
		}
		return evid.Outcome{NonTrivial: len(c.Cmds) >= 2, Class: cls}
	}
	// Known finding K5: DevVersionReq (firmware management, downlink) compares its size with the length
	// of the REST of the buffer, so the stream decoder rejects anything that follows it (the same defect
	// in DevUpgradeImageReq / DevDeleteImageReq was repaired in /repo; DevVersionReq's is pinned by the
	// repository's own test "DevVersionReq invalid bytes"). The failure is attributed to that class iff, walking
	// through the sequence, every decode error appears exactly when one more command is appended
	// directly behind a DevVersionReq to a prefix that round-trips; the walk then restarts at the
	// appended command, so that every command and every other adjacency is still checked.
	if !decodeErr {
		return evid.Fail("%s", v)
	}
	sub := func(a, b int) builtSeq { return builtSeq{q.specs[a:b], q.vals[a:b], q.pls[a:b]} }
	start, hits := 0, 0
	for start < len(q.specs) {
		k := start + 1
		var pv string
		var pErr bool
		for ; k <= len(q.specs); k++ {
			if pv, pErr = sub(start, k).roundTrip(c.Pkg, c.Up); pv != "" {
				break
			}
		}
		if pv == "" {
			break // the rest round-trips
		}
		if !pErr || k-start < 2 || !q.specs[k-2].K5 {
			return evid.Fail("%s", pv)
		}
		hits++
		start = k - 1
	}
	if hits == 0 {
		return evid.Fail("%s", v)
	}
	return evid.Outcome{Violation: v + " [class K5: DevVersionReq followed by another command]", Known: "K5", Class: cls + "/K5"}
}

// ---------------------------------------------------------------------------
// multicast keys
// ---------------------------------------------------------------------------

type keyCase struct {
	Key  evid.Hex `json:"key"`
	Addr uint32   `json:"mcaddr"`
	// a history: further multicast addresses derived with the SAME key afterwards (a multicast server does this for every
	// group); each derivation must still be the function of (key, address) that TS005 defines
	More []uint32 `json:"more_mcaddrs,omitempty"`
}

func checkKeys(c keyCase) evid.Outcome {
	if len(c.Key) != 16 {
		return evid.Outcome{Skip: true}
	}
	var k lorawan.AES128Key
	var rk ref.Key
	copy(k[:], c.Key)
	copy(rk[:], c.Key)
	var a lorawan.DevAddr
	binary.BigEndian.PutUint32(a[:], c.Addr) // the array is the big-endian reading of the address
	cmp := func(name, block string, got lorawan.AES128Key, err error, want ref.Key) string {
		if err != nil {
			return fmt.Sprintf("%s(key %s, McAddr %08x): error %v", name, c.Key, c.Addr, err)
		}
		if !bytes.Equal(got[:], want[:]) {
			return fmt.Sprintf("%s(key %s, McAddr %08x) = %x, TS005 gives aes128_encrypt(key, %s) = %x", name, c.Key, c.Addr, got[:], block, want[:])
		}
		return ""
	}
	g, err := mc.GetMcRootKeyForGenAppKey(k)
	if v := cmp("GetMcRootKeyForGenAppKey", "0x00 | pad16", g, err, ref.McRootKeyFromGenAppKey(rk)); v != "" {
		return evid.Fail("%s", v)
	}
	g, err = mc.GetMcRootKeyForAppKey(k)
	if v := cmp("GetMcRootKeyForAppKey", "0x20 | pad16", g, err, ref.McRootKeyFromAppKey(rk)); v != "" {
		return evid.Fail("%s", v)
	}
	g, err = mc.GetMcKEKey(k)
	if v := cmp("GetMcKEKey", "0x00 | pad16", g, err, ref.McKEKey(rk)); v != "" {
		return evid.Fail("%s", v)
	}
	g, err = mc.GetMcAppSKey(k, a)
	if v := cmp("GetMcAppSKey", "0x01 | McAddr little-endian | pad16", g, err, ref.McAppSKey(rk, c.Addr)); v != "" {
		return evid.Fail("%s", v)
	}
	g, err = mc.GetMcNetSKey(k, a)
	if v := cmp("GetMcNetSKey", "0x02 | McAddr little-endian | pad16", g, err, ref.McNetSKey(rk, c.Addr)); v != "" {
		return evid.Fail("%s", v)
	}
	for i, addr := range append(append([]uint32{}, c.More...), c.Addr) {
		var b lorawan.DevAddr
		binary.BigEndian.PutUint32(b[:], addr)
		g, err = mc.GetMcAppSKey(k, b)
		if err != nil || !bytes.Equal(g[:], refSlice(ref.McAppSKey(rk, addr))) {
			return evid.Fail("GetMcAppSKey(key %s, McAddr %08x) = %x (err %v) when called after deriving for McAddr %08x (call %d of the history); TS005 gives %x", c.Key, addr, g[:], err, c.Addr, i+2, refSlice(ref.McAppSKey(rk, addr)))
		}
		g, err = mc.GetMcNetSKey(k, b)
		if err != nil || !bytes.Equal(g[:], refSlice(ref.McNetSKey(rk, addr))) {
			return evid.Fail("GetMcNetSKey(key %s, McAddr %08x) = %x (err %v) when called after deriving for McAddr %08x (call %d of the history); TS005 gives %x", c.Key, addr, g[:], err, c.Addr, i+2, refSlice(ref.McNetSKey(rk, addr)))
		}
	}
	// non-trivial: the address reads differently in the two byte orders
	return evid.Outcome{NonTrivial: bits.ReverseBytes32(c.Addr) != c.Addr, Class: "keys"}
}

func refSlice(k ref.Key) []byte { return k[:] }

func genKeys(t *rapid.T) keyCase {
	k := gen.Key(t, "key") // 1/8: the all-zero, the all-ones or a single-bit key - legal keys like any other
	c := keyCase{Key: k[:]}
	c.Addr = binary.BigEndian.Uint32(gen.Bytes(t, "mcaddr", 4))
	if rapid.IntRange(0, 15).Draw(t, "edge") == 0 {
		c.Addr = rapid.SampledFrom([]uint32{0, 0xffffffff, 1, 0x01000000, 0x01020304, 0x80000000}).Draw(t, "edgeaddr")
	}
	for i, n := 0, rapid.IntRange(0, 3).Draw(t, "more"); i < n; i++ {
		c.More = append(c.More, binary.BigEndian.Uint32(gen.Bytes(t, "mcaddr2", 4)))
	}
	return c
}

// ---------------------------------------------------------------------------

func TestProp(t *testing.T) {
	r := evid.Begin(t, "C18")
	defer r.Finish()
	if err := initSpecs(); err != nil {
		t.Fatal(err)
	}
	if len(extraFields) > 0 {
		t.Logf("payload struct fields unknown to the specification tables, left at their zero value: %v", extraFields)
	}

	const oracle = "Oracle: MarshalBinary neither panics nor errs; len(bytes) == Command.Size() == 1 + payload.Size() == CID + the payload length of the TS003/4/5/6 definition; " +
		"Command.UnmarshalBinary(direction, bytes) gives the same CID and a payload equal field by field (nil == empty byte string). "

	evid.Exhaustive(r, t, "single-byte-exhaustive",
		"every command of the four packages whose payload is at most one byte by specification (incl. the no-payload commands, the error forms of McClassB/CSessionAns, McGroupStatusAns without items, DevUpgradeImageAns without version): ALL in-range field values, built as values (never by decoding bytes). "+
			oracle+"Non-trivial: a field of >= 2 bits holds its maximum.",
		true,
		func(emit func(cmdCase)) {
			enumerate(func(s *spec, c cmdVal) {
				if s.size(c) <= 1 {
					emit(cmdCase{Pkg: s.Pkg, Up: s.Up, cmdVal: c})
				}
			})
		}, checkCmd)

	evid.Exhaustive(r, t, "bitfield-grid",
		"every command with a payload of more than one byte: all combinations of its sub-byte fields (<= 4 bits each, e.g. all 2^12 of FragSessionSetupReq, all 2^9 of McClassBSessionReq; McGroupStatusAns items carry group ids id+i mod 4) x the wider fields jointly at 0 / maximum / 0xa5.. / 0x5a.. (DataFragment payload lengths 0, 1, 16, 51). "+
			oracle+"Non-trivial: a field of >= 2 bits holds its maximum. Complete for the sub-byte fields, a grid for the wide ones.",
		false,
		func(emit func(cmdCase)) {
			enumerate(func(s *spec, c cmdVal) {
				if s.size(c) > 1 {
					emit(cmdCase{Pkg: s.Pkg, Up: s.Up, cmdVal: c})
				}
			})
		}, checkCmd)

	evid.Exhaustive(r, t, "literal-no-panic",
		"payload values written the way a user of the package can (exported fields only, optional pointer parts absent): for the three types with an optional part (McClassCSessionAns, McClassBSessionAns, DevUpgradeImageAns) all sub-byte field combinations, for every other payload type its zero value. "+
			"Oracle: MarshalBinary never panics; where the specification requires the absent part (no error flag / firmware valid) an error is the expected answer, everywhere else the full round-trip oracle applies. Non-trivial: a field of >= 2 bits holds its maximum.",
		true,
		func(emit func(cmdCase)) {
			for _, s := range specs {
				if s.New == nil {
					continue
				}
				nb := s.narrowBits()
				if s.hasOpt {
					for x := uint64(0); x < 1<<nb; x++ {
						c, _, _ := s.valuation(x, 0)
						emit(cmdCase{Pkg: s.Pkg, Up: s.Up, cmdVal: c, Literal: true})
					}
					continue
				}
				c, _, _ := s.valuation(0, 0)
				emit(cmdCase{Pkg: s.Pkg, Up: s.Up, cmdVal: c, Literal: true})
			}
		}, checkCmd)

	evid.Rapid(r, t, "commands",
		"rapid: command uniform over the 40 commands of the four packages (36 payload types), every field drawn inside its specified width (maximum 20%, zero 10%, top bit 10%, else uniform bits); McGroupStatusAns with as many items as mask bits; TimeToStart present iff no error flag; DevUpgradeImageAns with version obtained by decoding 5 generated bytes; DataFragment payload 0..239 bytes. "+
			oracle+"Non-trivial: a field of >= 2 bits holds its maximum.",
		200000, 4500000, genCmd, checkCmd)

	evid.Rapid(r, t, "sequences",
		"rapid: package x direction x 1..6 (90% >= 2) commands of that package and direction with in-range field values as in 'commands' (DataFragment only in last position), encoded with Commands.MarshalBinary. Oracle: no panic, no error, total length = sum of the specified sizes, Commands.UnmarshalBinary(direction) gives the same CIDs and field-by-field equal payloads; held results: the encoded bytes are kept while the last command, the first n-1 commands, every command alone (Command.MarshalBinary) and the sequence again are encoded - after each call every kept slice still equals its private copy, and the first one still decodes to the sequence; the decoded commands are unchanged after every command was decoded once more from its own bytes and the buffer they were decoded from was overwritten. "+
			"A decode error is attributed to known finding K5 iff it appears exactly when a command is appended directly behind a DevVersionReq to a prefix that round-trips (the walk restarts at the appended command, so every command and every other adjacency of the sequence is still checked). Non-trivial: >= 2 commands.",
		150000, 3500000, genSeq, checkSeq)

	evid.Rapid(r, t, "multicast-keys",
		"rapid: uniform 128-bit key and 32-bit McAddr (1/16 edge addresses); GetMcRootKeyForGenAppKey / ForAppKey, GetMcKEKey, GetMcAppSKey, GetMcNetSKey against single-block AES of the TS005 input blocks (internal/ref, crypto/aes): 0x00|pad, 0x20|pad, 0x00|pad, 0x01|McAddr LE|pad, 0x02|McAddr LE|pad; then a history of 0..3 further addresses (and the first again) derived with the SAME key, each compared with the model (a cache that forgets part of the input shows here). Non-trivial: the address differs from its byte-reversed reading.",
		60000, 2000000, genKeys, checkKeys)
}
