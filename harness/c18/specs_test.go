//go:build verif

package c18

// The command tables of the four application-layer packages, written from the
// field definitions of TS003 (clock synchronisation), TS004 (fragmented data
// block transport), TS005 (remote multicast setup) and TS006 (firmware
// management), v1.0.0. A width is the number of bits the specification gives
// the field, NOT what the library's masks happen to keep.

import (
	"encoding/binary"
	"fmt"
	"math/bits"
	"reflect"
	"sort"
	"strings"

	"github.com/brocaar/lorawan"
	cs "github.com/brocaar/lorawan/applayer/clocksync"
	fw "github.com/brocaar/lorawan/applayer/firmwaremanagement"
	fr "github.com/brocaar/lorawan/applayer/fragmentation"
	mc "github.com/brocaar/lorawan/applayer/multicastsetup"

	"verif/harness/internal/evid"
)

type kind int

const (
	kUint  kind = iota // unsigned integer of Bits bits in an unsigned struct field
	kBool              // one flag bit
	kInt32             // 32 bit two's complement (the case stores the bit pattern)
	kFreq              // 24 bit frequency in units of 100 Hz; the struct field holds Hz
	kAddr              // lorawan.DevAddr; the case stores the numeric (big-endian) value
	kMask4             // [4]bool; bit i of the case value is element i
	kOpt24             // *uint32 of 24 bits that is present iff Present(values)
	kFWVer             // unexported *uint32 of DevUpgradeImageAns, present iff status == 3 (set by decoding)
	kBytes             // fixed byte array of Bits/8 bytes (case: B map)
	kBlob              // []byte to the end of the payload (case: B map)
	kItems             // []McGroupStatusAnsPayloadItem, 5 bytes per item in the B map: McGroupID, McAddr (big-endian)
)

type field struct {
	Path    string
	Kind    kind
	Bits    uint
	Present func(v map[string]uint64) bool // kOpt24 / kFWVer
	index   []int                          // reflect index chain (filled by initSpecs)
}

func (f field) max() uint64 {
	if f.Bits >= 64 {
		return ^uint64(0)
	}
	return uint64(1)<<f.Bits - 1
}

// narrow fields are enumerated completely by the exhaustive sub-checks.
func (f field) narrow() bool {
	switch f.Kind {
	case kUint, kBool, kMask4:
		return f.Bits <= 4
	}
	return false
}

type spec struct {
	Pkg    string
	Name   string
	CID    byte
	Up     bool
	New    func() payload // nil: the command has no payload
	Fields []field
	Fixed  int                // payload bytes by specification (without the CID) when Size is nil
	Size   func(c cmdVal) int // variable-size payloads
	K5     bool               // member of the known-finding class K5
	hasOpt bool               // has a kOpt24 / kFWVer part
}

func (s *spec) size(c cmdVal) int {
	if s.Size != nil {
		return s.Size(c)
	}
	return s.Fixed
}

func (s *spec) key() string { return s.Pkg + "/" + s.Name }

func u(path string, bits uint) field { return field{Path: path, Kind: kUint, Bits: bits} }
func fl(path string) field           { return field{Path: path, Kind: kBool, Bits: 1} }
func m4(path string) field           { return field{Path: path, Kind: kMask4, Bits: 4} }

const (
	pkgCS = "clocksync"
	pkgMC = "multicastsetup"
	pkgFR = "fragmentation"
	pkgFW = "firmwaremanagement"
)

var pkgNames = []string{pkgCS, pkgMC, pkgFR, pkgFW}

func sessionAnsFields() []field {
	noErr := func(v map[string]uint64) bool {
		return v["StatusAndMcGroupID.McGroupUndefined"] == 0 && v["StatusAndMcGroupID.FreqError"] == 0 && v["StatusAndMcGroupID.DRError"] == 0
	}
	return []field{
		fl("StatusAndMcGroupID.McGroupUndefined"), fl("StatusAndMcGroupID.FreqError"), fl("StatusAndMcGroupID.DRError"),
		u("StatusAndMcGroupID.McGroupID", 2),
		{Path: "TimeToStart", Kind: kOpt24, Bits: 24, Present: noErr},
	}
}

func sessionAnsSize(c cmdVal) int {
	if c.V["StatusAndMcGroupID.McGroupUndefined"] != 0 || c.V["StatusAndMcGroupID.FreqError"] != 0 || c.V["StatusAndMcGroupID.DRError"] != 0 {
		return 1
	}
	return 4
}

var specs = []*spec{
	// ---- TS003 clock synchronisation ----
	{Pkg: pkgCS, Name: "PackageVersionReq", CID: 0x00},
	{Pkg: pkgCS, Name: "PackageVersionAns", CID: 0x00, Up: true, New: func() payload { return &cs.PackageVersionAnsPayload{} }, Fixed: 2,
		Fields: []field{u("PackageIdentifier", 8), u("PackageVersion", 8)}},
	{Pkg: pkgCS, Name: "AppTimeReq", CID: 0x01, Up: true, New: func() payload { return &cs.AppTimeReqPayload{} }, Fixed: 5,
		Fields: []field{u("DeviceTime", 32), fl("Param.AnsRequired"), u("Param.TokenReq", 4)}},
	{Pkg: pkgCS, Name: "AppTimeAns", CID: 0x01, New: func() payload { return &cs.AppTimeAnsPayload{} }, Fixed: 5,
		Fields: []field{{Path: "TimeCorrection", Kind: kInt32, Bits: 32}, u("Param.TokenAns", 4)}},
	{Pkg: pkgCS, Name: "DeviceAppTimePeriodicityReq", CID: 0x02, New: func() payload { return &cs.DeviceAppTimePeriodicityReqPayload{} }, Fixed: 1,
		Fields: []field{u("Periodicity.Period", 4)}},
	{Pkg: pkgCS, Name: "DeviceAppTimePeriodicityAns", CID: 0x02, Up: true, New: func() payload { return &cs.DeviceAppTimePeriodicityAnsPayload{} }, Fixed: 5,
		Fields: []field{fl("Status.NotSupported"), u("Time", 32)}},
	{Pkg: pkgCS, Name: "ForceDeviceResyncReq", CID: 0x03, New: func() payload { return &cs.ForceDeviceResyncReqPayload{} }, Fixed: 1,
		Fields: []field{u("ForceConf.NbTransmissions", 3)}},

	// ---- TS005 remote multicast setup ----
	{Pkg: pkgMC, Name: "PackageVersionReq", CID: 0x00},
	{Pkg: pkgMC, Name: "PackageVersionAns", CID: 0x00, Up: true, New: func() payload { return &mc.PackageVersionAnsPayload{} }, Fixed: 2,
		Fields: []field{u("PackageIdentifier", 8), u("PackageVersion", 8)}},
	{Pkg: pkgMC, Name: "McGroupStatusReq", CID: 0x01, New: func() payload { return &mc.McGroupStatusReqPayload{} }, Fixed: 1,
		Fields: []field{m4("CmdMask.RegGroupMask")}},
	{Pkg: pkgMC, Name: "McGroupStatusAns", CID: 0x01, Up: true, New: func() payload { return &mc.McGroupStatusAnsPayload{} },
		Fields: []field{u("Status.NbTotalGroups", 3), m4("Status.AnsGroupMask"), {Path: "Items", Kind: kItems}},
		Size:   func(c cmdVal) int { return 1 + 5*bits.OnesCount64(c.V["Status.AnsGroupMask"]) }},
	{Pkg: pkgMC, Name: "McGroupSetupReq", CID: 0x02, New: func() payload { return &mc.McGroupSetupReqPayload{} }, Fixed: 29,
		Fields: []field{u("McGroupIDHeader.McGroupID", 2), {Path: "McAddr", Kind: kAddr, Bits: 32}, {Path: "McKeyEncrypted", Kind: kBytes, Bits: 128},
			u("MinMcFCnt", 32), u("MaxMcFCnt", 32)}},
	{Pkg: pkgMC, Name: "McGroupSetupAns", CID: 0x02, Up: true, New: func() payload { return &mc.McGroupSetupAnsPayload{} }, Fixed: 1,
		Fields: []field{fl("McGroupIDHeader.IDError"), u("McGroupIDHeader.McGroupID", 2)}},
	{Pkg: pkgMC, Name: "McGroupDeleteReq", CID: 0x03, New: func() payload { return &mc.McGroupDeleteReqPayload{} }, Fixed: 1,
		Fields: []field{u("McGroupIDHeader.McGroupID", 2)}},
	{Pkg: pkgMC, Name: "McGroupDeleteAns", CID: 0x03, Up: true, New: func() payload { return &mc.McGroupDeleteAnsPayload{} }, Fixed: 1,
		Fields: []field{fl("McGroupIDHeader.McGroupUndefined"), u("McGroupIDHeader.McGroupID", 2)}},
	{Pkg: pkgMC, Name: "McClassCSessionReq", CID: 0x04, New: func() payload { return &mc.McClassCSessionReqPayload{} }, Fixed: 10,
		Fields: []field{u("McGroupIDHeader.McGroupID", 2), u("SessionTime", 32), u("SessionTimeOut.TimeOut", 4),
			{Path: "DLFrequency", Kind: kFreq, Bits: 24}, u("DR", 8)}},
	{Pkg: pkgMC, Name: "McClassCSessionAns", CID: 0x04, Up: true, New: func() payload { return &mc.McClassCSessionAnsPayload{} },
		Fields: sessionAnsFields(), Size: sessionAnsSize},
	{Pkg: pkgMC, Name: "McClassBSessionReq", CID: 0x05, New: func() payload { return &mc.McClassBSessionReqPayload{} }, Fixed: 10,
		Fields: []field{u("McGroupIDHeader.McGroupID", 2), u("SessionTime", 32), u("TimeOutPeriodicity.Periodicity", 3), u("TimeOutPeriodicity.TimeOut", 4),
			{Path: "DLFrequency", Kind: kFreq, Bits: 24}, u("DR", 8)}},
	{Pkg: pkgMC, Name: "McClassBSessionAns", CID: 0x05, Up: true, New: func() payload { return &mc.McClassBSessionAnsPayload{} },
		Fields: sessionAnsFields(), Size: sessionAnsSize},

	// ---- TS004 fragmented data block transport ----
	{Pkg: pkgFR, Name: "PackageVersionReq", CID: 0x00},
	{Pkg: pkgFR, Name: "PackageVersionAns", CID: 0x00, Up: true, New: func() payload { return &fr.PackageVersionAnsPayload{} }, Fixed: 2,
		Fields: []field{u("PackageIdentifier", 8), u("PackageVersion", 8)}},
	{Pkg: pkgFR, Name: "FragSessionStatusReq", CID: 0x01, New: func() payload { return &fr.FragSessionStatusReqPayload{} }, Fixed: 1,
		Fields: []field{u("FragStatusReqParam.FragIndex", 2), fl("FragStatusReqParam.Participants")}},
	{Pkg: pkgFR, Name: "FragSessionStatusAns", CID: 0x01, Up: true, New: func() payload { return &fr.FragSessionStatusAnsPayload{} }, Fixed: 4,
		Fields: []field{u("ReceivedAndIndex.FragIndex", 2), u("ReceivedAndIndex.NbFragReceived", 14), u("MissingFrag", 8), fl("Status.NotEnoughMatrixMemory")}},
	{Pkg: pkgFR, Name: "FragSessionSetupReq", CID: 0x02, New: func() payload { return &fr.FragSessionSetupReqPayload{} }, Fixed: 10,
		Fields: []field{u("FragSession.FragIndex", 2), m4("FragSession.McGroupBitMask"), u("NbFrag", 16), u("FragSize", 8),
			u("Control.FragmentationMatrix", 3), u("Control.BlockAckDelay", 3), u("Padding", 8), {Path: "Descriptor", Kind: kBytes, Bits: 32}}},
	{Pkg: pkgFR, Name: "FragSessionSetupAns", CID: 0x02, Up: true, New: func() payload { return &fr.FragSessionSetupAnsPayload{} }, Fixed: 1,
		Fields: []field{u("StatusBitMask.FragIndex", 2), fl("StatusBitMask.WrongDescriptor"), fl("StatusBitMask.FragSessionIndexNotSupported"),
			fl("StatusBitMask.NotEnoughMemory"), fl("StatusBitMask.EncodingUnsupported")}},
	{Pkg: pkgFR, Name: "FragSessionDeleteReq", CID: 0x03, New: func() payload { return &fr.FragSessionDeleteReqPayload{} }, Fixed: 1,
		Fields: []field{u("Param.FragIndex", 2)}},
	{Pkg: pkgFR, Name: "FragSessionDeleteAns", CID: 0x03, Up: true, New: func() payload { return &fr.FragSessionDeleteAnsPayload{} }, Fixed: 1,
		Fields: []field{u("Status.FragIndex", 2), fl("Status.SessionDoesNotExist")}},
	{Pkg: pkgFR, Name: "DataFragment", CID: 0x08, New: func() payload { return &fr.DataFragmentPayload{} },
		Fields: []field{u("IndexAndN.FragIndex", 2), u("IndexAndN.N", 14), {Path: "Payload", Kind: kBlob}},
		Size:   func(c cmdVal) int { return 2 + len(c.B["Payload"]) }},

	// ---- TS006 firmware management ----
	{Pkg: pkgFW, Name: "PackageVersionReq", CID: 0x00},
	{Pkg: pkgFW, Name: "PackageVersionAns", CID: 0x00, Up: true, New: func() payload { return &fw.PackageVersionAnsPayload{} }, Fixed: 2,
		Fields: []field{u("PackageIdentifier", 8), u("PackageVersion", 8)}},
	{Pkg: pkgFW, Name: "DevVersionReq", CID: 0x01, New: func() payload { return &fw.DevVersionReqPayload{} }, Fixed: 0, K5: true},
	{Pkg: pkgFW, Name: "DevVersionAns", CID: 0x01, Up: true, New: func() payload { return &fw.DevVersionAnsPayload{} }, Fixed: 8,
		Fields: []field{u("FWversion", 32), u("HWversion", 32)}},
	{Pkg: pkgFW, Name: "DevRebootTimeReq", CID: 0x02, New: func() payload { return &fw.DevRebootTimeReqPayload{} }, Fixed: 4,
		Fields: []field{u("RebootTime", 32)}},
	{Pkg: pkgFW, Name: "DevRebootTimeAns", CID: 0x02, Up: true, New: func() payload { return &fw.DevRebootTimeAnsPayload{} }, Fixed: 4,
		Fields: []field{u("RebootTime", 32)}},
	{Pkg: pkgFW, Name: "DevRebootCountdownReq", CID: 0x03, New: func() payload { return &fw.DevRebootCountdownReqPayload{} }, Fixed: 3,
		Fields: []field{u("Countdown", 24)}},
	{Pkg: pkgFW, Name: "DevRebootCountdownAns", CID: 0x03, Up: true, New: func() payload { return &fw.DevRebootCountdownAnsPayload{} }, Fixed: 3,
		Fields: []field{u("Countdown", 24)}},
	{Pkg: pkgFW, Name: "DevUpgradeImageReq", CID: 0x04, New: func() payload { return &fw.DevUpgradeImageReqPayload{} }, Fixed: 0},
	{Pkg: pkgFW, Name: "DevUpgradeImageAns", CID: 0x04, Up: true, New: func() payload { return &fw.DevUpgradeImageAnsPayload{} },
		Fields: []field{u("Status.UpImageStatus", 2),
			{Path: "nextFirmwareVersion", Kind: kFWVer, Bits: 32, Present: func(v map[string]uint64) bool { return v["Status.UpImageStatus"] == 3 }}},
		Size: func(c cmdVal) int {
			if c.V["Status.UpImageStatus"] == 3 {
				return 5
			}
			return 1
		}},
	{Pkg: pkgFW, Name: "DevDeleteImageReq", CID: 0x05, New: func() payload { return &fw.DevDeleteImageReqPayload{} }, Fixed: 4,
		Fields: []field{u("FirmwareToDeleteVersion", 32)}},
	{Pkg: pkgFW, Name: "DevDeleteImageAns", CID: 0x05, Up: true, New: func() payload { return &fw.DevDeleteImageAnsPayload{} }, Fixed: 1,
		Fields: []field{u("Status.ErrorInvalidVersion", 1), u("Status.ErrorNoValidImage", 1)}},
}

var (
	specByKey = map[string]*spec{}
	specsOf   = map[string][]*spec{} // pkg + "/up" | "/down"
)

func dirName(up bool) string {
	if up {
		return "up"
	}
	return "down"
}

// initSpecs resolves the field paths and checks that the tables name every
// leaf field of every payload struct (so that a forgotten field is a harness
// error, not a silent gap).
var extraFields []string // struct fields that the tables do not name (none on the pinned tree), reported in the log

func initSpecs() error {
	if len(specByKey) > 0 {
		return nil
	}
	for _, s := range specs {
		if _, dup := specByKey[s.key()]; dup {
			return fmt.Errorf("c18 tables: duplicate %s", s.key())
		}
		specByKey[s.key()] = s
		k := s.Pkg + "/" + dirName(s.Up)
		specsOf[k] = append(specsOf[k], s)
		if s.New == nil {
			continue
		}
		t := reflect.TypeOf(s.New()).Elem()
		named := map[string]bool{}
		for i := range s.Fields {
			f := &s.Fields[i]
			named[f.Path] = true
			if f.Kind == kOpt24 || f.Kind == kFWVer {
				s.hasOpt = true
			}
			ft := t
			for _, seg := range strings.Split(f.Path, ".") {
				sf, ok := ft.FieldByName(seg)
				if !ok {
					return fmt.Errorf("c18 tables: %s has no field %s", s.key(), f.Path)
				}
				f.index = append(f.index, sf.Index...)
				ft = sf.Type
			}
		}
		leaves := map[string]string{}
		flat("", reflect.New(t).Elem(), leaves, true)
		for p := range leaves {
			p = strings.TrimPrefix(p, ".")
			if !named[p] {
				// a field the TS003-TS006 v1 tables do not know (the library's API grew): commands are built as an
				// existing caller builds them, with that field at its zero value. On the pinned tree there is none.
				extraFields = append(extraFields, s.key()+"."+p)
			}
		}
	}
	return nil
}

// ---- the case types ----

// cmdVal is one command as field values. V holds the numeric fields by path
// (absent = 0), B the byte-string fields.
type cmdVal struct {
	Cmd string              `json:"cmd"`
	V   map[string]uint64   `json:"v,omitempty"`
	B   map[string]evid.Hex `json:"b,omitempty"`
}

// inRange reports whether every value lies inside its specified width and the
// dependent parts are consistent (item count = number of mask bits, optional
// parts only where the specification has them).
func (s *spec) inRange(c cmdVal) bool {
	nv, nb := 0, 0
	for _, f := range s.Fields {
		switch f.Kind {
		case kBytes:
			if b, ok := c.B[f.Path]; ok {
				nb++
				if len(b) != int(f.Bits/8) {
					return false
				}
			}
		case kBlob:
			if b, ok := c.B[f.Path]; ok {
				nb++
				if len(b) > 239 {
					return false
				}
			}
		case kItems:
			b, ok := c.B[f.Path]
			if ok {
				nb++
			}
			if len(b) != 5*bits.OnesCount64(c.V["Status.AnsGroupMask"]) {
				return false
			}
			for i := 0; i < len(b); i += 5 {
				if b[i] > 3 {
					return false
				}
			}
		default:
			v, ok := c.V[f.Path]
			if ok {
				nv++
			}
			if v > f.max() {
				return false
			}
			if f.Present != nil && !f.Present(c.V) && v != 0 {
				return false
			}
		}
	}
	return nv == len(c.V) && nb == len(c.B) // no value for a field the command does not have
}

func addrOf(v uint64) lorawan.DevAddr {
	var a lorawan.DevAddr
	binary.BigEndian.PutUint32(a[:], uint32(v))
	return a
}

// build constructs the payload value from the field values. literal: build
// what a user of the package can write down with exported fields only (the
// optional pointer parts stay absent); complete is false when a part the
// specification requires is then missing.
func (s *spec) build(c cmdVal, literal bool) (pl payload, complete bool, problem string) {
	if s.New == nil {
		return nil, true, ""
	}
	pl = s.New()
	root := reflect.ValueOf(pl).Elem()
	complete = true
	for _, f := range s.Fields {
		v := c.V[f.Path]
		if f.Kind == kFWVer {
			if !f.Present(c.V) {
				continue
			}
			if literal {
				complete = false
				continue
			}
			// the field is unexported: the only way to obtain such a value is to decode it
			raw := make([]byte, 5)
			raw[0] = byte(c.V["Status.UpImageStatus"])
			binary.LittleEndian.PutUint32(raw[1:], uint32(v))
			d := s.New()
			if err := d.UnmarshalBinary(raw); err != nil {
				return nil, false, fmt.Sprintf("decoding the %d valid bytes %x of a DevUpgradeImageAns fails: %v", len(raw), raw, err)
			}
			return d, true, ""
		}
		fv := root.FieldByIndex(f.index)
		switch f.Kind {
		case kUint:
			fv.SetUint(v)
		case kBool:
			fv.SetBool(v != 0)
		case kInt32:
			fv.SetInt(int64(int32(uint32(v))))
		case kFreq:
			fv.SetUint(v * 100)
		case kAddr:
			fv.Set(reflect.ValueOf(addrOf(v)))
		case kMask4:
			for i := 0; i < 4; i++ {
				fv.Index(i).SetBool(v&(1<<uint(i)) != 0)
			}
		case kOpt24:
			if !f.Present(c.V) {
				continue
			}
			if literal {
				complete = false
				continue
			}
			x := uint32(v)
			fv.Set(reflect.ValueOf(&x))
		case kBytes:
			reflect.Copy(fv, reflect.ValueOf([]byte(c.B[f.Path])))
		case kBlob:
			if b := c.B[f.Path]; len(b) > 0 {
				fv.SetBytes(append([]byte{}, b...))
			}
		case kItems:
			b := c.B[f.Path]
			var items []mc.McGroupStatusAnsPayloadItem
			for i := 0; i+5 <= len(b); i += 5 {
				items = append(items, mc.McGroupStatusAnsPayloadItem{McGroupID: b[i], McAddr: addrOf(uint64(binary.BigEndian.Uint32(b[i+1:])))})
			}
			fv.Set(reflect.ValueOf(items))
		}
	}
	return pl, complete, ""
}

// atMax reports whether a field of at least two bits holds its maximum.
func (s *spec) atMax(c cmdVal) bool {
	for _, f := range s.Fields {
		switch f.Kind {
		case kBytes, kBlob, kItems:
			continue
		}
		if f.Bits >= 2 && c.V[f.Path] == f.max() && (f.Present == nil || f.Present(c.V)) {
			return true
		}
	}
	return false
}

func (s *spec) describe(c cmdVal, literal bool) string {
	var sb strings.Builder
	sb.WriteString(s.Pkg + "." + s.Name + "{")
	for i, f := range s.Fields {
		if i > 0 {
			sb.WriteString(" ")
		}
		switch f.Kind {
		case kBytes, kBlob, kItems:
			fmt.Fprintf(&sb, "%s:%x", f.Path, []byte(c.B[f.Path]))
		case kOpt24, kFWVer:
			if literal {
				fmt.Fprintf(&sb, "%s:nil", f.Path)
			} else if f.Present(c.V) {
				fmt.Fprintf(&sb, "%s:%d", f.Path, c.V[f.Path])
			} else {
				fmt.Fprintf(&sb, "%s:absent", f.Path)
			}
		case kFreq:
			fmt.Fprintf(&sb, "%s:%d", f.Path, c.V[f.Path]*100)
		case kInt32:
			fmt.Fprintf(&sb, "%s:%d", f.Path, int32(uint32(c.V[f.Path])))
		case kAddr:
			fmt.Fprintf(&sb, "%s:%08x", f.Path, c.V[f.Path])
		default:
			fmt.Fprintf(&sb, "%s:%d", f.Path, c.V[f.Path])
		}
	}
	sb.WriteString("}")
	return sb.String()
}

// ---- structural comparison ----

// flat writes one entry per leaf of v (pointers followed, nil and empty byte
// strings alike, slices by index). skeleton: do not descend into slice
// elements and list a slice / pointer as one leaf (used to check the tables).
func flat(prefix string, v reflect.Value, out map[string]string, skeleton bool) {
	switch v.Kind() {
	case reflect.Ptr, reflect.Interface:
		if skeleton && v.Kind() == reflect.Ptr {
			out[prefix] = "ptr"
			return
		}
		if v.IsNil() {
			out[prefix] = "absent"
			return
		}
		flat(prefix, v.Elem(), out, skeleton)
	case reflect.Struct:
		if v.NumField() == 0 {
			return
		}
		for i := 0; i < v.NumField(); i++ {
			flat(prefix+"."+v.Type().Field(i).Name, v.Field(i), out, skeleton)
		}
	case reflect.Bool:
		out[prefix] = fmt.Sprint(v.Bool())
	case reflect.Uint8, reflect.Uint16, reflect.Uint32, reflect.Uint64, reflect.Uint:
		out[prefix] = fmt.Sprint(v.Uint())
	case reflect.Int8, reflect.Int16, reflect.Int32, reflect.Int64, reflect.Int:
		out[prefix] = fmt.Sprint(v.Int())
	case reflect.Array, reflect.Slice:
		if v.Type().Elem().Kind() == reflect.Uint8 {
			b := make([]byte, v.Len())
			for i := range b {
				b[i] = byte(v.Index(i).Uint())
			}
			out[prefix] = fmt.Sprintf("%x", b)
			return
		}
		if skeleton {
			out[prefix] = "list"
			return
		}
		if v.Kind() == reflect.Slice {
			out[prefix+"#"] = fmt.Sprint(v.Len())
		}
		for i := 0; i < v.Len(); i++ {
			flat(fmt.Sprintf("%s[%d]", prefix, i), v.Index(i), out, skeleton)
		}
	default:
		panic(fmt.Sprintf("c18 harness: cannot compare a %s at %s", v.Kind(), prefix))
	}
}

// diff returns "" when the two payloads are the same value, else the first
// differing field.
func diff(want, got payload) string {
	if want == nil || got == nil {
		if want == nil && got == nil {
			return ""
		}
		return fmt.Sprintf("payload: decoded %v, original %v", got != nil, want != nil)
	}
	if reflect.TypeOf(want) != reflect.TypeOf(got) {
		return fmt.Sprintf("payload type: decoded %T, original %T", got, want)
	}
	if reflect.DeepEqual(want, got) {
		return ""
	}
	a, b := map[string]string{}, map[string]string{}
	flat("", reflect.ValueOf(want), a, false)
	flat("", reflect.ValueOf(got), b, false)
	keys := make([]string, 0, len(a)+len(b))
	for k := range a {
		keys = append(keys, k)
	}
	for k := range b {
		if _, ok := a[k]; !ok {
			keys = append(keys, k)
		}
	}
	sort.Strings(keys)
	for _, k := range keys {
		x, okx := a[k]
		y, oky := b[k]
		if !okx {
			x = "(none)"
		}
		if !oky {
			y = "(none)"
		}
		if x != y {
			return fmt.Sprintf("field %s: decoded %s, original %s", strings.TrimPrefix(k, "."), y, x)
		}
	}
	return "" // differ only in nil versus empty
}
