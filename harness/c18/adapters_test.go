//go:build verif

package c18

// The four packages have structurally identical but distinct Command /
// Commands types; one adapter per package gives the checks a common surface.

import (
	"fmt"

	cs "github.com/brocaar/lorawan/applayer/clocksync"
	fw "github.com/brocaar/lorawan/applayer/firmwaremanagement"
	fr "github.com/brocaar/lorawan/applayer/fragmentation"
	mc "github.com/brocaar/lorawan/applayer/multicastsetup"
)

// payload is the method set every package's CommandPayload interface has.
type payload interface {
	MarshalBinary() ([]byte, error)
	UnmarshalBinary([]byte) error
	Size() int
}

type adapter struct {
	// marshal encodes one command and returns the size the command reports.
	marshal func(cid byte, pl payload) (b []byte, size int, err error)
	// unmarshal decodes one command in the given direction.
	unmarshal func(up bool, data []byte) (cid byte, pl payload, size int, err error)
	// marshalSeq / unmarshalSeq go through the package's Commands type.
	marshalSeq   func(cids []byte, pls []payload) ([]byte, error)
	unmarshalSeq func(up bool, data []byte) (cids []byte, pls []payload, err error)
}

var adapters = map[string]adapter{
	pkgCS: {
		marshal: func(cid byte, pl payload) ([]byte, int, error) {
			c := cs.Command{CID: cs.CID(cid)}
			if pl != nil {
				c.Payload = pl
			}
			size := c.Size()
			b, err := c.MarshalBinary()
			return b, size, err
		},
		unmarshal: func(up bool, data []byte) (byte, payload, int, error) {
			var c cs.Command
			if err := c.UnmarshalBinary(up, data); err != nil {
				return 0, nil, 0, err
			}
			var pl payload
			if c.Payload != nil {
				pl = c.Payload
			}
			return byte(c.CID), pl, c.Size(), nil
		},
		marshalSeq: func(cids []byte, pls []payload) ([]byte, error) {
			var cmds cs.Commands
			for i := range cids {
				c := cs.Command{CID: cs.CID(cids[i])}
				if pls[i] != nil {
					c.Payload = pls[i]
				}
				cmds = append(cmds, c)
			}
			return cmds.MarshalBinary()
		},
		unmarshalSeq: func(up bool, data []byte) ([]byte, []payload, error) {
			var cmds cs.Commands
			if err := cmds.UnmarshalBinary(up, data); err != nil {
				return nil, nil, err
			}
			var cids []byte
			var pls []payload
			for _, c := range cmds {
				var pl payload
				if c.Payload != nil {
					pl = c.Payload
				}
				cids, pls = append(cids, byte(c.CID)), append(pls, pl)
			}
			return cids, pls, nil
		},
	},
	pkgMC: {
		marshal: func(cid byte, pl payload) ([]byte, int, error) {
			c := mc.Command{CID: mc.CID(cid)}
			if pl != nil {
				c.Payload = pl
			}
			size := c.Size()
			b, err := c.MarshalBinary()
			return b, size, err
		},
		unmarshal: func(up bool, data []byte) (byte, payload, int, error) {
			var c mc.Command
			if err := c.UnmarshalBinary(up, data); err != nil {
				return 0, nil, 0, err
			}
			var pl payload
			if c.Payload != nil {
				pl = c.Payload
			}
			return byte(c.CID), pl, c.Size(), nil
		},
		marshalSeq: func(cids []byte, pls []payload) ([]byte, error) {
			var cmds mc.Commands
			for i := range cids {
				c := mc.Command{CID: mc.CID(cids[i])}
				if pls[i] != nil {
					c.Payload = pls[i]
				}
				cmds = append(cmds, c)
			}
			return cmds.MarshalBinary()
		},
		unmarshalSeq: func(up bool, data []byte) ([]byte, []payload, error) {
			var cmds mc.Commands
			if err := cmds.UnmarshalBinary(up, data); err != nil {
				return nil, nil, err
			}
			var cids []byte
			var pls []payload
			for _, c := range cmds {
				var pl payload
				if c.Payload != nil {
					pl = c.Payload
				}
				cids, pls = append(cids, byte(c.CID)), append(pls, pl)
			}
			return cids, pls, nil
		},
	},
	pkgFR: {
		marshal: func(cid byte, pl payload) ([]byte, int, error) {
			c := fr.Command{CID: fr.CID(cid)}
			if pl != nil {
				c.Payload = pl
			}
			size := c.Size()
			b, err := c.MarshalBinary()
			return b, size, err
		},
		unmarshal: func(up bool, data []byte) (byte, payload, int, error) {
			var c fr.Command
			if err := c.UnmarshalBinary(up, data); err != nil {
				return 0, nil, 0, err
			}
			var pl payload
			if c.Payload != nil {
				pl = c.Payload
			}
			return byte(c.CID), pl, c.Size(), nil
		},
		marshalSeq: func(cids []byte, pls []payload) ([]byte, error) {
			var cmds fr.Commands
			for i := range cids {
				c := fr.Command{CID: fr.CID(cids[i])}
				if pls[i] != nil {
					c.Payload = pls[i]
				}
				cmds = append(cmds, c)
			}
			return cmds.MarshalBinary()
		},
		unmarshalSeq: func(up bool, data []byte) ([]byte, []payload, error) {
			var cmds fr.Commands
			if err := cmds.UnmarshalBinary(up, data); err != nil {
				return nil, nil, err
			}
			var cids []byte
			var pls []payload
			for _, c := range cmds {
				var pl payload
				if c.Payload != nil {
					pl = c.Payload
				}
				cids, pls = append(cids, byte(c.CID)), append(pls, pl)
			}
			return cids, pls, nil
		},
	},
	pkgFW: {
		marshal: func(cid byte, pl payload) ([]byte, int, error) {
			c := fw.Command{CID: fw.CID(cid)}
			if pl != nil {
				c.Payload = pl
			}
			size := c.Size()
			b, err := c.MarshalBinary()
			return b, size, err
		},
		unmarshal: func(up bool, data []byte) (byte, payload, int, error) {
			var c fw.Command
			if err := c.UnmarshalBinary(up, data); err != nil {
				return 0, nil, 0, err
			}
			var pl payload
			if c.Payload != nil {
				pl = c.Payload
			}
			return byte(c.CID), pl, c.Size(), nil
		},
		marshalSeq: func(cids []byte, pls []payload) ([]byte, error) {
			var cmds fw.Commands
			for i := range cids {
				c := fw.Command{CID: fw.CID(cids[i])}
				if pls[i] != nil {
					c.Payload = pls[i]
				}
				cmds = append(cmds, c)
			}
			return cmds.MarshalBinary()
		},
		unmarshalSeq: func(up bool, data []byte) ([]byte, []payload, error) {
			var cmds fw.Commands
			if err := cmds.UnmarshalBinary(up, data); err != nil {
				return nil, nil, err
			}
			var cids []byte
			var pls []payload
			for _, c := range cmds {
				var pl payload
				if c.Payload != nil {
					pl = c.Payload
				}
				cids, pls = append(cids, byte(c.CID)), append(pls, pl)
			}
			return cids, pls, nil
		},
	},
}

// catch runs f and returns the panic value as text ("" when f returned).
func catch(f func()) (p string) {
	defer func() {
		if r := recover(); r != nil {
			p = fmt.Sprint(r)
		}
	}()
	f()
	return ""
}
