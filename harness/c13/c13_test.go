//go:build verif

// C13: band data-rate / channel-plan / max-payload tables are closed and
// consistent; channel plans, RX2 defaults, TX power steps and data-rate
// definitions equal internal/ref/bandrules.go.
package c13

import (
	"fmt"
	"os"
	"sort"
	"testing"
	"time"

	"github.com/brocaar/lorawan"
	"github.com/brocaar/lorawan/band"

	"verif/harness/internal/evid"
	"verif/harness/internal/ref"
)

// Cfg is one band configuration.
type Cfg struct {
	Band  string `json:"band"`
	Rep   bool   `json:"repeater"`
	Dwell bool   `json:"dwell400ms"`
}

func (c Cfg) String() string {
	return fmt.Sprintf("%s(repeater=%v,dwell400ms=%v)", c.Band, c.Rep, c.Dwell)
}

type opened struct {
	b     band.Band
	snap  band.VerifBandSnapshot
	rules *ref.BandRules
}

func (c Cfg) open() (opened, error) {
	rules := ref.Band(c.Band)
	if rules == nil {
		return opened{}, fmt.Errorf("no rules for band %q", c.Band)
	}
	dt := lorawan.DwellTimeNoLimit
	if c.Dwell {
		dt = lorawan.DwellTime400ms
	}
	b, err := band.GetConfig(band.Name(c.Band), c.Rep, dt)
	if err != nil {
		return opened{}, err
	}
	snap, ok := band.VerifSnapshot(b)
	if !ok {
		return opened{}, fmt.Errorf("no snapshot for %s", c.Band)
	}
	return opened{b: b, snap: snap, rules: rules}, nil
}

func allCfgs(f func(Cfg)) {
	for _, n := range ref.BandNames() {
		for _, rep := range []bool{false, true} {
			for _, dw := range []bool{false, true} {
				f(Cfg{Band: n, Rep: rep, Dwell: dw})
			}
		}
	}
}

// the 6 protocol versions and 7 revisions the package names, plus three unknown strings each: one that resembles
// nothing and two that begin like a named constant (a string that is not one of the constants is unknown)
var versions = []string{band.LoRaWAN_1_0_0, band.LoRaWAN_1_0_1, band.LoRaWAN_1_0_2, band.LoRaWAN_1_0_3, band.LoRaWAN_1_0_4, band.LoRaWAN_1_1_0, unknownVersion, "1.0.3-rc1", "1.0.1.1"}
var revisions = []string{band.RegParamRevA, band.RegParamRevB, band.RegParamRevC, band.RegParamRevRP002_1_0_0, band.RegParamRevRP002_1_0_1, band.RegParamRevRP002_1_0_2, band.RegParamRevRP002_1_0_3, unknownRevision, "RP002-1.0.1b", "RP002-1.0.0a"}

const (
	unknownVersion  = "9.9.9"
	unknownRevision = "RP-unknown"
	latestKey       = "latest" // the tables' key of the fallback entry
)

func unknownString(s string) bool {
	return s == unknownVersion || s == unknownRevision || s == "1.0.3-rc1" || s == "1.0.1.1" || s == "RP002-1.0.1b" || s == "RP002-1.0.0a"
}

func sortedKeys[V any](m map[string]V) []string {
	out := make([]string, 0, len(m))
	for k := range m {
		out = append(out, k)
	}
	sort.Strings(out)
	return out
}

func sortedInts[V any](m map[int]V) []int {
	out := make([]int, 0, len(m))
	for k := range m {
		out = append(out, k)
	}
	sort.Ints(out)
	return out
}

// --- sub-check: closure ---

type closureCase struct {
	Cfg
	Source string `json:"source"`
}

var closureSources = []string{"uplink-channel-ranges", "downlink-channel-ranges", "rx1-table", "rx1-getter", "rx2-default", "enabled-uplink-data-rates", "enabled-uplink-data-rates-with-extra-channel"}

func checkClosure(c closureCase) evid.Outcome {
	o, err := c.open()
	if err != nil {
		return evid.Fail("%s: %v", c.Cfg, err)
	}
	refs := 0
	// need: the index must be a defined data-rate; dir: 1 uplink flag, 2 downlink flag, 0 none
	need := func(i int, dir int, where string) *evid.Outcome {
		refs++
		if _, err := o.b.GetDataRate(i); err != nil {
			f := evid.Fail("%s: %s refers to DR%d, which is not a defined data-rate of the band (GetDataRate: %v)", c.Cfg, where, i, err)
			return &f
		}
		d := o.snap.DataRates[i]
		if dir == 1 && !d.Uplink {
			f := evid.Fail("%s: %s refers to DR%d, which is not an uplink data-rate", c.Cfg, where, i)
			return &f
		}
		if dir == 2 && !d.Downlink {
			f := evid.Fail("%s: %s refers to DR%d, which is not a downlink data-rate", c.Cfg, where, i)
			return &f
		}
		return nil
	}
	ranges := func(n int, get func(int) (band.Channel, error), dir int, what string) *evid.Outcome {
		for i := 0; i < n; i++ {
			ch, err := get(i)
			if err != nil {
				f := evid.Fail("%s: %s channel %d: %v", c.Cfg, what, i, err)
				return &f
			}
			if ch.MinDR > ch.MaxDR || ch.MaxDR-ch.MinDR > 15 {
				f := evid.Fail("%s: %s channel %d has data-rate range %d..%d", c.Cfg, what, i, ch.MinDR, ch.MaxDR)
				return &f
			}
			for d := ch.MinDR; d <= ch.MaxDR; d++ {
				if f := need(d, dir, fmt.Sprintf("%s channel %d (%d Hz, DR range %d..%d)", what, i, ch.Frequency, ch.MinDR, ch.MaxDR)); f != nil {
					return f
				}
			}
		}
		return nil
	}
	var f *evid.Outcome
	switch c.Source {
	case "uplink-channel-ranges":
		f = ranges(len(o.snap.UplinkChannels), o.b.GetUplinkChannel, 1, "uplink")
	case "downlink-channel-ranges":
		f = ranges(len(o.snap.DownlinkChannels), o.b.GetDownlinkChannel, 2, "downlink")
	case "rx1-table":
		for _, dr := range sortedInts(o.snap.RX1DataRateTable) {
			for off, res := range o.snap.RX1DataRateTable[dr] {
				if f = need(res, 2, fmt.Sprintf("RX1 table row %d offset %d", dr, off)); f != nil {
					break
				}
			}
			if f != nil {
				break
			}
		}
	case "rx1-getter":
		for dr := 0; dr <= 15 && f == nil; dr++ {
			for off := 0; off <= 9 && f == nil; off++ {
				if res, err := o.b.GetRX1DataRateIndex(dr, off); err == nil {
					f = need(res, 2, fmt.Sprintf("GetRX1DataRateIndex(%d, %d)", dr, off))
				}
			}
		}
	case "rx2-default":
		f = need(o.b.GetDefaults().RX2DataRate, 2, "the RX2 default")
	case "enabled-uplink-data-rates":
		for _, d := range o.b.GetEnabledUplinkDataRates() {
			if f = need(d, 1, "GetEnabledUplinkDataRates"); f != nil {
				break
			}
		}
	case "enabled-uplink-data-rates-with-extra-channel":
		// a network adds a channel for one single uplink data-rate (e.g. the FSK data-rate): for every defined uplink
		// data-rate d, a fresh band with one extra channel [d, d] must hand out only defined data-rates, exactly the union
		// of the channels' ranges
		for d, dr := range o.snap.DataRates {
			if !dr.Uplink {
				continue
			}
			fresh, err := c.open()
			if err != nil {
				return evid.Fail("%s: %v", c.Cfg, err)
			}
			if fresh.b.AddChannel(868800000, d, d) != nil {
				continue // fixed channel plan
			}
			want := map[int]bool{d: true}
			for _, ch := range o.snap.UplinkChannels {
				for i := ch.MinDR; i <= ch.MaxDR; i++ {
					want[i] = true
				}
			}
			got := fresh.b.GetEnabledUplinkDataRates()
			for _, g := range got {
				refs++
				if _, err := fresh.b.GetDataRate(g); err != nil {
					return evid.Fail("%s after AddChannel(868.8 MHz, DR%d, DR%d): GetEnabledUplinkDataRates() = %v hands out DR%d, which is not a defined data-rate of the band", c.Cfg, d, d, got, g)
				}
				if !want[g] {
					return evid.Fail("%s after AddChannel(868.8 MHz, DR%d, DR%d): GetEnabledUplinkDataRates() = %v contains DR%d, which no channel allows", c.Cfg, d, d, got, g)
				}
			}
			if len(got) != len(want) {
				return evid.Fail("%s after AddChannel(868.8 MHz, DR%d, DR%d): GetEnabledUplinkDataRates() = %v, the channels' ranges give %d data-rates", c.Cfg, d, d, got, len(want))
			}
		}
	default:
		return evid.Outcome{Skip: true}
	}
	if f != nil {
		return *f
	}
	return evid.Outcome{NonTrivial: refs > 0, Class: c.Source}
}

// --- sub-check: data-rate index <-> parameters ---

type indexCase struct {
	Cfg
	DR     int  `json:"dr"`
	Uplink bool `json:"uplink"`
}

const lookupRepeats = 32 // the implementation iterates a map: a duplicate is found only by chance per lookup

func sameParams(a, b band.DataRate) bool {
	return a.Modulation == b.Modulation && a.SpreadFactor == b.SpreadFactor && a.Bandwidth == b.Bandwidth && a.BitRate == b.BitRate && a.CodingRate == b.CodingRate && a.OccupiedChannelWidth == b.OccupiedChannelWidth
}

func checkIndex(c indexCase) evid.Outcome {
	o, err := c.open()
	if err != nil {
		return evid.Fail("%s: %v", c.Cfg, err)
	}
	dir := "downlink"
	if c.Uplink {
		dir = "uplink"
	}
	sd, defined := o.snap.DataRates[c.DR]
	dr, err := o.b.GetDataRate(c.DR)
	if !defined {
		if err == nil {
			return evid.Fail("%s: GetDataRate(%d) succeeds although the band's table has no such entry", c.Cfg, c.DR)
		}
		return evid.Outcome{Class: "undefined"}
	}
	if err != nil {
		return evid.Fail("%s: GetDataRate(%d): %v, but the band's table has the entry", c.Cfg, c.DR, err)
	}
	if !sameParams(dr, sd.DataRate) {
		return evid.Fail("%s: GetDataRate(%d)=%+v differs from the table entry %+v", c.Cfg, c.DR, dr, sd.DataRate)
	}
	has := sd.Downlink
	if c.Uplink {
		has = sd.Uplink
	}
	if !has {
		// not a direction the data-rate supports: an answer, if any, must be a data-rate of that direction with these parameters
		if j, err := o.b.GetDataRateIndex(c.Uplink, dr); err == nil {
			jd, ok := o.snap.DataRates[j]
			if !ok || !sameParams(jd.DataRate, dr) || (c.Uplink && !jd.Uplink) || (!c.Uplink && !jd.Downlink) {
				return evid.Fail("%s: GetDataRateIndex(%s, parameters of DR%d %+v)=%d, which is not a %s data-rate with these parameters", c.Cfg, dir, c.DR, dr, j, dir)
			}
			return evid.Outcome{Class: dir + "/other-direction-twin"}
		}
		return evid.Outcome{Class: dir + "/unsupported-direction"}
	}
	for k := 0; k < lookupRepeats; k++ {
		j, err := o.b.GetDataRateIndex(c.Uplink, dr)
		if err != nil {
			return evid.Fail("%s: GetDataRateIndex(%s, parameters of DR%d %+v): %v", c.Cfg, dir, c.DR, dr, err)
		}
		if j != c.DR {
			return evid.Fail("%s: GetDataRateIndex(%s, parameters of DR%d %+v)=%d (lookup %d of %d): two %s data-rates share these parameters", c.Cfg, dir, c.DR, dr, j, k+1, lookupRepeats, dir)
		}
	}
	return evid.Outcome{NonTrivial: true, Class: c.Band + "/" + dir}
}

// --- max-payload sizes ---

// sizeOK: M = N + 8 and N <= 242, or the (0,0) "not available" marker, which the
// Regional Parameters use only for DR0-1 of AS923 / AU915 under 400 ms dwell time
// and for DR0 of CN470 (N/A since RP002-1.0.1).
func sizeOK(c Cfg, dr int, s band.MaxPayloadSize) (ok bool, marker bool) {
	if s.M == 0 && s.N == 0 {
		as := len(c.Band) >= 5 && c.Band[:5] == "AS923"
		dwellNA := c.Dwell && (as || c.Band == "AU915") && (dr == 0 || dr == 1)
		return dwellNA || (c.Band == "CN470" && dr == 0), true
	}
	return s.M == s.N+8 && s.N >= 0 && s.N <= 242, false
}

func sizeRule(c Cfg, where string, dr int, s band.MaxPayloadSize) *evid.Outcome {
	ok, marker := sizeOK(c, dr, s)
	if ok {
		return nil
	}
	var f evid.Outcome
	if marker {
		f = evid.Fail("%s: %s DR%d lists M=0,N=0 (not available); that marker is defined only for DR0-1 of AS923/AU915 under dwell time and DR0 of CN470", c, where, dr)
	} else {
		f = evid.Fail("%s: %s DR%d lists M=%d,N=%d; expected M = N+8 (=%d) and N <= 242", c, where, dr, s.M, s.N, s.N+8)
	}
	return &f
}

// resolve states the documented lookup on the snapshot: unknown version ->
// "latest", unknown revision -> that version's "latest".
func resolve(snap band.VerifBandSnapshot, ver, rev string) (map[int]band.MaxPayloadSize, string, bool) {
	vk := ver
	vm, ok := snap.MaxPayloadSizePerDR[vk]
	if !ok {
		vk = latestKey
		if vm, ok = snap.MaxPayloadSizePerDR[vk]; !ok {
			return nil, "", false
		}
	}
	rk := rev
	rm, ok := vm[rk]
	if !ok {
		rk = latestKey
		if rm, ok = vm[rk]; !ok {
			return nil, "", false
		}
	}
	return rm, vk + "/" + rk, true
}

type gridCase struct {
	Cfg
	Version  string `json:"version"`
	Revision string `json:"revision"`
	DR       int    `json:"dr"`
}

func checkGrid(c gridCase) evid.Outcome {
	o, err := c.open()
	if err != nil {
		return evid.Fail("%s: %v", c.Cfg, err)
	}
	call := fmt.Sprintf("%s: GetMaxPayloadSizeForDataRateIndex(%q, %q, %d)", c.Cfg, c.Version, c.Revision, c.DR)
	got, gerr := o.b.GetMaxPayloadSizeForDataRateIndex(c.Version, c.Revision, c.DR)
	table, path, ok := resolve(o.snap, c.Version, c.Revision)
	_, defined := o.snap.DataRates[c.DR]
	bothUnknown := unknownString(c.Version) && unknownString(c.Revision)
	if bothUnknown {
		if !ok || path != latestKey+"/"+latestKey {
			return evid.Fail("%s: the band has no latest/latest max-payload table (resolved %q)", call, path)
		}
		if _, has := table[c.DR]; defined && !has {
			return evid.Fail("%s: DR%d is a defined data-rate but the latest/latest table has no size for it (getter: %v)", call, c.DR, gerr)
		}
	}
	if !ok {
		if gerr == nil {
			return evid.Fail("%s=%+v although no table resolves for these strings", call, got)
		}
		// independent of how the tables are keyed: whatever the two strings are, a defined data-rate has a size - an
		// unknown version resolves to the latest one and an unknown or unlisted revision to that version's latest table
		if defined {
			return evid.Fail("%s: %v - DR%d is a defined data-rate of this band; version and revision strings that are not listed have to resolve to the latest table, so the lookup cannot fail for want of a table", call, gerr, c.DR)
		}
		return evid.Outcome{Class: "no-table"}
	}
	want, has := table[c.DR]
	if !has {
		if gerr == nil {
			return evid.Fail("%s=%+v although table %s has no entry for DR%d", call, got, path, c.DR)
		}
		cls := "no-entry/undefined-dr"
		if defined {
			cls = "no-entry/defined-dr"
		}
		return evid.Outcome{Class: cls}
	}
	if gerr != nil {
		return evid.Fail("%s: %v, but unknown strings must resolve to the latest entries: table %s lists %+v", call, gerr, path, want)
	}
	if got != want {
		return evid.Fail("%s=%+v, but table %s (unknown strings resolve to latest) lists %+v", call, got, path, want)
	}
	if f := sizeRule(c.Cfg, "the size returned for "+fmt.Sprintf("(%q, %q)", c.Version, c.Revision), c.DR, got); f != nil {
		return *f
	}
	cls := "exact/exact"
	switch {
	case path == latestKey+"/"+latestKey:
		cls = "fallback/fallback"
	case path[:len(latestKey)+1] == latestKey+"/":
		cls = "fallback/exact"
	case path[len(path)-len(latestKey)-1:] == "/"+latestKey:
		cls = "exact/fallback"
	}
	return evid.Outcome{NonTrivial: true, Class: cls}
}

// cellCase is one cell of the internal tables.
type cellCase struct {
	Cfg
	VersionKey  string `json:"version_key"`
	RevisionKey string `json:"revision_key"`
	DR          int    `json:"dr"`
}

func enumCells(cfgs func(func(Cfg)), emit func(cellCase)) {
	cfgs(func(cfg Cfg) {
		o, err := cfg.open()
		if err != nil {
			emit(cellCase{Cfg: cfg, VersionKey: "?"})
			return
		}
		for _, v := range sortedKeys(o.snap.MaxPayloadSizePerDR) {
			for _, r := range sortedKeys(o.snap.MaxPayloadSizePerDR[v]) {
				for _, dr := range sortedInts(o.snap.MaxPayloadSizePerDR[v][r]) {
					emit(cellCase{Cfg: cfg, VersionKey: v, RevisionKey: r, DR: dr})
				}
			}
		}
	})
}

func (c cellCase) where() string { return fmt.Sprintf("table %s/%s", c.VersionKey, c.RevisionKey) }

func cell(o opened, c cellCase) (band.MaxPayloadSize, bool) {
	s, ok := o.snap.MaxPayloadSizePerDR[c.VersionKey][c.RevisionKey][c.DR]
	return s, ok
}

func checkCell(c cellCase) evid.Outcome {
	o, err := c.open()
	if err != nil {
		return evid.Fail("%s: %v", c.Cfg, err)
	}
	s, ok := cell(o, c)
	if !ok {
		return evid.Outcome{Skip: true}
	}
	if f := sizeRule(c.Cfg, c.where(), c.DR, s); f != nil {
		return *f
	}
	cls := "size"
	if s.M == 0 {
		cls = "not-available"
	}
	return evid.Outcome{NonTrivial: true, Class: cls}
}

// repeater <= non-repeater, cell by cell (Rep of the case is ignored: both configurations are opened)
func checkRepeaterCell(c cellCase) evid.Outcome {
	rc, nc := c.Cfg, c.Cfg
	rc.Rep, nc.Rep = true, false
	ro, err := rc.open()
	if err != nil {
		return evid.Fail("%s: %v", rc, err)
	}
	no, err := nc.open()
	if err != nil {
		return evid.Fail("%s: %v", nc, err)
	}
	rs, ok := cell(ro, c)
	if !ok {
		return evid.Outcome{Skip: true}
	}
	ns, ok := cell(no, c)
	if !ok {
		return evid.Outcome{Class: "only-in-repeater-table"}
	}
	if rs.M > ns.M || rs.N > ns.N {
		return evid.Fail("%s dwell400ms=%v: %s DR%d: repeater-compatible size M=%d,N=%d exceeds the non-repeater size M=%d,N=%d", c.Band, c.Dwell, c.where(), c.DR, rs.M, rs.N, ns.M, ns.N)
	}
	cls := "equal"
	if rs.N < ns.N {
		cls = "smaller"
	}
	return evid.Outcome{NonTrivial: true, Class: cls}
}

func checkRepeaterGrid(c gridCase) evid.Outcome {
	rc, nc := c.Cfg, c.Cfg
	rc.Rep, nc.Rep = true, false
	ro, err := rc.open()
	if err != nil {
		return evid.Fail("%s: %v", rc, err)
	}
	no, err := nc.open()
	if err != nil {
		return evid.Fail("%s: %v", nc, err)
	}
	rs, rerr := ro.b.GetMaxPayloadSizeForDataRateIndex(c.Version, c.Revision, c.DR)
	ns, nerr := no.b.GetMaxPayloadSizeForDataRateIndex(c.Version, c.Revision, c.DR)
	if rerr != nil || nerr != nil {
		cls := "neither"
		if rerr == nil {
			cls = "repeater-only"
		} else if nerr == nil {
			cls = "non-repeater-only"
		}
		return evid.Outcome{Class: cls}
	}
	if rs.M > ns.M || rs.N > ns.N {
		return evid.Fail("%s dwell400ms=%v: GetMaxPayloadSizeForDataRateIndex(%q, %q, %d): repeater-compatible M=%d,N=%d exceeds non-repeater M=%d,N=%d", c.Band, c.Dwell, c.Version, c.Revision, c.DR, rs.M, rs.N, ns.M, ns.N)
	}
	cls := "equal"
	if rs.N < ns.N {
		cls = "smaller"
	}
	return evid.Outcome{NonTrivial: true, Class: cls}
}

// --- sub-check: N non-decreasing as SF decreases at equal bandwidth, per direction ---

type tableCase struct {
	Cfg
	VersionKey  string `json:"version_key"`
	RevisionKey string `json:"revision_key"`
	Uplink      bool   `json:"uplink"`
}

func checkSF(c tableCase) evid.Outcome {
	o, err := c.open()
	if err != nil {
		return evid.Fail("%s: %v", c.Cfg, err)
	}
	table, ok := o.snap.MaxPayloadSizePerDR[c.VersionKey][c.RevisionKey]
	if !ok {
		return evid.Outcome{Skip: true}
	}
	dir := "downlink"
	if c.Uplink {
		dir = "uplink"
	}
	type ent struct{ dr, sf, n int }
	byBW := map[int][]ent{}
	for _, dr := range sortedInts(table) {
		d, ok := o.snap.DataRates[dr]
		if !ok || d.Modulation != band.LoRaModulation || (c.Uplink && !d.Uplink) || (!c.Uplink && !d.Downlink) {
			continue
		}
		byBW[d.Bandwidth] = append(byBW[d.Bandwidth], ent{dr, d.SpreadFactor, table[dr].N})
	}
	pairs := 0
	for _, bw := range sortedInts(byBW) {
		es := byBW[bw]
		sort.Slice(es, func(i, j int) bool {
			if es[i].sf != es[j].sf {
				return es[i].sf > es[j].sf
			}
			return es[i].dr < es[j].dr
		})
		// every entry against the largest N among the entries of strictly higher spreading factor
		var top, pending *ent
		for i := range es {
			if i > 0 && es[i].sf != es[i-1].sf && pending != nil && (top == nil || pending.n > top.n) {
				top = pending
			}
			if i > 0 && es[i].sf != es[i-1].sf {
				pending = nil
			}
			if top != nil {
				pairs++
				if es[i].n < top.n {
					return evid.Fail("%s: table %s/%s, %s, %d kHz: N shrinks from %d at SF%d (DR%d) to %d at SF%d (DR%d); sizes must not shrink as the spreading factor decreases", c.Cfg, c.VersionKey, c.RevisionKey, dir, bw, top.n, top.sf, top.dr, es[i].n, es[i].sf, es[i].dr)
				}
			}
			if pending == nil || es[i].n > pending.n {
				pending = &es[i]
			}
		}
	}
	return evid.Outcome{NonTrivial: pairs > 0, Class: dir}
}

// --- sub-checks: constants against bandrules ---

type chanCase struct {
	Cfg
	Uplink bool `json:"uplink"`
	Index  int  `json:"index"` // 0..n: index n must not exist
}

func checkChannel(c chanCase) evid.Outcome {
	o, err := c.open()
	if err != nil {
		return evid.Fail("%s: %v", c.Cfg, err)
	}
	plan, get, what, have := o.rules.Downlink, o.b.GetDownlinkChannel, "downlink", o.snap.DownlinkChannels
	if c.Uplink {
		plan, get, what, have = o.rules.Uplink, o.b.GetUplinkChannel, "uplink", o.snap.UplinkChannels
	}
	if c.Index < 0 || c.Index > len(plan) {
		return evid.Outcome{Skip: true}
	}
	ch, err := get(c.Index)
	if c.Index == len(plan) {
		if err == nil || len(have) != len(plan) {
			return evid.Fail("%s: %d default %s channels (channel %d: %+v), the Regional Parameters define %d", c.Cfg, len(have), what, c.Index, ch, len(plan))
		}
		return evid.Outcome{NonTrivial: true, Class: what + "/count"}
	}
	want := plan[c.Index]
	if err != nil {
		return evid.Fail("%s: default %s channel %d is missing (%v); Regional Parameters: %d Hz DR%d..%d", c.Cfg, what, c.Index, err, want.Frequency, want.MinDR, want.MaxDR)
	}
	if ch.Frequency != want.Frequency || ch.MinDR != want.MinDR || ch.MaxDR != want.MaxDR {
		return evid.Fail("%s: default %s channel %d is %d Hz DR%d..%d; Regional Parameters: %d Hz DR%d..%d", c.Cfg, what, c.Index, ch.Frequency, ch.MinDR, ch.MaxDR, want.Frequency, want.MinDR, want.MaxDR)
	}
	sc := have[c.Index]
	if sc.Custom || !sc.Enabled || sc.Frequency != ch.Frequency {
		return evid.Fail("%s: default %s channel %d: custom=%v enabled=%v frequency=%d in the table, getter says %d", c.Cfg, what, c.Index, sc.Custom, sc.Enabled, sc.Frequency, ch.Frequency)
	}
	if c.Uplink {
		if i, err := o.b.GetUplinkChannelIndex(want.Frequency, true); err != nil || i != c.Index {
			return evid.Fail("%s: GetUplinkChannelIndex(%d, default)=%d, %v; want %d", c.Cfg, want.Frequency, i, err, c.Index)
		}
	}
	return evid.Outcome{NonTrivial: true, Class: what}
}

type drCase struct {
	Cfg
	DR int `json:"dr"`
}

func checkDRDef(c drCase) evid.Outcome {
	o, err := c.open()
	if err != nil {
		return evid.Fail("%s: %v", c.Cfg, err)
	}
	want, defined := o.rules.DataRates[c.DR]
	got, gerr := o.b.GetDataRate(c.DR)
	sd, inTable := o.snap.DataRates[c.DR]
	if !defined {
		if gerr == nil || inTable {
			return evid.Fail("%s: DR%d is defined as %+v; the Regional Parameters leave it RFU", c.Cfg, c.DR, got)
		}
		return evid.Outcome{Class: "rfu"}
	}
	if gerr != nil || !inTable {
		return evid.Fail("%s: DR%d is not defined (%v); Regional Parameters: %+v", c.Cfg, c.DR, gerr, want)
	}
	same := string(got.Modulation) == want.Modulation && got.SpreadFactor == want.SF && got.Bandwidth == want.BW && got.BitRate == want.BitRate &&
		got.OccupiedChannelWidth == want.OCW && (got.CodingRate == want.CodingRate || ref.SameCodingRate(got.CodingRate, want.CodingRate))
	if !same {
		return evid.Fail("%s: DR%d is %+v; Regional Parameters: %+v", c.Cfg, c.DR, got, want)
	}
	if sd.Uplink != want.Uplink || sd.Downlink != want.Downlink {
		return evid.Fail("%s: DR%d has uplink=%v downlink=%v; Regional Parameters: uplink=%v downlink=%v", c.Cfg, c.DR, sd.Uplink, sd.Downlink, want.Uplink, want.Downlink)
	}
	return evid.Outcome{NonTrivial: true, Class: want.Modulation}
}

type txCase struct {
	Cfg
	Index int `json:"tx_power"`
}

func checkTXPower(c txCase) evid.Outcome {
	o, err := c.open()
	if err != nil {
		return evid.Fail("%s: %v", c.Cfg, err)
	}
	if c.Index < 0 {
		return evid.Outcome{Skip: true} // negative indices belong to C15
	}
	max := len(o.snap.TXPowerOffsets) - 1
	okMax := false
	for _, m := range o.rules.TXPowerMaxIndex {
		okMax = okMax || m == max
	}
	if !okMax {
		return evid.Fail("%s: TX power indices 0..%d; Regional Parameters: 0..%v", c.Cfg, max, o.rules.TXPowerMaxIndex)
	}
	got, err := o.b.GetTXPowerOffset(c.Index)
	if c.Index > max {
		if err == nil {
			return evid.Fail("%s: GetTXPowerOffset(%d)=%d, but the band has only indices 0..%d", c.Cfg, c.Index, got, max)
		}
		return evid.Outcome{Class: "rfu"}
	}
	if err != nil {
		return evid.Fail("%s: GetTXPowerOffset(%d): %v; rule: %d dB", c.Cfg, c.Index, err, ref.TXPowerOffset(c.Index))
	}
	if got != ref.TXPowerOffset(c.Index) {
		return evid.Fail("%s: GetTXPowerOffset(%d)=%d dB; rule -2 dB per step: %d dB", c.Cfg, c.Index, got, ref.TXPowerOffset(c.Index))
	}
	return evid.Outcome{NonTrivial: true, Class: "step"}
}

type cfgCase struct {
	Cfg
}

func checkDefaults(c cfgCase) evid.Outcome {
	o, err := c.open()
	if err != nil {
		return evid.Fail("%s: %v", c.Cfg, err)
	}
	r := o.rules
	if o.b.Name() != c.Band {
		return evid.Fail("%s: Name()=%q", c.Cfg, o.b.Name())
	}
	d := o.b.GetDefaults()
	if d.RX2Frequency != r.RX2Frequency || d.RX2DataRate != r.RX2DataRate {
		return evid.Fail("%s: RX2 default is %d Hz / DR%d, Regional Parameters say %d Hz / DR%d", c.Cfg, d.RX2Frequency, d.RX2DataRate, r.RX2Frequency, r.RX2DataRate)
	}
	sec := func(n int) time.Duration { return time.Duration(n) * time.Second }
	if d.ReceiveDelay1 != sec(r.ReceiveDelay1) || d.ReceiveDelay2 != sec(r.ReceiveDelay2) || d.JoinAcceptDelay1 != sec(r.JoinAcceptDelay1) || d.JoinAcceptDelay2 != sec(r.JoinAcceptDelay2) {
		return evid.Fail("%s: delays %v/%v/%v/%v, Regional Parameters say %d/%d/%d/%d s", c.Cfg, d.ReceiveDelay1, d.ReceiveDelay2, d.JoinAcceptDelay1, d.JoinAcceptDelay2, r.ReceiveDelay1, r.ReceiveDelay2, r.JoinAcceptDelay1, r.JoinAcceptDelay2)
	}
	if o.snap.SupportsExtraChannels != r.Dynamic {
		return evid.Fail("%s: supports extra channels=%v; the region's plan is dynamic=%v", c.Cfg, o.snap.SupportsExtraChannels, r.Dynamic)
	}
	return evid.Outcome{NonTrivial: true, Class: c.Band}
}

// --- enumerations ---

func repCfgs(f func(Cfg)) { // one case per (band, dwell): both repeater settings are opened by the check
	for _, n := range ref.BandNames() {
		for _, dw := range []bool{false, true} {
			f(Cfg{Band: n, Rep: true, Dwell: dw})
		}
	}
}

func enumGrid(cfgs func(func(Cfg)), emit func(gridCase)) {
	cfgs(func(cfg Cfg) {
		for _, v := range versions {
			for _, rv := range revisions {
				for dr := 0; dr <= 15; dr++ {
					emit(gridCase{Cfg: cfg, Version: v, Revision: rv, DR: dr})
				}
			}
		}
	})
}

func enumTables(emit func(tableCase)) {
	allCfgs(func(cfg Cfg) {
		o, err := cfg.open()
		if err != nil {
			emit(tableCase{Cfg: cfg, VersionKey: "?"})
			return
		}
		for _, v := range sortedKeys(o.snap.MaxPayloadSizePerDR) {
			for _, r := range sortedKeys(o.snap.MaxPayloadSizePerDR[v]) {
				emit(tableCase{Cfg: cfg, VersionKey: v, RevisionKey: r, Uplink: true})
				emit(tableCase{Cfg: cfg, VersionKey: v, RevisionKey: r, Uplink: false})
			}
		}
	})
}

// TestListViolations prints every violating case of the enumerated sub-checks
// (the driver stops a shard at the first one). Diagnostic only: VERIF_LIST=1
// go test -tags verif -v -run TestListViolations ./c13/
func TestListViolations(t *testing.T) {
	if os.Getenv("VERIF_LIST") == "" {
		t.Skip("diagnostic listing; set VERIF_LIST=1")
	}
	n := 0
	report := func(sub string, o evid.Outcome) {
		if o.Violation != "" {
			n++
			fmt.Printf("[%s] %s\n", sub, o.Violation)
		}
	}
	allCfgs(func(cfg Cfg) {
		for _, s := range closureSources {
			report("closure", checkClosure(closureCase{cfg, s}))
		}
		for dr := 0; dr <= 15; dr++ {
			report("dr-index-roundtrip", checkIndex(indexCase{cfg, dr, true}))
			report("dr-index-roundtrip", checkIndex(indexCase{cfg, dr, false}))
			report("constants-datarates", checkDRDef(drCase{cfg, dr}))
		}
		for i := 0; i <= 16; i++ {
			report("constants-txpower", checkTXPower(txCase{cfg, i}))
		}
		r := ref.Band(cfg.Band)
		for i := 0; i <= len(r.Uplink); i++ {
			report("constants-channels", checkChannel(chanCase{cfg, true, i}))
		}
		for i := 0; i <= len(r.Downlink); i++ {
			report("constants-channels", checkChannel(chanCase{cfg, false, i}))
		}
		report("constants-defaults", checkDefaults(cfgCase{cfg}))
	})
	enumGrid(allCfgs, func(c gridCase) { report("size-grid", checkGrid(c)) })
	enumCells(allCfgs, func(c cellCase) { report("size-cells", checkCell(c)) })
	enumCells(repCfgs, func(c cellCase) { report("repeater-le-cells", checkRepeaterCell(c)) })
	enumGrid(repCfgs, func(c gridCase) { report("repeater-le-getter", checkRepeaterGrid(c)) })
	enumTables(func(c tableCase) { report("sf-monotonic", checkSF(c)) })
	fmt.Printf("%d violating cases\n", n)
}

func TestProp(t *testing.T) {
	r := evid.Begin(t, "C13")
	defer r.Finish()

	evid.Exhaustive(r, t, "closure",
		"56 configurations (14 names x repeater x dwell) x 6 sources of data-rate indices (uplink / downlink channel DR ranges, internal RX1 table, GetRX1DataRateIndex over DR 0..15 x offset 0..9, RX2 default, GetEnabledUplinkDataRates): every index handed out is a defined data-rate (GetDataRate succeeds) of the matching direction (snapshot flags). Non-trivial: the source refers to at least one index.",
		true,
		func(emit func(closureCase)) {
			allCfgs(func(cfg Cfg) {
				for _, s := range closureSources {
					emit(closureCase{cfg, s})
				}
			})
		}, checkClosure)

	evid.Exhaustive(r, t, "dr-index-roundtrip",
		"56 configurations x DR 0..15 x direction: GetDataRate(i) equals the table entry; when i carries the flag of the direction, GetDataRateIndex(direction, GetDataRate(i)) == i in each of 32 repeated lookups (the implementation iterates a map in random order, so a twin would be hit only by chance per lookup); in a direction i does not support an answer must be a same-parameter data-rate of that direction; undefined i must be an error. Non-trivial: defined index in a supported direction.",
		true,
		func(emit func(indexCase)) {
			allCfgs(func(cfg Cfg) {
				for dr := 0; dr <= 15; dr++ {
					emit(indexCase{cfg, dr, true})
					emit(indexCase{cfg, dr, false})
				}
			})
		}, checkIndex)

	evid.Exhaustive(r, t, "size-grid",
		"56 configurations x 9 protocol versions (6 named + 3 unknown strings, two of which begin like a named one: 1.0.3-rc1, 1.0.1.1) x 10 revisions (7 named + 3 unknown strings, among them RP002-1.0.1b, RP002-1.0.0a) x DR 0..15 through GetMaxPayloadSizeForDataRateIndex. Oracle: the documented resolution applied to the snapshot (unknown version -> latest, unknown revision -> that version's latest), which the getter must reproduce; under unknown/unknown every defined data-rate must have a size, and for no pair of strings may the lookup of a defined data-rate fail for want of a table; every returned size is M=N+8 with N<=242 or the (0,0) marker (only AS923/AU915 DR0-1 under dwell time and CN470 DR0). Non-trivial: a size is returned.",
		true,
		func(emit func(gridCase)) { enumGrid(allCfgs, emit) }, checkGrid)

	evid.Exhaustive(r, t, "size-cells",
		"every cell (version key, revision key, DR) of the internal max-payload tables of the 56 configurations (keys enumerated from the snapshot in sorted order, including keys no getter call reaches): M=N+8 with N<=242, or the (0,0) marker where the Regional Parameters define it. Every cell is non-trivial.",
		true,
		func(emit func(cellCase)) { enumCells(allCfgs, emit) }, checkCell)

	evid.Exhaustive(r, t, "repeater-le-cells",
		"28 (band, dwell) pairs x every cell of the repeater-compatible tables: where the non-repeater configuration has the same (version key, revision key, DR) cell, repeater M and N do not exceed it. Non-trivial: the cell exists in both.",
		true,
		func(emit func(cellCase)) { enumCells(repCfgs, emit) }, checkRepeaterCell)

	evid.Exhaustive(r, t, "repeater-le-getter",
		"28 (band, dwell) pairs x 7 versions x 8 revisions x DR 0..15 through the public getter of both configurations: when both return a size, the repeater-compatible M and N do not exceed the non-repeater ones. Non-trivial: both return a size.",
		true,
		func(emit func(gridCase)) { enumGrid(repCfgs, emit) }, checkRepeaterGrid)

	evid.Exhaustive(r, t, "sf-monotonic",
		"56 configurations x every (version key, revision key) table x direction: among the LoRa data-rates of that direction listed in the table, grouped by bandwidth and ordered by falling spreading factor, N never shrinks ((0,0) markers count as 0). Non-trivial: at least one pair of data-rates with equal bandwidth.",
		true, enumTables, checkSF)

	evid.Exhaustive(r, t, "constants-channels",
		"56 configurations x direction x every default channel index of the regional plan plus the first index beyond it: frequency and DR range equal bandrules (formula per region), the channel is enabled and not custom, the frequency maps back to the index; the index beyond the plan must not exist. Every case is non-trivial.",
		true,
		func(emit func(chanCase)) {
			allCfgs(func(cfg Cfg) {
				rl := ref.Band(cfg.Band)
				for i := 0; i <= len(rl.Uplink); i++ {
					emit(chanCase{cfg, true, i})
				}
				for i := 0; i <= len(rl.Downlink); i++ {
					emit(chanCase{cfg, false, i})
				}
			})
		}, checkChannel)

	evid.Exhaustive(r, t, "constants-datarates",
		"56 configurations x DR 0..15: defined exactly where bandrules defines it, with the same modulation / SF / bandwidth / bit rate / LR-FHSS coding rate (as a fraction) / occupied width and the same uplink / downlink flags. Non-trivial: defined data-rate.",
		true,
		func(emit func(drCase)) {
			allCfgs(func(cfg Cfg) {
				for dr := 0; dr <= 15; dr++ {
					emit(drCase{cfg, dr})
				}
			})
		}, checkDRDef)

	evid.Exhaustive(r, t, "constants-txpower",
		"56 configurations x TX power index 0..16: offset = -2 dB x index up to the region's last index (bandrules; US915 10 or 14 depending on the Regional Parameters version), an error above it. Non-trivial: index inside the range.",
		true,
		func(emit func(txCase)) {
			allCfgs(func(cfg Cfg) {
				for i := 0; i <= 16; i++ {
					emit(txCase{cfg, i})
				}
			})
		}, checkTXPower)

	evid.Exhaustive(r, t, "constants-defaults",
		"56 configurations: RX2 default frequency / data-rate, the four delays, the name and the dynamic / fixed nature of the plan equal bandrules. Every case is non-trivial.",
		true,
		func(emit func(cfgCase)) { allCfgs(func(cfg Cfg) { emit(cfgCase{cfg}) }) }, checkDefaults)
}
