//go:build verif

// C02: data-frame MIC equals the specification value; set/validate agree.
package c02

import (
	"bytes"
	"fmt"
	"testing"

	"github.com/brocaar/lorawan"
	"pgregory.net/rapid"

	"verif/harness/internal/evid"
	"verif/harness/internal/gen"
	"verif/harness/internal/ref"
)

type pert struct {
	Kind string `json:"kind"`
	A    int    `json:"a"` // bit / byte index or new value, meaning depends on Kind
	B    int    `json:"b"`
}

type micCase struct {
	F        ref.Frame `json:"frame"`
	V11      bool      `json:"v11"`
	ConfFCnt uint32    `json:"conffcnt"`
	TxDR     uint8     `json:"txdr"`
	TxCh     uint8     `json:"txch"`
	FNwk     evid.Hex  `json:"fnwksintkey"`
	SNwk     evid.Hex  `json:"snwksintkey"`
	Perts    []pert    `json:"perts"`
}

func toKey(h evid.Hex) (k ref.Key) { copy(k[:], h); return }

func params(c *micCase) ref.MICParams {
	return ref.MICParams{V11: c.V11, Uplink: ref.IsUplinkMType(c.F.MType), ACK: c.F.ACK, DevAddr: c.F.DevAddr, FCnt: c.F.FCnt,
		ConfFCnt: c.ConfFCnt, TxDR: c.TxDR, TxCh: c.TxCh, FNwkSInt: toKey(c.FNwk), SNwkSInt: toKey(c.SNwk)}
}

func refMIC(c *micCase) [4]byte { return ref.DataMIC(params(c), c.F.Msg()) }

func ver(v11 bool) lorawan.MACVersion {
	if v11 {
		return lorawan.LoRaWAN1_1
	}
	return lorawan.LoRaWAN1_0
}

// libValidate runs the library's validation of the frame of c carrying mic.
func libValidate(c *micCase, mic [4]byte, cmds bool) (bool, error) {
	p, err := gen.ToLib(&c.F, cmds)
	if err != nil {
		return false, err
	}
	p.MIC = lorawan.MIC(mic)
	if ref.IsUplinkMType(c.F.MType) {
		return p.ValidateUplinkDataMIC(ver(c.V11), c.ConfFCnt, c.TxDR, c.TxCh, gen.LibKey(toKey(c.FNwk)), gen.LibKey(toKey(c.SNwk)))
	}
	return p.ValidateDownlinkDataMIC(ver(c.V11), c.ConfFCnt, gen.LibKey(toKey(c.SNwk)))
}

func flipKey(h evid.Hex, bit int) evid.Hex {
	o := append(evid.Hex{}, h...)
	o[bit/8%16] ^= 1 << uint(bit%8)
	return o
}

// apply returns the perturbed copy of c, and whether the perturbation is applicable.
func apply(c micCase, p pert) (micCase, bool) {
	d := c
	d.F.FOpts = append([]byte{}, c.F.FOpts...)
	d.F.FRM = append([]byte{}, c.F.FRM...)
	switch p.Kind {
	case "fnwk":
		d.FNwk = flipKey(c.FNwk, p.A)
	case "snwk":
		d.SNwk = flipKey(c.SNwk, p.A)
	case "fcntbit":
		d.F.FCnt ^= 1 << uint(p.A%32)
	case "fcnt+64k":
		d.F.FCnt += 1 << 16
	case "devaddr":
		d.F.DevAddr ^= 1 << uint(p.A%32)
	case "confirmed": // confirmed <-> unconfirmed in the same direction changes MHDR
		d.F.MType ^= 6 // 2<->4, 3<->5
	case "direction": // same fields, other direction
		d.F.MType ^= 1
		if len(d.F.FOpts) > 0 || d.F.FPort == 0 {
			return d, false // the command bytes would have to be valid for the other direction to be built as values
		}
	case "frmbyte":
		if len(d.F.FRM) == 0 || d.F.FPort == 0 {
			return d, false
		}
		d.F.FRM[p.A%len(d.F.FRM)] ^= 1 << uint(p.B%8)
	case "fport":
		if d.F.FPort <= 0 {
			return d, false
		}
		d.F.FPort = 1 + (d.F.FPort-1+1+p.A%254)%255
	case "flag":
		switch p.A % 3 {
		case 0:
			d.F.ADR = !d.F.ADR
		case 1:
			d.F.ADRACKReq = !d.F.ADRACKReq
		default:
			d.F.FPending = !d.F.FPending
		}
	case "ack":
		d.F.ACK = !d.F.ACK
	case "conf":
		d.ConfFCnt ^= 1 << uint(p.A%16)
	case "conf+64k":
		d.ConfFCnt += uint32(1+p.A%7) << 16
	case "confhigh":
		d.ConfFCnt ^= 1 << uint(16+p.A%16)
	case "txdr":
		d.TxDR ^= 1 << uint(p.A%8)
	case "txch":
		d.TxCh ^= 1 << uint(p.A%8)
	case "version":
		d.V11 = !d.V11
	default:
		return d, false
	}
	return d, true
}

var pertKinds = []string{"fnwk", "snwk", "fcntbit", "fcntbit", "fcnt+64k", "devaddr", "confirmed", "direction", "frmbyte", "fport", "flag", "ack", "conf", "conf+64k", "confhigh", "txdr", "txch", "version"}

func genCase(t *rapid.T) micCase {
	c := micCase{F: *gen.DataFrame(t, gen.DataMType(t), gen.DataOpts{MaxTotal: 255})}
	c.V11 = rapid.Bool().Draw(t, "v11")
	c.ConfFCnt = gen.U32(t, "conffcnt")
	c.TxDR, c.TxCh = rapid.Byte().Draw(t, "txdr"), rapid.Byte().Draw(t, "txch")
	k := gen.Key(t, "fnwk")
	c.FNwk = k[:]
	if rapid.Bool().Draw(t, "samekeys") {
		c.SNwk = append(evid.Hex{}, c.FNwk...)
	} else {
		k2 := gen.Key(t, "snwk")
		c.SNwk = k2[:]
	}
	n := rapid.IntRange(4, 10).Draw(t, "nperts")
	for i := 0; i < n; i++ {
		c.Perts = append(c.Perts, pert{Kind: rapid.SampledFrom(pertKinds).Draw(t, "kind"), A: rapid.IntRange(0, 1023).Draw(t, "a"), B: rapid.IntRange(0, 7).Draw(t, "b")})
	}
	return c
}

func checkCase(c micCase) evid.Outcome {
	up := ref.IsUplinkMType(c.F.MType)
	want := refMIC(&c)
	msg := c.F.Msg()
	for _, cmds := range []bool{true, false} {
		p, err := gen.ToLib(&c.F, cmds)
		if err != nil {
			return evid.Outcome{Skip: true}
		}
		if up {
			err = p.SetUplinkDataMIC(ver(c.V11), c.ConfFCnt, c.TxDR, c.TxCh, gen.LibKey(toKey(c.FNwk)), gen.LibKey(toKey(c.SNwk)))
		} else {
			err = p.SetDownlinkDataMIC(ver(c.V11), c.ConfFCnt, gen.LibKey(toKey(c.SNwk)))
		}
		if err != nil {
			return evid.Fail("Set*DataMIC fails on a valid frame: %v (msg %x)", err, msg)
		}
		if [4]byte(p.MIC) != want {
			return evid.Fail("Set*DataMIC gives %x, specification gives %x (uplink=%v v1.1=%v ACK=%v FCnt=%#x ConfFCnt=%#x txDR=%d txCh=%d msg=%x)", p.MIC[:], want[:], up, c.V11, c.F.ACK, c.F.FCnt, c.ConfFCnt, c.TxDR, c.TxCh, msg)
		}
		ok, err := libValidate(&c, want, cmds)
		if err != nil || !ok {
			return evid.Fail("Validate*DataMIC rejects the specification MIC %x (ok=%v err=%v)", want[:], ok, err)
		}
		// a history on the frame value that carries the MIC: an edit the library refuses (17 bytes of FOpts), a refused
		// Set*, the edit taken back - the frame still carries the specification MIC and still validates
		if m, isData := p.MACPayload.(*lorawan.MACPayload); isData {
			saved := m.FHDR.FOpts
			m.FHDR.FOpts = []lorawan.Payload{&lorawan.DataPayload{Bytes: make([]byte, 17)}}
			var serr error
			if up {
				serr = p.SetUplinkDataMIC(ver(c.V11), c.ConfFCnt, c.TxDR, c.TxCh, gen.LibKey(toKey(c.FNwk)), gen.LibKey(toKey(c.SNwk)))
			} else {
				serr = p.SetDownlinkDataMIC(ver(c.V11), c.ConfFCnt, gen.LibKey(toKey(c.SNwk)))
			}
			m.FHDR.FOpts = saved
			if serr != nil {
				var vok bool
				var verr error
				if up {
					vok, verr = p.ValidateUplinkDataMIC(ver(c.V11), c.ConfFCnt, c.TxDR, c.TxCh, gen.LibKey(toKey(c.FNwk)), gen.LibKey(toKey(c.SNwk)))
				} else {
					vok, verr = p.ValidateDownlinkDataMIC(ver(c.V11), c.ConfFCnt, gen.LibKey(toKey(c.SNwk)))
				}
				if [4]byte(p.MIC) != want || !vok || verr != nil {
					return evid.Fail("the frame carried the specification MIC %x; after a Set*DataMIC that was refused (%v) for an edit that was then taken back it carries %x and validation answers %v (err %v): a refused call changed the frame", want[:], serr, p.MIC[:], vok, verr)
				}
			}
		}
		// a MIC differing in one bit must be rejected
		for bit := 0; bit < 32; bit += 5 {
			bad := want
			bad[bit/8] ^= 1 << uint(bit%8)
			if ok, _ := libValidate(&c, bad, cmds); ok {
				return evid.Fail("Validate*DataMIC accepts %x although the specification MIC is %x", bad[:], want[:])
			}
		}
	}
	// receive path: the frame as decoded from the wire (16-bit FCnt restored to 32 bits by the receiver) validates
	{
		g := c.F
		g.MIC = want
		// half of the cases receive in a loop: one variable, the decoded value kept by value, the variable decodes the next frame
		loop := c.F.FCnt&1 == 1
		q, err := gen.Receive(g.Encode(), loop)
		if err != nil {
			return evid.Fail("UnmarshalBinary(%x): %v", g.Encode(), err)
		}
		if c.F.FCnt&3 == 2 {
			// a worker that keeps one MACPayload value and decodes the MACPayload part of every frame into it: the
			// value decoded a frame with all FCtrl flags set and 15 FOpts bytes before
			wire := g.Encode()
			var mp lorawan.MACPayload
			prev := append([]byte{9, 9, 9, 9, 0xff, 0xff, 0xff}, bytes.Repeat([]byte{0x02}, 15)...)
			if err := mp.UnmarshalBinary(up, append(prev, 0x07, 0xaa)); err != nil {
				return evid.Fail("harness: the MACPayload used before does not decode: %v", err)
			}
			if err := mp.UnmarshalBinary(up, append([]byte{}, wire[1:len(wire)-4]...)); err != nil {
				return evid.Fail("MACPayload.UnmarshalBinary(%x) into a value used before: %v", wire[1:len(wire)-4], err)
			}
			q = lorawan.PHYPayload{MHDR: q.MHDR, MACPayload: &mp, MIC: q.MIC}
		}
		// a server that does not know yet which session the frame belongs to tries candidates on the received value
		// first - another device's keys, the next frame-counter epoch; each answer is exactly "is the specification MIC
		// under these parameters the one the frame carries" - and then the right ones
		validate := func(d *micCase) (bool, error) {
			q.MACPayload.(*lorawan.MACPayload).FHDR.FCnt = d.F.FCnt
			if up {
				return q.ValidateUplinkDataMIC(ver(d.V11), d.ConfFCnt, d.TxDR, d.TxCh, gen.LibKey(toKey(d.FNwk)), gen.LibKey(toKey(d.SNwk)))
			}
			return q.ValidateDownlinkDataMIC(ver(d.V11), d.ConfFCnt, gen.LibKey(toKey(d.SNwk)))
		}
		if c.F.FCnt&4 == 4 {
			other := c
			other.FNwk, other.SNwk = append(evid.Hex{}, c.FNwk...), append(evid.Hex{}, c.SNwk...)
			other.FNwk[3] ^= 0x10
			other.SNwk[12] ^= 0x01
			epoch := c
			epoch.F.FCnt = c.F.FCnt + 1<<16
			for _, d := range []*micCase{&other, &epoch} {
				exp := refMIC(d) == want
				if got, err := validate(d); err != nil || got != exp {
					return evid.Fail("the frame %x decoded from the wire, validated for a candidate session (keys %x / %x, FCnt %#x): answer %v (err %v), the specification MIC under these parameters is %x, the frame carries %x", g.Encode(), []byte(d.FNwk), []byte(d.SNwk), d.F.FCnt, got, err, refMIC(d), want[:])
				}
			}
		}
		q.MACPayload.(*lorawan.MACPayload).FHDR.FCnt = c.F.FCnt
		var ok bool
		if up {
			ok, err = q.ValidateUplinkDataMIC(ver(c.V11), c.ConfFCnt, c.TxDR, c.TxCh, gen.LibKey(toKey(c.FNwk)), gen.LibKey(toKey(c.SNwk)))
		} else {
			ok, err = q.ValidateDownlinkDataMIC(ver(c.V11), c.ConfFCnt, gen.LibKey(toKey(c.SNwk)))
		}
		if err != nil || !ok {
			return evid.Fail("the frame %x decoded from the wire carries the specification MIC %x but validation answers %v (err %v)%s", g.Encode(), want[:], ok, err, map[bool]string{true: " - after the same decoded value was validated for two candidate sessions (other keys, next FCnt epoch) that do not match", false: ""}[c.F.FCnt&4 == 4])
		}
	}
	if up {
		// ValidateUplinkDataMICF <=> bytes 2..3 equal cmacF[0..1]
		c11 := c
		c11.V11 = true
		f11 := refMIC(&c11)
		for _, mic := range [][4]byte{want, f11, {want[0], want[1], f11[2], f11[3]}, {f11[0], f11[1], want[2], want[3]}} {
			p, _ := gen.ToLib(&c.F, true)
			p.MIC = lorawan.MIC(mic)
			got, err := p.ValidateUplinkDataMICF(gen.LibKey(toKey(c.FNwk)))
			exp := mic[2] == f11[2] && mic[3] == f11[3]
			if err != nil || got != exp {
				return evid.Fail("ValidateUplinkDataMICF(%x)=%v err=%v, cmacF[0..1]=%x so expected %v", mic[:], got, err, f11[2:], exp)
			}
		}
	}
	// metamorphic: change one input; validation of the original MIC must answer exactly "specification MIC unchanged"
	applied := 0
	for _, p := range c.Perts {
		d, ok := apply(c, p)
		if !ok {
			continue
		}
		applied++
		exp := refMIC(&d) == want
		got, err := libValidate(&d, want, true)
		if err != nil {
			return evid.Fail("Validate*DataMIC errors after perturbation %+v: %v", p, err)
		}
		if got != exp {
			return evid.Fail("after changing %s (%+v) validation of the original MIC answers %v, but the specification MIC %s (uplink=%v v1.1=%v ACK=%v FCnt=%#x->%#x ConfFCnt=%#x->%#x)", p.Kind, p, got,
				map[bool]string{true: "is unchanged, so it must be accepted", false: "changes, so it must be rejected"}[exp], up, c.V11, c.F.ACK, c.F.FCnt, d.F.FCnt, c.ConfFCnt, d.ConfFCnt)
		}
	}
	// a frame that was decoded from the wire and then edited (FOpts removed) is a frame value like any other:
	// its MIC is the specification MIC of the edited frame
	if len(c.F.FOpts) > 0 && c.F.FPort != 0 {
		var q lorawan.PHYPayload
		if err := q.UnmarshalBinary(c.F.Encode()); err == nil {
			m := q.MACPayload.(*lorawan.MACPayload)
			m.FHDR.FCnt = c.F.FCnt
			m.FHDR.FOpts = nil
			d := c
			d.F.FOpts = nil
			var err error
			if up {
				err = q.SetUplinkDataMIC(ver(c.V11), c.ConfFCnt, c.TxDR, c.TxCh, gen.LibKey(toKey(c.FNwk)), gen.LibKey(toKey(c.SNwk)))
			} else {
				err = q.SetDownlinkDataMIC(ver(c.V11), c.ConfFCnt, gen.LibKey(toKey(c.SNwk)))
			}
			if exp := refMIC(&d); err != nil || [4]byte(q.MIC) != exp {
				return evid.Fail("frame decoded from %x, FOpts then removed: Set*DataMIC gives %x (err %v), specification MIC of the edited frame (msg %x) is %x", c.F.Encode(), q.MIC[:], err, d.F.Msg(), exp[:])
			}
		}
	}
	// the validator of the opposite direction (one shared key, as with a 1.0 NwkSKey) must answer by the specification MIC
	// for ITS direction: Dir is an authenticated input, it is not taken from the frame's MType
	{
		d := c
		d.FNwk = c.SNwk
		own := refMIC(&d)
		pp := params(&d)
		pp.Uplink = !up
		exp := ref.DataMIC(pp, d.F.Msg()) == own
		p, err := gen.ToLib(&d.F, true)
		if err == nil {
			p.MIC = lorawan.MIC(own)
			var got bool
			var verr error
			if up {
				got, verr = p.ValidateDownlinkDataMIC(ver(d.V11), d.ConfFCnt, gen.LibKey(toKey(d.SNwk)))
			} else {
				got, verr = p.ValidateUplinkDataMIC(ver(d.V11), d.ConfFCnt, d.TxDR, d.TxCh, gen.LibKey(toKey(d.FNwk)), gen.LibKey(toKey(d.SNwk)))
			}
			if verr == nil && got != exp {
				return evid.Fail("frame with MType %d carrying its own MIC %x, validated by the validator of the opposite direction with the same key: answers %v, the specification MIC for that direction %s", d.F.MType, own[:], got,
					map[bool]string{true: "is the same (must be accepted)", false: "differs (must be rejected)"}[exp])
			}
		}
	}
	nt := len(msg) > 16 && (c.F.FCnt >= 1<<16 || (c.F.ACK && c.ConfFCnt != 0))
	cls := fmt.Sprintf("up=%v/v11=%v/ack=%v", up, c.V11, c.F.ACK)
	return evid.Outcome{NonTrivial: nt, Class: cls}
}

func TestProp(t *testing.T) {
	if err := ref.SelfTest(); err != nil {
		t.Fatal(err)
	}
	r := evid.Begin(t, "C02")
	defer r.Finish()
	evid.Rapid(r, t, "data-mic",
		"rapid: data frames of the four data MTypes (MHDR|MACPayload <= 255 bytes) x random keys (FNwkSIntKey = or != SNwkSIntKey) x MAC version x boundary-biased 32-bit FCnt and ConfFCnt x txDR x txCh; oracle: B0/B1 + own AES-CMAC (RFC 4493 vectors self-checked) over the wire model's serialisation. Checks: Set == reference; Validate true on it, false on single-bit MIC changes; a Set* refused for an edit that is then taken back leaves the MIC the frame carried; a frame received in a loop (value kept while its variable decodes the next frame) validates - half of the time after the decoded value was validated for two candidate sessions (other keys, next FCnt epoch) with the exact reference answer -, and so does one whose MACPayload part was decoded into a MACPayload value that decoded an all-flags frame with 15 FOpts bytes before; ValidateUplinkDataMICF <=> cmacF half; 4-10 single-input perturbations per case (keys, any FCnt bit, +2^16, DevAddr, confirmed/unconfirmed, direction, payload byte, FPort, flags, ACK, ConfFCnt low/high bits, +k*2^16, txDR, txCh, version) and the opposite direction's validator with a shared key, where validation of the original MIC must answer exactly whether the reference MIC is unchanged. Non-trivial: message longer than one AES block and (FCnt >= 2^16 or ACK with ConfFCnt != 0).",
		60000, 3000000, genCase, checkCase)
}
